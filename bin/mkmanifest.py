#!/usr/bin/env python3
"""Writes /verif/MANIFEST.json from the table below (single source of truth for claimed checks)."""
import json, os
VERIF = os.path.dirname(os.path.dirname(os.path.abspath(__file__)))

CHECKS = {
 "C04": dict(level="model_checking", engine="E1 opseq-BFS",
   technique="explicit-state BFS over session/KV/catalog/prepared-query/txn command sequences on the real FSM; state invariants + transition rules",
   text="Every command sequence (to the reported depth, from every seed) over session create/destroy, lock/unlock/set/delete/delete-tree, node/service/check register, deregister, status flips, rename by ID, session-bound prepared queries and transactions mixing these (including the Session delete verb) runs on the real FSM. On every state: no key held by a missing session, no check link or session-bound query of a missing session, every session's node exists and none of its checks is critical or missing. On every transition: a session that ended released or deleted its keys in that same step; lock/unlock verdicts follow the holder rule.",
   note="TTL expiry is represented by the replicated destroy it turns into; the leader's timer wheel is not explored. Same trusted base as C03.",
   design="§3 C04"),
 "C05": dict(level="model_checking", engine="E1 opseq-BFS",
   technique="explicit-state enumeration of pre-states x transaction op lists on the real FSM; byte-identical-dump / no-publish / no-deferred-callback / no-woken-watcher oracle for failures, differential vs. sequential application for successes",
   text="From every pre-state of a catalog/KV/session BFS, every list (length<=2 over 39 verbs; length 3 over a focused subset in thorough) is applied as one Txn raft command, which places a failing operation at every position. Failure => full 36-table dump identical, no event batch published, no tombstone-GC hint deferred, no watch channel fired (fresh-instance pass), no results. Success => every changed row carries the entry's index and content equals applying the same operations one by one. Read-only transactions leave the dump identical.",
   note="Watch-channel firing is only observable on a primary memdb, so that clause runs on freshly replayed instances from the seed states only. Stand-alone equivalents exist for non-CAS verbs; lists containing catalog CAS verbs are checked for atomicity but not differentially.",
   design="§3 C05"),
 "C06": dict(level="model_checking", engine="E1 opseq-BFS",
   technique="explicit-state BFS over write commands on freshly replayed instances x instantiated read queries; index-monotonicity and watch-firing oracle on every (transition, query) pair",
   text="Every transition of a BFS over the write alphabet (catalog, KV, sessions, transactions, prepared queries, config entries, intentions in both formats, CA, peering) is paired with every instantiated read query (KV get/list, sessions, nodes/services/service nodes/node services for local and peer rows, connect, tag filters, health, checks in state, gateway services, coordinates, config entries, intention list/match, prepared queries, CA roots/config, peering reads, trust bundles, exported services). Before/after: result changed => reported index strictly larger and a watch channel of the query's WatchSet fired; the index never decreases except on tombstone reap.",
   note="Runs on freshly replayed instances because watch channels only fire on a primary memdb. KVS.Get's endpoint index rule and the 0->1 clamp are mirrored. One known finding (connect query index slides back when a gateway link disappears) and one repaired defect.",
   design="§3 C06"),
 "C07": dict(level="model_checking", engine="E1 opseq-BFS",
   technique="explicit-state BFS over catalog/config-entry/txn command sequences on the real FSM; orphan and cascade invariants, derived views recomputed from base tables, rebuild differential",
   text="Every command sequence (to the reported depth, from every seed) over node/service/check register and deregister (typical, connect-proxy with upstreams, connect-native, terminating/ingress gateways, instance IDs different from names, peer-imported rows, rename by ID), gateway / service-defaults(destination) / proxy-defaults entries, virtual-IP switches, manual VIPs, coordinates and catalog transactions. On every reached state: no service/check/coordinate without its node, no service check without its instance; kind-service-names and the proxy upstream/downstream table (with per-instance references) recomputed from the registrations; gateway links checked against the config entries (exact => link, link => covered, wildcard => qualifying services, stale wildcard links); virtual IPs injective, free list disjoint, advertised == assigned; kind-service-names, proxy topology and usage counters compared with a store rebuilt from the base rows alone in two canonical orders. On every transition: an assignment is only released when no instance of the service remains.",
   note="gateway-services is not compared with the rebuild because upstream fills ServiceKind and proxy-only wildcard links order-dependently; its links are checked by explicit rules. One known finding (virtual IP released while proxies of the service remain) is listed in known-findings.json.",
   design="§3 C07"),
 "C08": dict(level="exploration", engine="E3 grid",
   technique="bounded-exhaustive enumeration of rule sets x names x accesses against an independent evaluator of the documented semantics; exhaustive resolve histories through shared caches vs. a cold resolver",
   text="For every named resource kind (agent, event, key, node, query, service, session) every assignment of {none, deny, read, (list), write} to a grid of exact and prefix rule slots over the names '', a, ab is parsed and compiled by the real acl package as one policy; two policies over three slots in both orders; three policies over two slots; scalar rules (acl, keyring, operator, mesh, peering incl. the operator fallback) exhaustively. Every name in {'', a, ab, abc, b} x every access level x both default policies is decided by the real authorizer chain and by a 60-line reference (exact wins, else longest prefix, deny>write>list>read across policies, else default). Cache part: every sequence of compilations of ordered policy subsets through one real ACLCaches, after which every subset must decide exactly as a cold compilation.",
   note="Aggregate methods (ServiceReadAll, KeyWritePrefix, ...) are part of the cache/ordering comparison but have no independent reference. The resolver-level part runs every resolve history (depth 3 quick, 4 thorough) of five tokens sharing roles, identities and policies through one real ACLResolver (server-local and RPC+cache backends) and compares every token's decision vector with a cold resolver.",
   design="§3 C08"),
 "C13": dict(level="exploration", engine="E3 grid",
   technique="bounded-exhaustive enumeration of intention sets x write orders x (source, destination, default) queries on the real state store against a reference precedence evaluator",
   text="Every set of <=K intentions over sources {a, b, *} x {local, peer p1}, destinations {x, *} and actions {allow, deny, L7 permissions} is written to a real store in every order (service-intentions config entries with incrementally growing source lists, a read-modify-write variant that renames a stored source, and legacy rows in legacy mode). For every source in {a, b, c}, peer, destination in {x, y} and both defaults the decision obtained through IntentionMatchOne + IntentionDecision (from the destination side and from the source side) must equal the reference (single most specific match: destination specificity before source specificity, else default); match lists must be in precedence order and identical for all write orders.",
   note="K=3 quick, 4 thorough. L7 intentions are decided as 'has permissions' (no request is evaluated here; C14 evaluates requests).",
   design="§3 C13"),
 "C15": dict(level="exploration", engine="E3 grid",
   technique="bounded-exhaustive enumeration of config entry sets x write orders x evaluation contexts on the real compiler and store, in watchdog-supervised worker processes; closure, termination, determinism and validation-agreement oracles",
   text="Every set of <=K entries (routers, splitters, resolvers with redirect / failover / subsets, service-defaults and proxy-defaults protocols, incl. mutual references, cycles and protocol mismatches) over services a, b, c is (A) compiled directly for every service and override protocol, three times, and (B) written to a real store in every order and then deleted entry by entry. Oracles: compilation terminates (25 s no-progress watchdog on worker subprocesses with an address-space limit); a chain that compiles has an existing start node, only existing next nodes and targets, every path ending at a resolver with a target, no cycle and no unreachable node; repeated compilations are identical; a rejected write leaves entries and their index unchanged; after every accepted write or delete every chain still compiles; equal stored sets give equal chains whatever the write order.",
   note="K=3 quick (last element restricted to router/splitter/resolver), 4 thorough.",
   design="§3 C15"),
 "C19": dict(level="exploration", engine="E3 grid",
   technique="bounded-exhaustive enumeration of (local, remote, last index) list pairs through the real replication round (real replicator types, diff, batching, apply order) on a real store; set-equality oracle",
   text="For ACL policies, roles and tokens every assignment of {absent, content 1, content 2} to three ids locally and {absent, content x modify index} remotely (plus the case where the primary re-created an object under a new ID with the same name), with every last-seen remote index consistent with what the secondary already applied, is loaded into a real state store; one real Server.replicateACLType round then runs with the real replicator types (sorting, metadata, diffACLType, deletion/upsert batching and their order); only the network fetch and the raft apply are replaced by a canned primary and FSM.Apply. Required: the round succeeds, the replicated set equals the primary's (ids and hashes), a local-scoped token is untouched, and an already equal secondary performs no write. Config entries: every assignment over four kind/name ids incl. one name under several kinds, three input orders, real diffConfigEntries applied to a set.",
   note="Federation-state replication is not enumerated. The rate limiter and RPC layer are not part of the round.",
   design="§3 C19"),
 "C20": dict(level="fault_enumeration", engine="E3 grid",
   technique="exhaustive fault enumeration over a fresh archive: every byte position x flip values, every truncation, every member edit, gzip-level damage; reject-or-exact oracle with position classes",
   text="For each payload size and metadata variant a fresh archive is written by the real writer; then every byte position is flipped (5 patterns quick, all 255 values thorough), the archive is cut at every length, every member is removed, reordered, duplicated, shadowed by an injected copy, and an extra member of every tar entry type is injected at every position; SHA256SUMS lines are dropped, duplicated and extended. The same member edits, every gzip byte position and truncation, trailing garbage and concatenated gzip members go through the exported snapshot.Read. Every outcome must be reject, or accept with exactly the original state bytes and metadata; damage inside state.bin or meta.json content, a missing member or checksum line, a cut before the last member is complete, or any extra member must be rejected; no file handle may be returned together with an error.",
   note="Position classes are computed from the tar layout of the pristine archive. Evidence lists (position class, outcome) cell counts.",
   design="§3 C20"),
 "C09": dict(level="exploration", engine="E3 grid",
   technique="bounded-exhaustive enumeration of response arrangements x authorizers against per-type read rules (out-of-place filter oracle, flag <=> removed); exhaustive expiry x cache-state x clock grid on the real resolver under a shifted clock",
   text="Filtering: for 27 generated response shapes of the Filter type switch (health checks, service nodes, check-service nodes and their wrappers, topology, per-datacenter map, coordinates, nodes, sessions, node services / node service list / node dump incl. imported dump and checks, services, service list, per-peer exported list, gateway services, intentions, service dump, nodes-with-gateways) every arrangement with repetition (length <= 3 quick, 4 thorough) of readable / node-denied / service-denied / both-denied / node-level elements, incl. instances whose ID differs from their name, is filtered in place by the real filter for four real policy authorizers and compared with an out-of-place filter by the type's read rule; the filtered flag must be set exactly when something was removed. Expiry: token expiry {none, t+10s} x resolution path {RPC + identity cache, server-local} x down policy x RPC health x every non-decreasing sequence of <= 3 resolve instants from {0, 5s, 15s, 40s}: a token past its expiry must never grant its privileges, a valid one must.",
   note="The clock of package consul and agent/structs is shifted through the time-import rewrite. ACL-object filters (tokens, policies, roles, binding rules, auth methods), prepared-query redaction and IntentionQueryMatch are listed in evidence as not generated.",
   design="§3 C09"),
 "C10": dict(level="exploration", engine="E3 grid",
   technique="exhaustive enumeration of command family x pre-state x supplied-index grid on the real FSM; matched/applied/reported oracle on full state dumps",
   text="Every conditional command type (KV cas/delete-cas direct and in transactions, check-index guards, catalog node/service/check cas and delete-cas incl. writers carrying a different node ID, config entry upsert-cas/with-status-cas/delete-cas, CA set-config, CA set-roots, CA set-roots-and-config with the cross product of both indexes, autopilot CAS, ACL token CAS, feature-gate update with both expected indexes) is applied to every pre-state (absent, present, modified, re-created, deleted) with every supplied index class (0, current, previous, future). Matched is computed from the pre-state; applied from a byte comparison of the full 36-table dump; required: matched<=>applied<=>reported, and composites all-or-nothing.",
   note="The grid is finite and enumerated completely (quick = thorough). ACL token CAS has no success flag, only applied<=>matched is decided. Deleting an absent entity is treated as vacuous.",
   design="§3 C10"),
 "C01": dict(level="model_checking", engine="E1 opseq-BFS",
   technique="explicit-state BFS over every registered FSM command type; replica comparison (in-process fresh replays + a second OS process with a shifted clock) of command results and full state dumps on every transition",
   text="Breadth-first search over encoded raft log entries of all 36 registered command types (accepted and rejected variants; coverage audited against the FSM's dispatch table) from six seed states. After every transition the command result, the full 36-table dump and the resource store of N in-process replicas (fresh replays, hence fresh map iteration order and a later wall-clock instant) and of one replica in a second OS process whose clock runs 1000 h ahead (the state, fsm, structs and storage packages are compiled against a shifted clock by rewriting only their time import) must be byte-identical.",
   note="Go map iteration order cannot be enumerated; it is sampled by the replicas of every transition (amplification, not coverage). The deliberately unreplicated lock-delay map is excluded.",
   design="§3 C01"),
 "C02": dict(level="model_checking", engine="E1 opseq-BFS",
   technique="explicit-state BFS; every reached state is a snapshot cut point: real Snapshot/Persist/Restore round trip, table + query + continuation differential against the un-restored replica",
   text="Every state of a BFS over all command types is snapshotted through the real FSM.Snapshot().Persist and restored into a fresh FSM (near the seeds also over a store that already holds other data, checking that the old store is abandoned). Compared: all 36 tables with indexes, the resource store, ~130 read queries (result and reported index); then every op of the alphabet is applied to both replicas and results and resulting states are compared. Differences are classified by table tier, direction and query.",
   note="12 signature classes that come from upstream's re-derivation of derived tables on restore (row indexes of gateway-services, kind-service-names, mesh-topology, usage and what follows from them; dialer secret UUID) are listed as known findings; everything else is a violation. Two genuine defects found here were repaired (manual VIPs lost, peering table index lowered).",
   design="§3 C02"),
 "C03": dict(level="model_checking", engine="E1 opseq-BFS",
   technique="explicit-state BFS over KV/session/txn command sequences on the real FSM, reference-map oracle on every transition",
   text="Every sequence (to the reported depth, from every seed) of direct and transactional KV verbs, session create/destroy and tombstone reaps over prefix-colliding keys is executed on the real fsm.FSM/state.Store; after every transition the command result, get of every key and list of every prefix are compared with a 150-line reference map. Exhaustive within the stated alphabet and depth.",
   note="Trusted: the reference map (harness/c03/model.go), the canonical dumper and rank-compression of raft indexes used only for deduplication (audited at run time), go-memdb. Copy-on-write cloning of the replayed parent state is guarded (parent re-dump, fresh-replay confirmation of every alarm).",
   design="§3 C03"),
}

CHECKS["C14"] = dict(level="translation_validation", engine="E3 grid",
   technique="bounded-exhaustive enumeration of intention sets (the programs) translated by the real makeRBACRules; every generated policy evaluated by an independent Envoy RBAC evaluator for every caller identity and request of a near-miss universe and compared with the intention precedence semantics",
   text="Every set of <=K intentions on one destination (sources web.v1, a+b, * local and web.v1, other from a peer; actions allow, deny, one- and two-element L7 permission lists over path exact/prefix/regex, methods, header present / exact+invert) x TCP/HTTP listener x both default policies x with/without the peer trust bundle is translated by the real makeRBACRules. The resulting envoy RBAC proto is evaluated by an independent evaluator (and/or/not ids, authenticated principal safe-regex, header matchers incl. invert, url_path, and/or/not rules; ALLOW/DENY action) for every caller: mentioned names, a fresh name, regex near-misses (webxv1, aab, ab), the same path under a foreign trust domain, peered callers directly and via mesh gateway + XFCC header, a local service forging the XFCC header; and for HTTP every request in 5 paths x {GET, POST} x {x-test absent, v, w}. Required: RBAC allows <=> most specific matching intention allows (L7: first matching permission decides, none => default; L7 on TCP => deny), else the default.",
   note="K=2 quick, 3 thorough. JWT requirements and partitions/namespaces (enterprise) are not generated. The evaluator's trust base is Envoy's documented RBAC semantics with Go RE2 full-match for safe_regex. One genuine defect repaired (unescaped names in SPIFFE patterns).",
   design="§3 C14")

CHECKS["C12"] = dict(level="exploration", engine="E3 grid",
   technique="bounded-exhaustive enumeration of a CSR grammar x tokens through the real CAManager (consul provider, real FSM as raft) against a reference verdict and an independent re-parse and chain verification of every issued certificate; exhaustive histories of CA configuration updates through the real manager; explicit-state BFS over CA commands on the FSM",
   text="Signing: 718 CSR shapes (0/1/2/3 URI SANs; service, agent, mesh-gateway, server, signing and malformed identities; trust domain ours / upper case / foreign / userinfo / prefix- and suffix-extended / with port; datacenter ours, other, escaped, case-varied; names plain, case-varied, percent-escaped incl. escaped slash, with query, fragment, trailing slash, equal to the dc segment; partitions and namespaces; extra DNS, IP, e-mail SANs and a CA basic-constraints extension) x 13 tokens are PEM-encoded, parsed with connect.ParseCSR and passed to the real CAManager.AuthorizeAndSignCertificate. Verdict must equal the reference (exactly one URI, no e-mail, supported shape, default tenancy, cluster trust domain, local datacenter, token grants write on exactly the decoded scope); every issued leaf is re-parsed by an independent SPIFFE parser and must carry exactly the authorized identity in the cluster trust domain, IsCA=false, a serial not used before, reported URI/name equal to the certificate's, and verify against the single active root in the state store. Roots: every history (depth 3 quick, 4 thorough) of 9 operations (rotation to roots A, B, forced C, generated root, config-only change, invalid and mismatched configs, unknown provider, leader failover) from two initial configurations runs through the real CAManager; after every step exactly one root is active, the manager signs under it, failed updates leave roots and config unchanged, no root is dropped, and a fresh leaf chains to the active root. FSM: BFS over 69 CA commands (root proposals with 0/1/2 active roots x index classes, roots+config with both indexes, config, serial, leaf index): non-empty root table has exactly one active root, a changed table equals the proposal exactly, roots and config change together.",
   note="Non-canonical but unambiguous spellings (userinfo, query, fragment, host case, explicit partition on agent IDs which CE deliberately does not validate, placeholder trust domain on agent IDs) are verdict 'either': only the issued certificate's identity is checked. Signing availability after an operator supplied a key that does not match the root is counted, not judged. Vault/AWS providers and secondary-datacenter intermediates are not explored. Two genuine defects repaired.",
   design="§3 C12")

CHECKS["C16"] = dict(level="fault_enumeration", engine="E3 grid",
   technique="exhaustive histories of local registrations and catalog drift on the real agent/local.State against a catalog served from a real FSM; deviation-bounded (<=2) enumeration of failing RPC identities x error kinds for one sync, then a clean full sync; bookkeeping and convergence oracles",
   text="Every history (depth 2 quick, 3 thorough) over 22 operations - local add/re-add/remove of services with their checks as Agent does it (same and different tokens, one and two piggy-backed checks), node checks, check status updates, and external drift (foreign service/check appear, rows removed or altered, node removed, node meta altered) - from an empty and from a synced base state runs on the real local.State whose Delegate serves Catalog.NodeServiceList, Health.NodeChecks, Catalog.Register (the endpoint's own pre-apply code via hook) and Catalog.Deregister from a real FSM/state store. Then SyncFull or SyncChanges runs under every set of <=2 failing RPC identities (taken from the calls the fault-free and single-fault runs really make: list-services, list-checks, register node / service(+checks) / check, deregister service / check) x {rpc error, permission denied, ACL not found}, followed by a clean SyncFull. After the faulty sync: a non-ACL failure is reported; no entry is flagged InSync unless the catalog holds an equal row or its own call was refused by ACLs; no local deregistration loses its Deleted marker while the catalog still holds the row. After the clean full sync: catalog services and checks of the node equal the local ones, every flag is clean, the node row exists.",
   note="ACL refusals are injected errors (token resolution and vetRegisterWithACL are not modelled); read-side ACL filtering of the listings, check output deferral timers (CheckUpdateInterval>0) and the ae.StateSyncer timer loop are not explored. Go map iteration order inside SyncChanges is sampled by the enumeration.",
   design="§3 C16")

CHECKS["C17"] = dict(level="model_checking", engine="E1 opseq-BFS",
   technique="explicit-state BFS whose transitions are peer stream updates handled by the real peerstream replication code (processResponse / handleUpdateService / handleUpsertExportedServiceList) over a real FSM; snapshot-equality, pruning, non-interference and exporter-side oracles",
   text="Every sequence (depth 3 quick, 4 thorough; from four seeds holding local rows, other-peer rows and imported rows that collide by node, service and check name, with and without wildcard exported-services entries) of exported-service updates for peers p1, p2 and services a, b (11 snapshot shapes: none, one instance with/without service and node checks, status changes, instance moved to another node, two nodes, two instances on one node, port change, node address change), exported-service-list updates (every subset) and exported-services config changes. The messages are built by the exporter's own makeServiceResponse / makeExportedServiceListResponse and handled by the importer's real code with FSM.Apply as raft. After every import: CheckServiceNodes(service, peer) equals the snapshot (nodes, instances, checks); the peer's other services keep their instances; services missing from an exported list have no rows; the index-masked dump of all 36 tables minus that peer's node/service/check rows is byte-identical before and after (local cluster and other peers untouched). On every state: no imported node without services, no imported check without its node, and ExportedServicesForPeer(p) only contains names an exported-services entry gives to p (a wildcard covers this cluster's own services only).",
   note="States are identified by their index-masked dump because the replication code walks Go maps (no command of this alphabet reads an index); the merge audit checks that abstraction at run time. Node-level data of a node shared by two services of one peer is compared as 'snapshot node checks present'. Trust bundle / server address messages, sidecar-proxy synthetic names and the streaming subscription side of the exporter are not explored.",
   design="§3 C17")

_WIP = "not claimed yet: the check described in DESIGN.md for this property is not built at this commit (work in progress, not a statement that model checking cannot apply)"
NOT_APPLICABLE = [dict(property_id=p, reason=_WIP) for p in ("C11", "C18")]

def main():
    checks = []
    for cid in sorted(CHECKS):
        c = CHECKS[cid]
        checks.append({
            "property_id": cid,
            "quick_cmd": "./check %s --tier quick" % cid,
            "thorough_cmd": "./check %s --tier thorough" % cid,
            "evidence_file": "/verif/evidence/%s.json" % cid,
            "replay_cmd_template": "./check %s --replay {path}" % cid,
            "engine": c["engine"],
            "level_claimed": {"category": c["level"], "text": c["text"], "design_ref": c["design"]},
            "level_note": c["note"],
            "technique": c["technique"],
        })
    claimed = set(CHECKS)
    na = [x for x in NOT_APPLICABLE if x["property_id"] not in claimed]
    m = {
        "version": 1,
        "setup_cmd": "./check build",
        "hooks": {
            "guard": "verif",
            "enable": "go build -overlay /verif/build/overlay.json -tags verif (hook files live in /verif/hooks and are injected by overlay; /repo is never modified)",
            "baseline_off_cmd": "cd /repo && GOFLAGS=-mod=mod GOPROXY=off go test -vet=off -count=1 -timeout 25m ./...",
            "source_commits": [],
            "add_only": True,
        },
        "engines": [
            {"name": "E1 opseq-BFS", "path": "harness/e1", "serves_properties": [], "kind_free_text": "explicit-state breadth-first search over encoded raft log entries applied to the real FSM; dedup on canonical state dump"},
            {"name": "E3 grid", "path": "harness", "serves_properties": [], "kind_free_text": "bounded-exhaustive enumeration of a finite input grammar, each input run through the real code and a reference oracle"},
        ],
        "checks": checks,
        "not_applicable": na,
        "notes": "See DESIGN.md. All hooks are overlay files guarded by //go:build verif; fixes to consul are separate 'fix:' commits in /repo listed in known-findings.json.",
    }
    for e in m["engines"]:
        e["serves_properties"] = [c for c in sorted(CHECKS) if CHECKS[c]["engine"] == e["name"]]
    with open(os.path.join(VERIF, "MANIFEST.json"), "w") as fh:
        json.dump(m, fh, indent=1)
        fh.write("\n")

if __name__ == "__main__":
    main()
