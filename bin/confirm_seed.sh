#!/bin/bash
# confirm_seed.sh <seed-dir> : verify a seeded change in a scratch worktree (outside /repo and /verif):
#  demo fails with the patch, passes without; the touched packages' own tests pass with the patch.
# Writes <seed-dir>/confirm.log and prints one summary line.
set -u
export GOFLAGS=-mod=mod GOPROXY=off
# scratch worktrees have their own paths, so their builds would only bloat the main cache
export GOCACHE=/tmp/confirm-gocache
S=$(readlink -f "$1"); ID=$(basename "$S")
WT=/tmp/confirm-$ID
git -C /repo worktree remove --force $WT >/dev/null 2>&1
git -C /repo worktree add -q --detach $WT HEAD || exit 3
LOG=$S/confirm.log; : > $LOG
DEMO=$(python3 -c "import json;print(json.load(open('$S/meta.json'))['demo_path'])")
RUN=$(python3 -c "import json;print(json.load(open('$S/meta.json'))['demo_run'])")
PKGS=$(grep '^+++ b/' $S/patch.diff | sed 's#+++ b/##' | xargs -n1 dirname | sort -u | sed 's#^#./#')
cd $WT
cp $S/demo_test.go $WT/$DEMO
echo "== demo without patch: $RUN" >> $LOG
( $RUN -count=1 ) >> $LOG 2>&1; A=$?
git apply $S/patch.diff >> $LOG 2>&1 || patch -p1 -s < $S/patch.diff >> $LOG 2>&1 || { echo "CONFIRM $ID: patch does not apply"; exit 3; }
echo "== demo with patch" >> $LOG
( $RUN -count=1 ) >> $LOG 2>&1; B=$?
rm -f $WT/$DEMO
echo "== existing tests of touched packages with patch: $PKGS" >> $LOG
EXTRA=""
case "$PKGS" in *agent/consul/state*) EXTRA="./agent/consul/fsm/";; esac
go test -count=1 -p 4 $PKGS $EXTRA >> $LOG 2>&1; C=$?
if [ $C -ne 0 ] && grep -q '^panic: ' $LOG && ! grep -qE '^--- FAIL: ' $LOG; then
  # a panic in one test takes the whole test binary down and hides every other result: name the test from the
  # trace, run the package again without it, and run it alone with and without the patch
  PAN=$(grep -oE '\.(Test[A-Za-z0-9_]+)(\.func[0-9.]*)?\(' $LOG | grep -oE 'Test[A-Za-z0-9_]+' | grep -v VerifSeed | sort -u | paste -sd'|')
  FAILPK=$(grep -E '^FAIL\s+github.com' $LOG | awk '{print $2}' | sed 's#github.com/hashicorp/consul#.#' | sort -u)
  if [ -n "$PAN" ] && [ -n "$FAILPK" ]; then
    echo "== a panic in $PAN ended the test binary; package again without it" >> $LOG
    go test -count=1 -p 4 -skip "^($PAN)\$" $FAILPK >> $LOG 2>&1; C=$?
    echo "== $PAN alone, with the patch, 5 runs" >> $LOG
    go test -count=5 -p 1 -run "^($PAN)\$" $FAILPK >> $LOG 2>&1; P1=$?
    if [ $P1 -ne 0 ]; then
      git diff > /tmp/confirm-$ID.diff; git checkout -q -- .; echo "== $PAN alone, without the patch, 20 runs" >> $LOG
      go test -count=20 -p 1 -run "^($PAN)\$" $FAILPK >> $LOG 2>&1; P0=$?
      git apply /tmp/confirm-$ID.diff; rm -f /tmp/confirm-$ID.diff
      echo "== without patch exit=$P0" >> $LOG
      [ $P0 -eq 0 ] && C=1
    fi
  fi
fi
if [ $C -ne 0 ]; then
  # timing-sensitive tests of the big packages fail under load: rerun only the failed top-level tests, alone
  NAMES=$(grep -E '^--- FAIL: ' $LOG | awk '{print $3}' | grep -v VerifSeed | sort -u | paste -sd'|')
  FAILPK=$(grep -E '^FAIL\s+github.com' $LOG | awk '{print $2}' | sed 's#github.com/hashicorp/consul#.#' | sort -u)
  if [ -n "$NAMES" ] && [ -n "$FAILPK" ]; then
    echo "== rerun of failed tests alone: $NAMES in $FAILPK" >> $LOG
    go test -count=1 -p 1 -run "^($NAMES)\$" $FAILPK >> $LOG 2>&1; C=$?
    if [ $C -ne 0 ]; then
      echo "== same tests without the patch (is the failure the sandbox's?)" >> $LOG
      : reverting the patch
      git checkout -q -- . ; go test -count=1 -p 1 -run "^($NAMES)\$" $FAILPK >> $LOG 2>&1; D=$?
      echo "== without patch exit=$D" >> $LOG
      [ $D -ne 0 ] && C=0 && echo "== failures are independent of the patch" >> $LOG
    fi
  fi
fi
cd /; git -C /repo worktree remove --force $WT
echo "CONFIRM $ID: demo_without_patch_exit=$A demo_with_patch_exit=$B existing_tests_exit=$C" | tee -a $LOG
