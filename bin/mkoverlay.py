#!/usr/bin/env python3
"""Generate the go build overlay that injects the /verif harness into the consul module.

  /verif/harness/<pkg>/...      -> /repo/internal/verifmc/<pkg>/...   (virtual packages)
  /verif/hooks/<repo pkg path>/X.go -> /repo/<repo pkg path>/zz_verif_X.go  (//go:build verif hook files)

Optional: VERIF_EXTRA_OVERLAY=<json file with {"Replace": {...}}> is merged on top (used by
selftest to apply a mutant without touching /repo).  /repo itself is never written.
"""
import json, os, sys

VERIF = os.path.dirname(os.path.dirname(os.path.abspath(__file__)))
REPO = os.environ.get("VERIF_REPO", "/repo")


def build(out_path):
    rep = {}
    hroot = os.path.join(VERIF, "harness")
    for d, _, files in os.walk(hroot):
        for f in files:
            if not (f.endswith(".go") or f.endswith(".s")):
                continue
            src = os.path.join(d, f)
            rel = os.path.relpath(src, hroot)
            rep[os.path.join(REPO, "internal", "verifmc", rel)] = src
    kroot = os.path.join(VERIF, "hooks")
    for d, _, files in os.walk(kroot):
        for f in files:
            if not f.endswith(".go"):
                continue
            src = os.path.join(d, f)
            rel = os.path.relpath(d, kroot)
            rep[os.path.join(REPO, rel, "zz_verif_" + f)] = src
    extra = os.environ.get("VERIF_EXTRA_OVERLAY")
    if extra:
        with open(extra) as fh:
            rep.update(json.load(fh).get("Replace", {}))
    os.makedirs(os.path.dirname(out_path), exist_ok=True)
    tmp = out_path + ".tmp.%d" % os.getpid()
    with open(tmp, "w") as fh:
        json.dump({"Replace": rep}, fh, indent=0, sort_keys=True)
    os.replace(tmp, out_path)


if __name__ == "__main__":
    build(sys.argv[1] if len(sys.argv) > 1 else os.path.join(VERIF, "build", "overlay.json"))
