#!/usr/bin/env python3
"""Generate the go build overlay that injects the /verif harness into the consul module.

  /verif/harness/<pkg>/...      -> /repo/internal/verifmc/<pkg>/...   (virtual packages)
  /verif/hooks/<repo pkg path>/X.go -> /repo/<repo pkg path>/zz_verif_X.go  (//go:build verif hook files)

Optional: VERIF_EXTRA_OVERLAY=<json file with {"Replace": {...}}> is merged on top (used by
selftest to apply a mutant without touching /repo).  /repo itself is never written.
"""
import json, os, re, sys

VERIF = os.path.dirname(os.path.dirname(os.path.abspath(__file__)))
REPO = os.environ.get("VERIF_REPO", "/repo")


# Packages holding replicated state: compiled against internal/verifmc/vtime instead of "time"
# (only the import line of a copy is rewritten, at build time, from the current working tree or
# from the mutant overlay), so a replica can run with a shifted clock (C01).
VTIME_DIRS = ["agent/consul/state", "agent/consul/fsm", "agent/structs", "internal/storage/inmem", "internal/storage/raft", "agent/consul", "agent/consul/stream"]
# packages whose "sync" import is rewritten to the scheduling shim (falls through to the real
# primitives unless a schedule exploration is running)
VSYNC_DIRS = ["internal/storage/inmem", "agent/consul/stream", "agent/consul/fsm"]
# packages whose timers are fired by the harness (own Timer type): "time" -> vtimer
VTIMER_DIRS = ["agent/local"]
REWRITES = [
    (VTIMER_DIRS, re.compile(r'^(\s*)"time"\s*$', re.M), r'\1time "github.com/hashicorp/consul/internal/verifmc/vtimer"'),
    (VTIME_DIRS, re.compile(r'^(\s*)"time"\s*$', re.M), r'\1time "github.com/hashicorp/consul/internal/verifmc/vtime"'),
    (VSYNC_DIRS, re.compile(r'^(\s*)"sync"\s*$', re.M), r'\1sync "github.com/hashicorp/consul/internal/verifmc/vsync"'),
    # ... and their atomic operations (the lock-free event buffer's links, subscription state)
    (VSYNC_DIRS, re.compile(r'^(\s*)"sync/atomic"\s*$', re.M), r'\1atomic "github.com/hashicorp/consul/internal/verifmc/vatomic"'),
]


def rewrite_time_imports(rep, out_path):
    dst_root = os.path.join(os.path.dirname(out_path), "vtime-src" + ("-" + os.path.basename(out_path).replace(".json", "") if "overlay-" in out_path else ""))
    dirs = []
    for ds, _, _ in REWRITES:
        for d in ds:
            if d not in dirs:
                dirs.append(d)
    for d in dirs:
        full = os.path.join(REPO, d)
        names = set(f for f in os.listdir(full) if f.endswith(".go") and not f.endswith("_test.go"))
        for target in list(rep):
            if os.path.dirname(target) == full and target.endswith(".go") and not target.endswith("_test.go"):
                names.add(os.path.basename(target))
        for f in sorted(names):
            target = os.path.join(full, f)
            src = rep.get(target, target)
            try:
                text = open(src).read()
            except FileNotFoundError:
                continue
            new, total = text, 0
            for ds, rx, repl in REWRITES:
                if d in ds:
                    new, n = rx.subn(repl, new)
                    total += n
            if total == 0:
                continue
            dst = os.path.join(dst_root, d, f)
            os.makedirs(os.path.dirname(dst), exist_ok=True)
            old = None
            if os.path.exists(dst):
                old = open(dst).read()
            if old != new:
                with open(dst, "w") as fh:
                    fh.write(new)
            rep[target] = dst


def build(out_path):
    rep = {}
    hroot = os.path.join(VERIF, "harness")
    for d, _, files in os.walk(hroot):
        for f in files:
            if not (f.endswith(".go") or f.endswith(".s")):
                continue
            src = os.path.join(d, f)
            rel = os.path.relpath(src, hroot)
            rep[os.path.join(REPO, "internal", "verifmc", rel)] = src
    kroot = os.path.join(VERIF, "hooks")
    for d, _, files in os.walk(kroot):
        for f in files:
            if not f.endswith(".go"):
                continue
            src = os.path.join(d, f)
            rel = os.path.relpath(d, kroot)
            rep[os.path.join(REPO, rel, "zz_verif_" + f)] = src
    extra = os.environ.get("VERIF_EXTRA_OVERLAY")
    if extra:
        with open(extra) as fh:
            rep.update(json.load(fh).get("Replace", {}))
    rewrite_time_imports(rep, out_path)
    os.makedirs(os.path.dirname(out_path), exist_ok=True)
    tmp = out_path + ".tmp.%d" % os.getpid()
    with open(tmp, "w") as fh:
        json.dump({"Replace": rep}, fh, indent=0, sort_keys=True)
    os.replace(tmp, out_path)


if __name__ == "__main__":
    build(sys.argv[1] if len(sys.argv) > 1 else os.path.join(VERIF, "build", "overlay.json"))
