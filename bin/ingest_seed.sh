#!/bin/bash
# ingest_seed.sh <dir with patch.diff demo_test.go meta.json> : copy to /verif/seeded/<name>, run the property's own
# check against it (overlay, /repo untouched) and record the outcome in meta.json ("ran").
set -u
SRC=$(readlink -f "$1"); NAME=$(basename "$SRC"); ID=${NAME%%-*}
DST=/verif/seeded/$NAME
mkdir -p $DST
cp $SRC/patch.diff $SRC/meta.json $DST/ 2>/dev/null
cp $SRC/demo_test.go $DST/demo_test.go 2>/dev/null || cp $SRC/*_test.go $DST/demo_test.go
cd /verif
./selftest $ID $DST/patch.diff ${SELFTEST_ARGS:-} > /tmp/ingest-$NAME.out 2>&1
RES=$(tail -1 /tmp/ingest-$NAME.out)
SIGS=$(grep -h "signature:" /tmp/ingest-$NAME.out | sed 's/^ *signature: //; s/ (cases=.*//' | head -4 | paste -sd'|')
python3 - "$DST/meta.json" "$RES" "$SIGS" <<'PY'
import json,sys
p,res,sigs=sys.argv[1:4]
m=json.load(open(p))
m.setdefault("ran",{})
m["ran"]["selftest"]=res
m["ran"]["first_signatures"]=[s for s in sigs.split("|") if s]
json.dump(m,open(p,"w"),indent=2); open(p,"a").write("\n")
PY
echo "$RES"; echo "  $SIGS" | cut -c1-300
