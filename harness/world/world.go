// Package world builds the object under test for the E1 engine: a real fsm.FSM with a real
// state.Store, a recording event publisher, a TombstoneGC and a real storage/raft backend, driven
// only by encoded raft log entries.
package world

import (
	"bytes"
	"context"
	"crypto/sha256"
	"errors"
	"fmt"
	"io"
	"net"
	"os"
	"sort"
	"strings"
	"sync"
	"time"

	"github.com/hashicorp/go-hclog"
	"github.com/hashicorp/raft"
	"google.golang.org/grpc"
	"google.golang.org/protobuf/proto"

	"github.com/hashicorp/consul/agent/consul/fsm"
	"github.com/hashicorp/consul/agent/consul/state"
	"github.com/hashicorp/consul/agent/consul/stream"
	"github.com/hashicorp/consul/agent/netutil"
	"github.com/hashicorp/consul/agent/structs"
	raftstorage "github.com/hashicorp/consul/internal/storage/raft"
	"github.com/hashicorp/consul/internal/verifmc/dump"
	"github.com/hashicorp/consul/internal/verifmc/vtime"
)

var initOnce sync.Once

// Init fixes the process-global state the store consults (DESIGN §2.2 "Sharding").
func Init() {
	initOnce.Do(func() {
		netutil.SetAgentBindAddr(&net.IPAddr{IP: net.ParseIP("127.0.0.1")})
	})
}

// RecPublisher implements state.EventPublisher: Publish is recorded, everything else goes to a
// real stream.EventPublisher whose Run loop is never started.
type RecPublisher struct {
	Real     *stream.EventPublisher
	mu       sync.Mutex
	Batches  [][]stream.Event
	Forward  bool // also hand the batch to the real publisher (bounded by its channel capacity)
	Disabled bool
}

func (r *RecPublisher) Publish(ev []stream.Event) {
	r.mu.Lock()
	r.Batches = append(r.Batches, ev)
	r.mu.Unlock()
	if r.Forward {
		r.Real.Publish(ev)
	}
}
func (r *RecPublisher) RegisterHandler(t stream.Topic, f stream.SnapshotFunc, w bool) error {
	return r.Real.RegisterHandler(t, f, w)
}
func (r *RecPublisher) Subscribe(q *stream.SubscribeRequest) (*stream.Subscription, error) {
	return r.Real.Subscribe(q)
}
func (r *RecPublisher) NumBatches() int { r.mu.Lock(); defer r.mu.Unlock(); return len(r.Batches) }

// TopicEvents counts events in recorded batches [from:) that are not the per-commit
// ACL bookkeeping event (the store emits a close-subscription event for every commit).
func (r *RecPublisher) Events(from int) []stream.Event {
	r.mu.Lock()
	defer r.mu.Unlock()
	var out []stream.Event
	for _, b := range r.Batches[from:] {
		out = append(out, b...)
	}
	return out
}

type handle struct{}

func (handle) Apply(msg []byte) (any, error)                 { return nil, errors.New("verif: no raft") }
func (handle) IsLeader() bool                                { return true }
func (handle) EnsureStrongConsistency(context.Context) error { return nil }
func (handle) DialLeader() (*grpc.ClientConn, error)         { return nil, errors.New("verif: no leader") }

type World struct {
	FSM *fsm.FSM
	// st is the store this world's commands apply to. Clones share the parent's FSM (a pure
	// dispatcher) and swap st in before every call.
	st *state.Store
	// ResourceOps: the alphabet contains resource operations, so clones need their own backend.
	ResourceOps bool
	Rec         *RecPublisher
	GC          *state.TombstoneGC
	Backend     *raftstorage.Backend
	Next        uint64
	Hist        []string
	Results     []string
	// Aux carries a reference model that ops with a Model func step in lock-step with the FSM.
	Aux any
	// LastRaw is the un-normalized result of the last Apply.
	LastRaw any
	// LastApplies: raft commands the last step committed (an RPC endpoint may refuse before committing any).
	LastApplies int
}

var nullLogger = hclog.NewNullLogger()

var clockStep = func() time.Duration {
	d, _ := time.ParseDuration(os.Getenv("VERIF_CLOCK_STEP"))
	return d
}()

const StartIndex = 10

func New() *World {
	Init()
	gc, err := state.NewTombstoneGC(time.Hour, time.Minute)
	if err != nil {
		panic(err)
	}
	gc.SetEnabled(true)
	pub := stream.NewEventPublisher(10 * time.Second)
	rec := &RecPublisher{Real: pub}
	be, err := raftstorage.NewBackend(handle{}, nullLogger)
	if err != nil {
		panic(err)
	}
	f := fsm.NewFromDeps(fsm.Deps{
		Logger: nullLogger,
		NewStateStore: func() *state.Store {
			return state.NewStateStoreWithEventPublisher(gc, rec)
		},
		Publisher:      pub,
		StorageBackend: be,
	})
	return &World{FSM: f, st: f.State(), Rec: rec, GC: gc, Backend: be, Next: StartIndex}
}

// Fork builds an independent world (its own event publisher, tombstone GC, storage backend and
// FSM) whose state store starts as a copy-on-write clone of w's. w must not be written afterwards;
// any number of forks may be taken concurrently.
func (w *World) Fork() *World {
	gc, err := state.NewTombstoneGC(time.Hour, time.Minute)
	if err != nil {
		panic(err)
	}
	gc.SetEnabled(true)
	pub := stream.NewEventPublisher(10 * time.Second)
	rec := &RecPublisher{Real: pub}
	be, err := raftstorage.NewBackend(handle{}, nullLogger)
	if err != nil {
		panic(err)
	}
	src := w.st
	f := fsm.NewFromDeps(fsm.Deps{
		Logger:         nullLogger,
		NewStateStore:  func() *state.Store { return src.VerifClone(rec) },
		Publisher:      pub,
		StorageBackend: be,
	})
	return &World{FSM: f, st: f.State(), Rec: rec, GC: gc, Backend: be, Next: w.Next, Hist: append([]string(nil), w.Hist...)}
}

func (w *World) bind() {
	if w.FSM.State() != w.st {
		w.FSM.VerifSetState(w.st, w.Backend)
	}
}

func (w *World) Store() *state.Store { return w.st }

// BoundFSM returns the FSM with this world's store swapped in (clones share one FSM object).
func (w *World) BoundFSM() *fsm.FSM {
	w.bind()
	return w.FSM
}

// Clone branches the world copy-on-write (see hooks VerifClone). aux is the cloned reference model.
// The clone shares the parent's FSM object; only one of them may be used at a time (the explorer
// uses a parent and its clones sequentially in one goroutine).
func (w *World) Clone(aux any) *World {
	rec := &RecPublisher{Real: w.Rec.Real}
	st := w.st.VerifClone(rec)
	be := w.Backend
	if w.ResourceOps {
		be = w.Backend.VerifClone()
	}
	return &World{FSM: w.FSM, st: st, Rec: rec, GC: w.GC, Backend: be, Next: w.Next, Aux: aux,
		ResourceOps: w.ResourceOps, Hist: append([]string(nil), w.Hist...)}
}

// Op is one member of a command alphabet. Build is state-relative: it may look at the world to
// choose raft-index arguments (current / stale / future) and returns ok=false when not enabled.
type Op struct {
	Name  string
	Build func(w *World) (structs.MessageType, any, bool)
	// Kind is a coarse class used in violation signatures (e.g. "kv/lock", "txn/session-delete").
	Kind string
	// Model, if set, steps the reference model in w.Aux for this op applied at log index idx.
	Model func(aux any, idx uint64)
	// Exec, if set, replaces Build: a composite action that issues any number of raft commands
	// through w.ApplyReq (e.g. a peer stream update handled by the real replication code).
	Exec func(w *World) (res string, enabled bool)
}

func Encode(t structs.MessageType, req any) ([]byte, error) {
	if raw, ok := req.(RawLog); ok {
		return append([]byte{uint8(t)}, raw...), nil
	}
	if pm, ok := req.(proto.Message); ok {
		return structs.EncodeProto(t, pm)
	}
	return structs.Encode(t, req)
}

// RawLog is an already encoded payload (used for resource operations).
type RawLog []byte

// Apply encodes and applies one command at the next log index. Returns the normalized result.
func (w *World) Apply(op Op) (res string, enabled bool) {
	if op.Exec != nil {
		return op.Exec(w)
	}
	t, req, ok := op.Build(w)
	if !ok {
		return "", false
	}
	idx := w.Next
	r := w.ApplyReq(op.Name, t, req)
	w.LastApplies = 1
	if op.Model != nil {
		op.Model(w.Aux, idx)
	}
	return r, true
}

func (w *World) ApplyReq(name string, t structs.MessageType, req any) string {
	buf, err := Encode(t, req)
	if err != nil {
		panic(fmt.Sprintf("encode %s: %v", name, err))
	}
	idx := w.Next
	w.Next++
	r := w.applyRaw(buf, idx)
	w.Hist = append(w.Hist, name)
	w.Results = append(w.Results, r)
	return r
}

func (w *World) applyRaw(buf []byte, idx uint64) (out string) {
	defer func() {
		if p := recover(); p != nil {
			out = fmt.Sprintf("PANIC:%v", p)
		}
	}()
	w.LastRaw = nil
	w.bind()
	if clockStep != 0 {
		vtime.Advance(clockStep) // VERIF_CLOCK_STEP: this process applies every log entry that much later than the previous one
	}
	r := w.FSM.Apply(&raft.Log{Index: idx, Term: 1, Type: raft.LogCommand, Data: buf})
	w.LastRaw = r
	return NormResult(r)
}

// ApplyEncoded applies an already encoded command (as an RPC endpoint hands it to raft) at the next
// log index and returns the FSM's raw response.
func (w *World) ApplyEncoded(name string, buf []byte) any {
	idx := w.Next
	w.Next++
	w.applyRaw(buf, idx)
	return w.LastRaw
}

// Record appends one composite step to the history kept for messages and replay files.
func (w *World) Record(name, res string) {
	w.Hist = append(w.Hist, name)
	w.Results = append(w.Results, res)
}

func NormResult(r any) string {
	switch x := r.(type) {
	case nil:
		return "nil"
	case error:
		return "err:" + x.Error()
	}
	return dump.Value(r, nil)
}

// ApplyAll replays a history of ops (each must be enabled).
func (w *World) ApplyAll(ops []Op) {
	for _, o := range ops {
		if _, ok := w.Apply(o); !ok {
			panic("replay: op not enabled: " + o.Name)
		}
	}
}

// ---- dumps ---------------------------------------------------------------------------------

// Dump is the full content of the state store: table -> sorted rendered rows.
type Dump map[string][]string

func (w *World) Dump(o *dump.Options) Dump { return DumpStore(w.Store(), o) }

func DumpStore(s *state.Store, o *dump.Options) Dump {
	d := Dump{}
	s.VerifWalk(func(table string, item interface{}) {
		d[table] = append(d[table], dump.Value(item, o))
	})
	for _, rows := range d {
		sort.Strings(rows)
	}
	return d
}

// ResourceDump renders the resource store content (storage/raft backend).
func (w *World) ResourceDump() []string { return w.ResourceDumpOpts(nil) }

func (w *World) ResourceDumpOpts(o *dump.Options) []string {
	var out []string
	for _, r := range w.Backend.VerifStore().VerifAll() {
		out = append(out, dump.Value(r, o))
	}
	sort.Strings(out)
	return out
}

func (d Dump) String() string {
	names := make([]string, 0, len(d))
	for n := range d {
		names = append(names, n)
	}
	sort.Strings(names)
	var sb strings.Builder
	for _, n := range names {
		if len(d[n]) == 0 {
			continue
		}
		sb.WriteString("== " + n + "\n")
		for _, r := range d[n] {
			sb.WriteString(r)
			sb.WriteByte('\n')
		}
	}
	return sb.String()
}

// Diff lists differing rows (table: -old / +new), at most max lines.
func Diff(a, b Dump, max int) string {
	var out []string
	names := map[string]bool{}
	for n := range a {
		names[n] = true
	}
	for n := range b {
		names[n] = true
	}
	var ns []string
	for n := range names {
		ns = append(ns, n)
	}
	sort.Strings(ns)
	for _, n := range ns {
		am := map[string]int{}
		for _, r := range a[n] {
			am[r]++
		}
		for _, r := range b[n] {
			if am[r] > 0 {
				am[r]--
			} else {
				out = append(out, n+": +"+r)
			}
		}
		for r, c := range am {
			for ; c > 0; c-- {
				out = append(out, n+": -"+r)
			}
		}
	}
	sort.Strings(out)
	if len(out) > max {
		out = append(out[:max], fmt.Sprintf("… %d more", len(out)-max))
	}
	return strings.Join(out, "\n")
}

// DiffTables returns the names of tables that differ.
func DiffTables(a, b Dump) []string {
	seen := map[string]bool{}
	var out []string
	chk := func(n string) {
		if seen[n] {
			return
		}
		seen[n] = true
		x, y := a[n], b[n]
		if len(x) != len(y) {
			out = append(out, n)
			return
		}
		for i := range x {
			if x[i] != y[i] {
				out = append(out, n)
				return
			}
		}
	}
	for n := range a {
		chk(n)
	}
	for n := range b {
		chk(n)
	}
	sort.Strings(out)
	return out
}

// Key is the canonical deduplication key of the state: rank-compressed dump + resource listing.
func (w *World) Key() string {
	return HashKey(w.LongKey())
}

// LongKey is the un-hashed canonical form (for diagnostics).
func (w *World) LongKey() string {
	d := w.Dump(&dump.Options{MarkIndexes: true})
	s := d.String()
	if w.ResourceOps {
		s += "== resources\n" + strings.Join(w.ResourceDumpOpts(&dump.Options{MarkIndexes: true}), "\n")
	}
	return dump.Compress(s)
}

// HashKey shortens a canonical form to 16 bytes (SHA-256 prefix); collisions are negligible at
// the 10^6..10^7 states explored.
func HashKey(s string) string {
	h := sha256.Sum256([]byte(s))
	return string(h[:16])
}

// ---- snapshot / restore --------------------------------------------------------------------

type sink struct {
	bytes.Buffer
	cancelled bool
}

func (s *sink) ID() string    { return "verif" }
func (s *sink) Cancel() error { s.cancelled = true; return nil }
func (s *sink) Close() error  { return nil }

// Persist takes a snapshot of the FSM through the real Snapshot().Persist path.
func (w *World) Persist() ([]byte, error) {
	w.bind()
	snap, err := w.FSM.Snapshot()
	if err != nil {
		return nil, err
	}
	defer snap.Release()
	sk := &sink{}
	if err := snap.Persist(sk); err != nil {
		return nil, err
	}
	return sk.Bytes(), nil
}

// Snapshot takes the FSM snapshot now and returns a function that persists it later (raft takes the
// snapshot on the apply path and persists it in the background, while further commands are applied).
func (w *World) Snapshot() (func() ([]byte, error), error) {
	w.bind()
	snap, err := w.FSM.Snapshot()
	if err != nil {
		return nil, err
	}
	return func() ([]byte, error) {
		defer snap.Release()
		sk := &sink{}
		if err := snap.Persist(sk); err != nil {
			return nil, err
		}
		return sk.Bytes(), nil
	}, nil
}

// RestoreInto restores the snapshot bytes into this world's FSM (replacing its store).
func (w *World) RestoreFrom(b []byte) error {
	w.bind()
	rec := w.Rec
	w.FSM.VerifSetNewStateStore(func() *state.Store { return state.NewStateStoreWithEventPublisher(w.GC, rec) })
	err := w.FSM.Restore(io.NopCloser(bytes.NewReader(b)))
	w.st = w.FSM.State()
	return err
}
