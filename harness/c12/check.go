// Package c12: the Connect CA issues only authorized, verifiable identities; exactly one active root.
package c12

import (
	"bytes"
	"crypto/ecdsa"
	"crypto/elliptic"
	"crypto/rand"
	"crypto/x509"
	"crypto/x509/pkix"
	"encoding/asn1"
	"encoding/pem"
	"errors"
	"fmt"
	"math/big"
	"net"
	"net/url"
	"sort"
	"strings"
	"time"

	"github.com/hashicorp/consul/acl"
	"github.com/hashicorp/consul/agent/connect"
	"github.com/hashicorp/consul/agent/consul"
	"github.com/hashicorp/consul/agent/consul/state"
	"github.com/hashicorp/consul/agent/structs"
	"github.com/hashicorp/consul/internal/verifmc/cmdlib"
	"github.com/hashicorp/consul/internal/verifmc/dump"
	"github.com/hashicorp/consul/internal/verifmc/e1"
	"github.com/hashicorp/consul/internal/verifmc/ev"
	"github.com/hashicorp/consul/internal/verifmc/world"
)

const (
	clusterID = "11111111-2222-3333-4444-555555555555"
	td        = clusterID + ".consul"
	dc        = "dc1"
)

// ---- environment: real CAManager over a real FSM ------------------------------------------------------

type env struct {
	w       *world.World
	mgr     *consul.CAManager
	del     *consul.VerifCADelegate
	serials map[string]string // serial -> what it was issued for
	// fault injection on the raft applies the manager issues
	applies int
	failAt  int // fail the failAt-th apply from now (0: none)
}

type rootKey struct{ key, cert string }

func baseCfg(extra map[string]interface{}) *structs.CAConfiguration {
	m := map[string]interface{}{"LeafCertTTL": "72h", "IntermediateCertTTL": "288h", "RootCertTTL": "87600h", "CSRMaxPerSecond": float64(0), "CSRMaxConcurrent": 0}
	for k, v := range extra {
		m[k] = v
	}
	return &structs.CAConfiguration{Provider: "consul", ClusterID: clusterID, Config: m}
}

func newEnv(cfg *structs.CAConfiguration) (*env, error) {
	e := newEnvIn(dc, nil)
	e.mgr = consul.VerifNewCAManager(e.del, cfg)
	return e, e.mgr.Initialize()
}

// newEnvIn builds the store/FSM/delegate of one datacenter; forward answers RPCs to the primary.
func newEnvIn(datacenter string, forward func(method, dc string, args, reply interface{}) error) *env {
	e := &env{w: world.New(), serials: map[string]string{}}
	e.del = &consul.VerifCADelegate{DC: datacenter, Primary: dc, ForwardFn: forward,
		StoreFn: func() *state.Store { return e.w.Store() },
		ApplyFn: func(t structs.MessageType, req interface{}) (interface{}, error) {
			e.applies++
			if e.failAt != 0 && e.applies == e.failAt {
				return nil, errors.New("raft: leadership lost while committing log (injected)")
			}
			e.w.ApplyReq("ca-manager", t, req)
			if err, ok := e.w.LastRaw.(error); ok && err != nil {
				return nil, err
			}
			return e.w.LastRaw, nil
		}}
	return e
}

// failover: a new leader's manager over the same replicated state.
func (e *env) failover() error {
	_, cfg, _ := e.w.Store().CAConfig(nil)
	e.mgr = consul.VerifNewCAManager(e.del, cfg)
	return e.mgr.Initialize()
}

func genRoot(name string) rootKey {
	k, err := ecdsa.GenerateKey(elliptic.P256(), rand.Reader)
	if err != nil {
		panic(err)
	}
	kb, _ := x509.MarshalECPrivateKey(k)
	var kbuf bytes.Buffer
	pem.Encode(&kbuf, &pem.Block{Type: "EC PRIVATE KEY", Bytes: kb})
	keyID, err := connect.KeyId(k.Public())
	if err != nil {
		panic(err)
	}
	sn := new(big.Int).SetBytes([]byte("root-" + name))
	tmpl := x509.Certificate{SerialNumber: sn, Subject: pkix.Name{CommonName: "verif root " + name},
		URIs: []*url.URL{connect.SpiffeIDSigningForCluster(clusterID).URI()}, BasicConstraintsValid: true, IsCA: true,
		KeyUsage:  x509.KeyUsageCertSign | x509.KeyUsageCRLSign | x509.KeyUsageDigitalSignature,
		NotBefore: time.Now().Add(-time.Hour), NotAfter: time.Now().Add(87600 * time.Hour), AuthorityKeyId: keyID, SubjectKeyId: keyID}
	bs, err := x509.CreateCertificate(rand.Reader, &tmpl, &tmpl, k.Public(), k)
	if err != nil {
		panic(err)
	}
	var cbuf bytes.Buffer
	pem.Encode(&cbuf, &pem.Block{Type: "CERTIFICATE", Bytes: bs})
	return rootKey{kbuf.String(), cbuf.String()}
}

// ---- independent identity parse (what a verifier reads out of a URI SAN) --------------------------------

type ident struct {
	kind, host, dc, name string
	nonCanonical         []string
}

func (i ident) String() string { return fmt.Sprintf("%s(dc=%s name=%q)", i.kind, i.dc, i.name) }

// refParse returns the identity and "" or a rejection reason.
func refParse(u *url.URL) (ident, string) {
	var id ident
	if u.Scheme != "spiffe" {
		return id, "bad-scheme"
	}
	if u.User != nil {
		id.nonCanonical = append(id.nonCanonical, "userinfo")
	}
	if u.RawQuery != "" || u.ForceQuery {
		id.nonCanonical = append(id.nonCanonical, "query")
	}
	if u.Fragment != "" {
		id.nonCanonical = append(id.nonCanonical, "fragment")
	}
	if u.Port() != "" {
		id.nonCanonical = append(id.nonCanonical, "port")
	}
	id.host = u.Hostname()
	if id.host != strings.ToLower(id.host) {
		id.nonCanonical = append(id.nonCanonical, "host-case")
	}
	raw := u.EscapedPath()
	if raw == "" {
		return id, "signing-id"
	}
	var segs []string
	for _, s := range strings.Split(raw, "/")[1:] {
		d, err := url.PathUnescape(s)
		if err != nil || d == "" {
			return id, "unsupported-shape"
		}
		segs = append(segs, d)
	}
	part := ""
	if len(segs) >= 2 && segs[0] == "ap" {
		part = segs[1]
		id.nonCanonical = append(id.nonCanonical, "explicit-partition")
		segs = segs[2:]
	}
	switch {
	case len(segs) == 6 && segs[0] == "ns" && segs[2] == "dc" && segs[4] == "svc":
		if segs[1] != "default" {
			return id, "non-default-tenancy"
		}
		if part != "" && part != "default" {
			return id, "non-default-tenancy"
		}
		id.kind, id.dc, id.name = "service", segs[3], segs[5]
	case len(segs) == 6 && segs[0] == "agent" && segs[1] == "client" && segs[2] == "dc" && segs[4] == "id":
		id.kind, id.dc, id.name = "agent", segs[3], segs[5]
	case len(segs) == 4 && segs[0] == "gateway" && segs[1] == "mesh" && segs[2] == "dc":
		if part != "" && part != "default" {
			return id, "non-default-tenancy"
		}
		id.kind, id.dc = "mesh-gateway", segs[3]
	case len(segs) == 4 && segs[0] == "agent" && segs[1] == "server" && segs[2] == "dc":
		if part != "" {
			return id, "unsupported-shape"
		}
		id.kind, id.dc = "server", segs[3]
	default:
		return id, "unsupported-shape"
	}
	return id, ""
}

// ---- tokens ---------------------------------------------------------------------------------------------------

type token struct {
	label string
	rules string
	az    acl.Authorizer
	grant func(kind, name string) bool
}

func tokens() []token {
	mk := func(label, rules string, g func(kind, name string) bool) token {
		p, err := acl.NewPolicyFromSource(rules, nil, nil)
		if err != nil {
			panic(err)
		}
		a, err := acl.NewPolicyAuthorizerWithDefaults(acl.DenyAll(), []*acl.Policy{p}, nil)
		if err != nil {
			panic(err)
		}
		return token{label, rules, a, g}
	}
	svc := func(n string) func(string, string) bool {
		return func(k, name string) bool { return k == "service" && name == n }
	}
	return []token{
		mk("service web write", `service "web" { policy = "write" }`, svc("web")),
		mk("service web read", `service "web" { policy = "read" }`, func(string, string) bool { return false }),
		mk("service other write", `service "other" { policy = "write" }`, svc("other")),
		mk("service Web write", `service "Web" { policy = "write" }`, svc("Web")),
		mk("service web/admin write", `service "web/admin" { policy = "write" }`, svc("web/admin")),
		mk("service_prefix we write", `service_prefix "we" { policy = "write" }`, func(k, n string) bool { return k == "service" && strings.HasPrefix(n, "we") }),
		mk("node web write", `node "web" { policy = "write" }`, func(k, n string) bool { return k == "agent" && n == "web" }),
		mk("node dc1+dc2 write", `node "dc1" { policy = "write" } node "dc2" { policy = "write" }`, func(k, n string) bool { return k == "agent" && (n == "dc1" || n == "dc2") }),
		mk("node default write", `node "default" { policy = "write" } service "default" { policy = "write" }`, func(k, n string) bool { return (k == "agent" || k == "service") && n == "default" }),
		mk("mesh write", `mesh = "write"`, func(k, n string) bool { return k == "mesh-gateway" }),
		mk("mesh read", `mesh = "read"`, func(k, n string) bool { return false }),
		// without a mesh rule the mesh permission falls back to the operator rule
		mk("operator write", `operator = "write"`, func(k, n string) bool { return k == "mesh-gateway" }),
		mk("operator read", `operator = "read"`, func(k, n string) bool { return false }),
		mk("operator write + mesh read", `operator = "write" mesh = "read"`, func(k, n string) bool { return false }),
		mk("acl write", `acl = "write"`, func(k, n string) bool { return k == "server" }),
		mk("acl read", `acl = "read"`, func(k, n string) bool { return false }),
		mk("node web read", `node "web" { policy = "read" }`, func(k, n string) bool { return false }),
		mk("node_prefix w write", `node_prefix "w" { policy = "write" }`, func(k, n string) bool { return k == "agent" && strings.HasPrefix(n, "w") }),
		mk("service web write but node web deny", `service "web" { policy = "write" } node "web" { policy = "deny" }`, func(k, n string) bool { return k == "service" && n == "web" }),
		{"manage all", "<manage-all>", acl.ManageAll(), func(string, string) bool { return true }},
		{"deny all", "<deny-all>", acl.DenyAll(), func(string, string) bool { return false }},
	}
}

// ---- CSR grammar ------------------------------------------------------------------------------------------------

type csrSpec struct {
	label  string
	uris   []string
	dns    []string
	ips    []net.IP
	emails []string
	caExt  bool
}

func grammar(quick bool) []csrSpec {
	var out []csrSpec
	hosts := []string{td, strings.ToUpper(td), "evil.consul", "user@" + td, "x" + td, td + ".evil.com", td + ":443"}
	dcs := []string{"dc1", "dc2", "dc%31", "DC1"}
	names := []string{"web", "Web", "we%62", "web%2Fadmin", "web%2Dx", "other", "web?x=1", "web#f", "web/", "dc1", "default"}
	for _, h := range hosts {
		for _, d := range dcs {
			for _, n := range names {
				out = append(out, csrSpec{uris: []string{fmt.Sprintf("spiffe://%s/ns/default/dc/%s/svc/%s", h, d, n)}})
				out = append(out, csrSpec{uris: []string{fmt.Sprintf("spiffe://%s/agent/client/dc/%s/id/%s", h, d, n)}})
			}
			out = append(out, csrSpec{uris: []string{fmt.Sprintf("spiffe://%s/gateway/mesh/dc/%s", h, d)}})
			out = append(out, csrSpec{uris: []string{fmt.Sprintf("spiffe://%s/agent/server/dc/%s", h, d)}})
		}
	}
	web := "spiffe://" + td + "/ns/default/dc/dc1/svc/web"
	other := "spiffe://" + td + "/ns/default/dc/dc1/svc/other"
	agent := "spiffe://" + td + "/agent/client/dc/dc1/id/web"
	special := []string{
		"spiffe://" + td, "spiffe://" + td + "/", "spiffe://" + td + "/foo/bar", "https://" + td + "/ns/default/dc/dc1/svc/web",
		"spiffe://" + td + "/ns/other/dc/dc1/svc/web", "spiffe://" + td + "/ap/default/ns/default/dc/dc1/svc/web", "spiffe://" + td + "/ap/foo/ns/default/dc/dc1/svc/web",
		"spiffe://" + td + "/ap/foo/agent/client/dc/dc1/id/web", "spiffe://" + td + "/ap/foo/gateway/mesh/dc/dc1",
		"spiffe://" + td + "/ns/default/dc/dc1/svc/web/extra", "spiffe://" + td + "/ns/default/dc/dc1/svc", "spiffe://" + td + "//ns/default/dc/dc1/svc/web",
		"spiffe://" + td + "/ns/default/dc/dc1/svc/web/agent/client/dc/dc1/id/web", "spiffe://" + td + "/gateway/mesh/dc/dc1/svc/web", "spiffe://" + td + "/agent/server/dc/dc1/id/web",
		"spiffe:///ns/default/dc/dc1/svc/web", "spiffe://" + td + "/ns/default/dc/dc1/svc/%2E%2E", "spiffe://" + td + "/ns/default/dc/dc1%2Fsvc%2Fother/svc/web",
	}
	for _, s := range special {
		out = append(out, csrSpec{uris: []string{s}})
	}
	out = append(out,
		csrSpec{uris: nil},
		csrSpec{uris: []string{web, web}}, csrSpec{uris: []string{web, other}}, csrSpec{uris: []string{other, web}}, csrSpec{uris: []string{web, agent}},
		csrSpec{uris: []string{web, "spiffe://" + td + "/foo"}}, csrSpec{uris: []string{"https://example.com/x", web}}, csrSpec{uris: []string{web, other, agent}},
	)
	for _, base := range []string{web, agent, "spiffe://" + td + "/gateway/mesh/dc/dc1", "spiffe://" + td + "/agent/server/dc/dc1", "spiffe://evil.consul/agent/client/dc/dc1/id/web"} {
		out = append(out,
			csrSpec{uris: []string{base}, dns: []string{"web.service.consul", "localhost"}},
			csrSpec{uris: []string{base}, ips: []net.IP{net.ParseIP("127.0.0.1")}},
			csrSpec{uris: []string{base}, emails: []string{"a@example.com"}},
			csrSpec{uris: []string{base}, caExt: true},
		)
	}
	for i := range out {
		out[i].label = fmt.Sprintf("uris=%v dns=%v ips=%v emails=%v ca-ext=%v", out[i].uris, out[i].dns, out[i].ips, out[i].emails, out[i].caExt)
	}
	return out
}

var leafKey, _ = ecdsa.GenerateKey(elliptic.P256(), rand.Reader)

// buildCSR returns the PEM CSR, or an error if the request cannot be encoded at all.
func buildCSR(s csrSpec) (string, error) {
	t := &x509.CertificateRequest{Subject: pkix.Name{CommonName: "verif"}, DNSNames: s.dns, IPAddresses: s.ips, EmailAddresses: s.emails, SignatureAlgorithm: x509.ECDSAWithSHA256}
	for _, us := range s.uris {
		u, err := url.Parse(us)
		if err != nil {
			return "", err
		}
		t.URIs = append(t.URIs, u)
	}
	if s.caExt {
		bc, _ := asn1.Marshal(struct {
			IsCA bool `asn1:"optional"`
		}{true})
		t.ExtraExtensions = append(t.ExtraExtensions, pkix.Extension{Id: asn1.ObjectIdentifier{2, 5, 29, 19}, Critical: true, Value: bc})
	}
	bs, err := x509.CreateCertificateRequest(rand.Reader, t, leafKey)
	if err != nil {
		return "", err
	}
	var buf bytes.Buffer
	pem.Encode(&buf, &pem.Block{Type: "CERTIFICATE REQUEST", Bytes: bs})
	return buf.String(), nil
}

// verdict: "reject:<reason>", "issue", "either"
func reference(csr *x509.CertificateRequest, tk token) (string, ident) {
	if len(csr.URIs) != 1 {
		if len(csr.URIs) == 0 {
			return "reject:zero-uris", ident{}
		}
		return "reject:multiple-uris", ident{}
	}
	if len(csr.EmailAddresses) > 0 {
		return "reject:email-san", ident{}
	}
	id, why := refParse(csr.URIs[0])
	if why != "" {
		return "reject:" + why, id
	}
	if !strings.EqualFold(id.host, td) {
		if id.kind != "agent" {
			return "reject:foreign-trust-domain", id
		}
		// agents may present a placeholder trust domain, which the CA replaces by its own
		id.nonCanonical = append(id.nonCanonical, "agent-placeholder-trust-domain")
	}
	if id.dc != dc {
		if id.kind == "agent" {
			if !tk.grant(id.kind, id.name) {
				return "reject:not-authorized", id
			}
			return "reject:agent-foreign-dc", id
		}
		return "reject:foreign-dc", id
	}
	if !tk.grant(id.kind, id.name) {
		return "reject:not-authorized", id
	}
	if len(id.nonCanonical) > 0 {
		return "either", id
	}
	return "issue", id
}

func splitPEM(s string) []*x509.Certificate {
	var out []*x509.Certificate
	rest := []byte(s)
	for {
		var b *pem.Block
		b, rest = pem.Decode(rest)
		if b == nil {
			return out
		}
		c, err := x509.ParseCertificate(b.Bytes)
		if err == nil {
			out = append(out, c)
		}
	}
}

// checkIssued validates an issued certificate against the replicated root set. Returns problems as (sig, msg).
func (e *env) checkIssued(ic *structs.IssuedCert, want ident, what string) [][2]string {
	var probs [][2]string
	add := func(sig, msg string) { probs = append(probs, [2]string{sig, msg}) }
	certs := splitPEM(ic.CertPEM)
	if len(certs) == 0 {
		add("C12:issued-cert-unparseable", "issued PEM has no certificate")
		return probs
	}
	leaf := certs[0]
	if leaf.IsCA || leaf.KeyUsage&x509.KeyUsageCertSign != 0 || !leaf.BasicConstraintsValid {
		add("C12:issued-cert-is-ca", fmt.Sprintf("leaf IsCA=%v BasicConstraintsValid=%v KeyUsage=%b", leaf.IsCA, leaf.BasicConstraintsValid, leaf.KeyUsage))
	}
	if len(leaf.URIs) != 1 || len(leaf.EmailAddresses) != 0 {
		add("C12:issued-cert-identity-count", fmt.Sprintf("leaf carries %d URI SANs and %d e-mail SANs", len(leaf.URIs), len(leaf.EmailAddresses)))
	} else {
		got, why := refParse(leaf.URIs[0])
		if why != "" || got.kind != want.kind || got.dc != want.dc || got.name != want.name || !strings.EqualFold(got.host, td) {
			add("C12:issued-identity-differs-from-authorized:"+want.kind, fmt.Sprintf("authorized %v but the certificate's URI SAN %q reads as %v host=%s (%s)", want, leaf.URIs[0].String(), got, got.host, why))
		}
		// the authority of the identity is the trust domain itself: "<trust domain>:<port>" names something else
		if h := leaf.URIs[0].Host; !strings.EqualFold(h, td) {
			add("C12:issued-identity-outside-trust-domain:"+want.kind, fmt.Sprintf("the certificate's URI SAN %q has authority %q, the cluster's trust domain is %q", leaf.URIs[0].String(), h, td))
		}
		// what the server reports must be what the certificate says
		rep := map[string]string{"service": ic.ServiceURI, "agent": ic.AgentURI, "mesh-gateway": ic.KindURI, "server": ic.ServerURI}[want.kind]
		if rep != leaf.URIs[0].String() {
			add("C12:reported-uri-differs", fmt.Sprintf("IssuedCert reports %q, certificate carries %q", rep, leaf.URIs[0].String()))
		}
		if (want.kind == "service" && ic.Service != want.name) || (want.kind == "agent" && ic.Agent != want.name) {
			add("C12:reported-name-differs", fmt.Sprintf("IssuedCert reports service=%q agent=%q for %v", ic.Service, ic.Agent, want))
		}
	}
	sn := leaf.SerialNumber.String()
	if prev, dup := e.serials[sn]; dup {
		add("C12:serial-reused", fmt.Sprintf("serial %s issued for %s was already used for %s", sn, what, prev))
	}
	e.serials[sn] = what
	// chain to the active root of the replicated root set
	_, roots, err := e.w.Store().CARoots(nil)
	if err != nil {
		panic(err)
	}
	var active *structs.CARoot
	n := 0
	for _, r := range roots {
		if r.Active {
			active = r
			n++
		}
	}
	if n != 1 {
		add("C12:active-root-count", fmt.Sprintf("%d active roots among %d", n, len(roots)))
		return probs
	}
	pool, inter := x509.NewCertPool(), x509.NewCertPool()
	pool.AppendCertsFromPEM([]byte(active.RootCert))
	for _, c := range certs[1:] {
		inter.AddCert(c)
	}
	if _, err := leaf.Verify(x509.VerifyOptions{Roots: pool, Intermediates: inter, KeyUsages: []x509.ExtKeyUsage{x509.ExtKeyUsageAny}}); err != nil {
		add("C12:leaf-does-not-chain-to-active-root", fmt.Sprintf("leaf for %s does not verify against the active root %s: %v", what, active.ID, err))
	}
	return probs
}

func signingPhase(c *ev.Ctx) {
	e, err := newEnv(baseCfg(nil))
	if err != nil {
		c.HarnessError("CA initialize: " + err.Error())
		return
	}
	specs := grammar(c.Quick())
	toks := tokens()
	verdicts := map[string]int{}
	var attempts, issued, unbuildable int
	for _, s := range specs {
		pemCSR, err := buildCSR(s)
		if err != nil {
			unbuildable++
			continue
		}
		for _, tk := range toks {
			csr, err := connect.ParseCSR(pemCSR)
			if err != nil {
				verdicts["csr-rejected-by-x509-parser"]++
				break
			}
			want, id := reference(csr, tk)
			attempts++
			ic, serr := e.mgr.AuthorizeAndSignCertificate(csr, tk.az)
			got := "rejected"
			if serr == nil {
				got = "issued"
				issued++
			}
			verdicts[want+" -> "+got]++
			desc := fmt.Sprintf("CSR %s with token {%s}: reference %s, CA %s (err=%v)", s.label, tk.label, want, got, serr)
			rp := map[string]any{"csr": s.label, "token": tk.rules, "reference": want}
			switch {
			case strings.HasPrefix(want, "reject:") && serr == nil:
				c.Violate("C12:issued-although-"+strings.TrimPrefix(want, "reject:")+":"+id.kind, desc, rp)
			case want == "issue" && serr != nil:
				c.Violate("C12:valid-request-refused:"+id.kind, desc, rp)
			}
			if serr == nil && !strings.HasPrefix(want, "reject:") {
				for _, p := range e.checkIssued(ic, id, s.label) {
					c.Violate(p[0], p[1]+"\n"+desc, rp)
				}
			} else if serr == nil {
				// still track serial / chain for unexpected issues
				e.checkIssued(ic, id, s.label)
			}
		}
	}
	c.Set("csr_shapes", len(specs))
	c.Set("csr_unbuildable", unbuildable)
	c.Set("tokens", len(toks))
	c.Set("sign_attempts", attempts)
	c.Set("issued", issued)
	c.Set("verdict_cells", verdicts)
	c.Set("evaluations", int64(attempts))
	c.Set("distinct_nontrivial", len(verdicts))
	c.Sample(map[string]any{"example_csr": specs[len(specs)/3].label, "tokens": len(toks)})
}

// ---- root-set histories through the real manager ------------------------------------------------------------------

type mop struct {
	name string
	run  func(e *env) error
	// expectRotate: "" unknown, else the root name expected active on success
}

func rootsSummary(e *env) (string, *structs.CARoot, int, structs.CARoots) {
	_, roots, _ := e.w.Store().CARoots(nil)
	var act *structs.CARoot
	n := 0
	var ids []string
	for _, r := range roots {
		s := r.ID[:8]
		if r.Active {
			act = r
			n++
			s += "*"
		}
		ids = append(ids, s)
	}
	sort.Strings(ids)
	return strings.Join(ids, ","), act, n, roots
}

func managerPhase(c *ev.Ctx) {
	A, B, C := genRoot("A"), genRoot("B"), genRoot("C")
	keyed := func(r rootKey, extra map[string]interface{}) *structs.CAConfiguration {
		m := map[string]interface{}{"PrivateKey": r.key, "RootCert": r.cert}
		for k, v := range extra {
			m[k] = v
		}
		return baseCfg(m)
	}
	upd := func(name string, mk func() *structs.CAConfiguration, force bool) mop {
		return mop{name: name, run: func(e *env) error {
			cfg := mk()
			cfg.ForceWithoutCrossSigning = force
			return e.mgr.UpdateConfiguration(&structs.CARequest{Datacenter: dc, Config: cfg})
		}}
	}
	ops := []mop{
		upd("config(root A)", func() *structs.CAConfiguration { return keyed(A, nil) }, false),
		upd("config(root B)", func() *structs.CAConfiguration { return keyed(B, nil) }, false),
		upd("config(root C, force-without-cross-signing)", func() *structs.CAConfiguration { return keyed(C, nil) }, true),
		upd("config(generated root)", func() *structs.CAConfiguration { return baseCfg(nil) }, false),
		upd("config(root A, leaf ttl 48h)", func() *structs.CAConfiguration { return keyed(A, map[string]interface{}{"LeafCertTTL": "48h"}) }, false),
		upd("config(root B, invalid leaf ttl)", func() *structs.CAConfiguration { return keyed(B, map[string]interface{}{"LeafCertTTL": "1s"}) }, false),
		upd("config(root B, key of A)", func() *structs.CAConfiguration {
			return baseCfg(map[string]interface{}{"PrivateKey": A.key, "RootCert": B.cert})
		}, false),
		upd("config(unknown provider)", func() *structs.CAConfiguration {
			x := baseCfg(nil)
			x.Provider = "nope"
			return x
		}, false),
		{name: "leader-failover", run: func(e *env) error { return e.failover() }},
	}
	depth := 3
	if !c.Quick() {
		depth = 4
	}
	web, _ := buildCSR(csrSpec{uris: []string{"spiffe://" + td + "/ns/default/dc/dc1/svc/web"}})
	var seqs, steps int64
	outcomes := map[string]int{}
	var rec func(prefix []int)
	var faultRuns int64
	var runF func(path []int, failAt int, init string) int
	run := func(path []int) {
		// initial configurations: generated root, or root A
		for _, init := range []string{"generated", "A"} {
			n := runF(path, 0, init)
			// every raft apply of the last operation fails in turn
			// (quick tier: only below one first operation, which still varies the two operations before the failure)
			if c.Quick() && len(path) > 0 && path[0] != 0 {
				continue
			}
			for k := 1; k <= n && len(path) > 0; k++ {
				faultRuns++
				runF(path, k, init)
			}
		}
	}
	runF = func(path []int, failAt int, init string) (applies int) {
		{
			cfg := baseCfg(nil)
			if init == "A" {
				cfg = keyed(A, nil)
			}
			e, err := newEnv(cfg)
			if err != nil {
				c.HarnessError("CA initialize: " + err.Error())
				return
			}
			hist := []string{"initialize(" + init + ")"}
			fullBefore, idxBefore := rootsFull(e)
			check := func(opErr error, before string, beforeRoots structs.CARoots, cfgBefore string) {
				steps++
				sum, act, n, roots := rootsSummary(e)
				h := strings.Join(hist, " ; ")
				rp := map[string]any{"history": hist}
				last := hist[len(hist)-1]
				if full, idx := rootsFull(e); full != fullBefore && idx == idxBefore && before != "" {
					c.Violate("C12:roots-changed-without-a-replicated-write", fmt.Sprintf("after %s (err=%v) the stored root set differs although the roots index is still %d", h, opErr, idx), rp)
				}
				if n != 1 {
					c.Violate(fmt.Sprintf("C12:root-set-has-%d-active-roots", n), fmt.Sprintf("after %s the root set is {%s}", h, sum), rp)
					return
				}
				if pr := e.mgr.VerifProviderRoot(); pr == nil || pr.ID != act.ID {
					id := "<nil>"
					if pr != nil {
						id = pr.ID[:8]
					}
					c.Violate("C12:manager-signs-under-non-active-root", fmt.Sprintf("after %s the store's active root is %s but the manager signs under %s", h, act.ID[:8], id), rp)
				}
				if opErr != nil {
					_, cfgNow, _ := e.w.Store().CAConfig(nil)
					if sum != before || dump.Value(cfgNow, &dump.Options{MaskIndexes: true, SkipFields: map[string]bool{".State": true}}) != cfgBefore {
						c.Violate("C12:failed-update-changed-roots-or-config", fmt.Sprintf("%s failed (%v) but roots went {%s} -> {%s}", last, opErr, before, sum), rp)
					}
				} else {
					// every previously known root is still there (rotated out, never dropped)
					have := map[string]bool{}
					for _, r := range roots {
						have[r.ID] = true
					}
					for _, r := range beforeRoots {
						if !have[r.ID] {
							c.Violate("C12:rotation-dropped-a-root", fmt.Sprintf("after %s root %s is gone", h, r.ID[:8]), rp)
						}
					}
				}
				csr, _ := connect.ParseCSR(web)
				ic, err := e.mgr.AuthorizeAndSignCertificate(csr, acl.ManageAll())
				if err != nil {
					// availability is not part of the property (e.g. an operator supplied a key that does not match the root)
					outcomes["sign-refused after "+last]++
					return
				}
				for _, p := range e.checkIssued(ic, ident{kind: "service", dc: dc, name: "web", host: td}, "leaf after "+last) {
					c.Violate(p[0]+":after-rotation-history", p[1]+"\nhistory: "+h, rp)
				}
				outcomes[fmt.Sprintf("%s err=%v", last, opErr != nil)]++
			}
			check(nil, "", nil, "")
			for i, oi := range path {
				before, _, _, broots := rootsSummary(e)
				_, cfgB, _ := e.w.Store().CAConfig(nil)
				cb := dump.Value(cfgB, &dump.Options{MaskIndexes: true, SkipFields: map[string]bool{".State": true}})
				fullBefore, idxBefore = rootsFull(e)
				name := ops[oi].name
				e.applies, e.failAt = 0, 0
				if i == len(path)-1 && failAt > 0 {
					e.failAt = failAt
					name += fmt.Sprintf(" [raft apply #%d fails]", failAt)
				}
				hist = append(hist, name)
				err := ops[oi].run(e)
				if i == len(path)-1 {
					applies = e.applies
				}
				e.failAt = 0
				check(err, before, broots, cb)
				if c.NumViolations() > 50 {
					return
				}
			}
			if failAt == 0 {
				seqs++
			}
		}
		return applies
	}
	rec = func(prefix []int) {
		if len(prefix) == depth {
			run(prefix)
			return
		}
		for i := range ops {
			rec(append(append([]int{}, prefix...), i))
		}
	}
	rec(nil)
	c.Set("manager_fault_runs", faultRuns)
	c.Set("manager_histories", seqs)
	c.Set("manager_steps", steps)
	c.Set("manager_ops", len(ops))
	c.Set("manager_depth", depth)
	c.Set("manager_outcomes", outcomes)
}

// ---- secondary datacenter: intermediates signed by the primary, raft failures at every apply ------------------------

func rootsFull(e *env) (string, uint64) {
	idx, roots, _ := e.w.Store().CARoots(nil)
	return dump.Value(roots, &dump.Options{MaskIndexes: true, SkipFields: map[string]bool{".RotatedOutAt": true}}), idx
}

func secondaryPhase(c *ev.Ctx) {
	B := genRoot("B2")
	type sop struct {
		name string
		run  func(p, s *env) error
	}
	primaryRoots := func(p *env) structs.IndexedCARoots {
		_, roots, _ := p.w.Store().CARoots(nil)
		out := structs.IndexedCARoots{TrustDomain: connect.SpiffeIDSigningForCluster(clusterID).Host()}
		for _, r := range roots {
			cp := r.Clone()
			if cp.Active {
				out.ActiveRootID = cp.ID
			}
			out.Roots = append(out.Roots, cp)
		}
		return out
	}
	ops := []sop{
		{"renew-intermediate", func(p, s *env) error { return s.mgr.VerifRenewIntermediateNow() }},
		{"primary rotates to root B, secondary sees new roots", func(p, s *env) error {
			cfg := baseCfg(map[string]interface{}{"PrivateKey": B.key, "RootCert": B.cert})
			if err := p.mgr.UpdateConfiguration(&structs.CARequest{Datacenter: dc, Config: cfg}); err != nil {
				return nil // the primary refused (already there): nothing for the secondary to see
			}
			return s.mgr.VerifSecondaryUpdateRoots(primaryRoots(p))
		}},
		{"secondary sees unchanged primary roots", func(p, s *env) error { return s.mgr.VerifSecondaryUpdateRoots(primaryRoots(p)) }},
		{"secondary config change (leaf ttl 48h)", func(p, s *env) error {
			return s.mgr.UpdateConfiguration(&structs.CARequest{Datacenter: "dc2", Config: baseCfg(map[string]interface{}{"LeafCertTTL": "48h"})})
		}},
		{"secondary leader failover", func(p, s *env) error { return s.failover() }},
	}
	depth := 2
	if !c.Quick() {
		depth = 3
	}
	leafCSR, _ := buildCSR(csrSpec{uris: []string{"spiffe://" + td + "/ns/default/dc/dc2/svc/web"}})
	var histories, steps, faultRuns int64
	build := func() (*env, *env, error) {
		p, err := newEnv(baseCfg(nil))
		if err != nil {
			return nil, nil, err
		}
		s := newEnvIn("dc2", func(method, _ string, args, reply interface{}) error {
			switch method {
			case "ConnectCA.Roots":
				*(reply.(*structs.IndexedCARoots)) = primaryRoots(p)
				return nil
			case "ConnectCA.SignIntermediate":
				pem, err := p.mgr.VerifSignIntermediate(args.(*structs.CASignRequest).CSR)
				if err != nil {
					return err
				}
				*(reply.(*string)) = pem
				return nil
			}
			return fmt.Errorf("unexpected forwarded method %s", method)
		})
		cfg := baseCfg(nil)
		cfg.ClusterID = ""
		s.mgr = consul.VerifNewCAManager(s.del, cfg)
		return p, s, s.mgr.Initialize()
	}
	check := func(s *env, hist []string, opErr error, before string, beforeIdx uint64, afterInjectedFailure bool) {
		steps++
		h := strings.Join(hist, " ; ")
		rp := map[string]any{"history": hist}
		after, afterIdx := rootsFull(s)
		if after != before && afterIdx == beforeIdx {
			c.Violate("C12:secondary-roots-changed-without-a-replicated-write", fmt.Sprintf("after %s (err=%v) the stored root set differs although the roots index is still %d:\n%s\n->\n%s", h, opErr, afterIdx, before, after), rp)
			return
		}
		_, act, n, _ := rootsSummary(s)
		if n != 1 {
			c.Violate(fmt.Sprintf("C12:secondary-root-set-has-%d-active-roots", n), "after "+h, rp)
			return
		}
		if pr := s.mgr.VerifProviderRoot(); opErr == nil && (pr == nil || pr.ID != act.ID) {
			c.Violate("C12:secondary-manager-signs-under-non-active-root", "after "+h, rp)
		}
		if afterInjectedFailure {
			// a commit that failed half way may leave the provider ahead of the stored roots until the
			// operation is retried; what is judged is the retry (below), not this intermediate moment
			return
		}
		csr, _ := connect.ParseCSR(leafCSR)
		ic, err := s.mgr.AuthorizeAndSignCertificate(csr, acl.ManageAll())
		if err != nil {
			return
		}
		for _, p := range s.checkIssued(ic, ident{kind: "service", dc: "dc2", name: "web", host: td}, "secondary leaf after "+hist[len(hist)-1]) {
			c.Violate(p[0]+":secondary", p[1]+"\nhistory: "+h, rp)
		}
	}
	var rec func(path []int)
	runPath := func(path []int, failAt int) (applies int) {
		p, s, err := build()
		if err != nil {
			c.HarnessError("secondary CA initialize: " + err.Error())
			return 0
		}
		hist := []string{"primary+secondary initialized"}
		b0, i0 := rootsFull(s)
		check(s, hist, nil, b0, i0-1, false)
		for i, oi := range path {
			before, beforeIdx := rootsFull(s)
			last := i == len(path)-1
			s.applies, s.failAt = 0, 0
			if last && failAt > 0 {
				s.failAt = failAt
			}
			name := ops[oi].name
			if last && failAt > 0 {
				name += fmt.Sprintf(" [raft apply #%d fails]", failAt)
			}
			hist = append(hist, name)
			err := ops[oi].run(p, s)
			if last {
				applies = s.applies
			}
			injected := s.failAt != 0
			s.failAt = 0
			check(s, hist, err, before, beforeIdx, injected)
			if injected {
				// the retry must bring everything back in step
				before, beforeIdx = rootsFull(s)
				hist = append(hist, ops[oi].name+" [retried]")
				if err := ops[oi].run(p, s); err != nil {
					// a retry that keeps failing is an availability problem, not judged here
					continue
				}
				check(s, hist, nil, before, beforeIdx, false)
			}
		}
		return applies
	}
	rec = func(path []int) {
		if len(path) > 0 {
			histories++
			n := runPath(path, 0)
			for k := 1; k <= n; k++ {
				faultRuns++
				runPath(path, k)
			}
		}
		if len(path) == depth || c.NumViolations() > 30 {
			return
		}
		for i := range ops {
			rec(append(append([]int{}, path...), i))
		}
	}
	rec(nil)
	c.Set("secondary_histories", histories)
	c.Set("secondary_fault_runs", faultRuns)
	c.Set("secondary_steps", steps)
	c.Set("secondary_depth", depth)
}

// ---- root-set commands at the FSM level ------------------------------------------------------------------------------

func fsmPhase(c *ev.Ctx) {
	type prop struct {
		rs   []cmdlib.RootSpec
		kind string
		// never: the command presents an index from the future for one of its parts; that can never be the current one,
		// so nothing may change
		never bool
	}
	props := map[string]prop{}
	var alpha []world.Op
	add := func(op world.Op, rs []cmdlib.RootSpec, kind string) {
		props[op.Name] = prop{rs: rs, kind: kind, never: strings.Contains(op.Name, "future")}
		alpha = append(alpha, op)
	}
	r := func(specs ...cmdlib.RootSpec) []cmdlib.RootSpec { return specs }
	proposals := [][]cmdlib.RootSpec{
		r(cmdlib.RootSpec{ID: "r1", Active: true}), r(cmdlib.RootSpec{ID: "r2", Active: true}),
		r(cmdlib.RootSpec{ID: "r1"}, cmdlib.RootSpec{ID: "r2", Active: true}), r(cmdlib.RootSpec{ID: "r1", Active: true}, cmdlib.RootSpec{ID: "r2"}),
		r(cmdlib.RootSpec{ID: "r1"}, cmdlib.RootSpec{ID: "r2"}, cmdlib.RootSpec{ID: "r3", Active: true}),
		r(cmdlib.RootSpec{ID: "r1"}, cmdlib.RootSpec{ID: "r2"}), r(cmdlib.RootSpec{ID: "r1", Active: true}, cmdlib.RootSpec{ID: "r2", Active: true}), r(),
	}
	for _, p := range proposals {
		for _, ic := range cmdlib.AllIdx {
			add(cmdlib.CASetRoots(p, ic), p, "set-roots")
		}
		for _, ri := range []cmdlib.IdxClass{cmdlib.IdxCurrent, cmdlib.IdxStale} {
			for _, ci := range []cmdlib.IdxClass{cmdlib.IdxCurrent, cmdlib.IdxStale} {
				add(cmdlib.CASetRootsAndConfig(p, ri, "24h", ci), p, "set-roots-config")
			}
		}
	}
	for _, ic := range []cmdlib.IdxClass{cmdlib.IdxZero, cmdlib.IdxCurrent, cmdlib.IdxStale, cmdlib.IdxFuture} {
		add(cmdlib.CASetConfig("48h", ic), nil, "set-config")
	}
	for _, p := range proposals[:3] {
		add(cmdlib.CASetRootsAndConfig(p, cmdlib.IdxCurrent, "24h", cmdlib.IdxFuture), p, "set-roots-config")
		add(cmdlib.CASetRootsAndConfig(p, cmdlib.IdxFuture, "24h", cmdlib.IdxCurrent), p, "set-roots-config")
	}
	add(cmdlib.CAIncrementSerial(), nil, "other")
	add(cmdlib.CALeafIncrement(), nil, "other")
	type pre struct {
		roots string
		cfg   string
		set   map[string]bool
	}
	obs := func(w *world.World) pre {
		_, roots, _ := w.Store().CARoots(nil)
		_, cfg, _ := w.Store().CAConfig(nil)
		set := map[string]bool{}
		for _, x := range roots {
			set[x.ID] = x.Active
		}
		return pre{dump.Value(roots, &dump.Options{MaskIndexes: true}), dump.Value(cfg, &dump.Options{MaskIndexes: true}), set}
	}
	depth := 3
	if !c.Quick() {
		depth = 4
	}
	cfg := &e1.Config{Ctx: c, Seeds: [][]world.Op{nil, {cmdlib.CASetConfig("72h", cmdlib.IdxZero), cmdlib.CASetRoots(proposals[0], cmdlib.IdxZero)}}, Alphabet: alpha, MaxDepth: depth, AuditMerges: 20,
		Pre: func(w *world.World) any { return obs(w) },
		Post: func(t *e1.Trans) {
			p := props[t.Op.Name]
			before := t.Pre.(pre)
			after := obs(t.W)
			_, roots, _ := t.W.Store().CARoots(nil)
			n := 0
			for _, x := range roots {
				if x.Active {
					n++
				}
			}
			if len(roots) > 0 && n != 1 {
				t.Violate(fmt.Sprintf("C12:fsm-root-set-has-%d-active-roots:%s", n, p.kind), fmt.Sprintf("after %v the root table holds %d roots, %d active", t.Hist, len(roots), n))
			}
			if p.never && (after.roots != before.roots || after.cfg != before.cfg) {
				t.Violate("C12:fsm-applied-with-an-index-from-the-future:"+p.kind, fmt.Sprintf("%s presents an index that cannot be the current one, yet roots changed=%v config changed=%v", t.Op.Name, after.roots != before.roots, after.cfg != before.cfg))
				return
			}
			if after.roots != before.roots {
				if p.rs == nil {
					t.Violate("C12:fsm-roots-changed-by-unrelated-command:"+p.kind, fmt.Sprintf("%s changed the root table", t.Op.Name))
					return
				}
				// whole-set replacement: exactly the proposal
				want := map[string]bool{}
				for _, x := range p.rs {
					want[x.ID] = x.Active
				}
				ok := len(roots) == len(want)
				for _, x := range roots {
					if a, in := want[x.ID]; !in || a != x.Active {
						ok = false
					}
				}
				if !ok {
					t.Violate("C12:fsm-roots-partially-replaced:"+p.kind, fmt.Sprintf("%s: table after = %s, not the proposal", t.Op.Name, after.roots))
				}
				if p.kind == "set-roots-config" && after.cfg == before.cfg && !strings.Contains(before.cfg, `"24h"`) {
					t.Violate("C12:fsm-roots-replaced-without-config", fmt.Sprintf("%s replaced the roots but not the config", t.Op.Name))
				}
			} else if p.kind == "set-roots-config" && after.cfg != before.cfg && !sameSet(before.set, p.rs) {
				t.Violate("C12:fsm-config-replaced-without-roots", fmt.Sprintf("%s replaced the config but not the roots", t.Op.Name))
			}
		},
	}
	st := e1.Run(cfg)
	st.Report(c, "fsm_")
	c.Set("fsm_alphabet_size", len(alpha))
}

func sameSet(a map[string]bool, rs []cmdlib.RootSpec) bool {
	if len(a) != len(rs) {
		return false
	}
	for _, x := range rs {
		if act, ok := a[x.ID]; !ok || act != x.Active {
			return false
		}
	}
	return true
}

func Run(c *ev.Ctx) {
	signingPhase(c)
	managerPhase(c)
	secondaryPhase(c)
	fsmPhase(c)
	c.Set("rule", "signing: every CSR of the SAN/identity grammar x every token through the real CAManager.AuthorizeAndSignCertificate (consul provider, real FSM as raft) against a reference verdict and an independent re-parse of the issued certificate; roots: every history (to manager_depth) of configuration updates/rotations/failed updates/leader failover through the real CAManager, a leaf signed and verified after every step; every CA command sequence (to fsm_max_depth) on the FSM")
	c.Assume("certificate path validation is Go's crypto/x509; the reference identity parser splits the escaped path and unescapes each segment")
}
