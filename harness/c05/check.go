// Package c05: transactions are all-or-nothing and isolated.
package c05

import (
	"fmt"
	"regexp"
	"sort"
	"strconv"
	"strings"

	"github.com/hashicorp/go-memdb"

	"github.com/hashicorp/consul/agent/consul/state"
	"github.com/hashicorp/consul/agent/structs"
	"github.com/hashicorp/consul/api"
	"github.com/hashicorp/consul/internal/verifmc/cmdlib"
	"github.com/hashicorp/consul/internal/verifmc/dump"
	"github.com/hashicorp/consul/internal/verifmc/e1"
	"github.com/hashicorp/consul/internal/verifmc/ep"
	"github.com/hashicorp/consul/internal/verifmc/ev"
	"github.com/hashicorp/consul/internal/verifmc/world"
)

// part is one transaction operation plus, when one exists, the equivalent stand-alone command.
type part struct {
	tp    cmdlib.TxnPart
	equiv *world.Op // nil: no stand-alone equivalent; noop=true: read/guard verb
	noop  bool
	read  bool // allowed in a read-only transaction
	// guard: an index-free guard verb (check-not-exists, check-session) whose verdict depends on what earlier
	// operations of the same transaction did; indexed: the verb carries a raft index (CAS, check-index)
	guard   bool
	indexed bool
	kvWrite bool // a KV write verb with a stand-alone equivalent
	// staleRow: the verb presents an index older than the row's current one; the row is found in this table by this
	// substring. If the row exists the whole transaction must fail.
	staleTable, staleRow string
	// rule: for a guard verb, the documented verdict on a given store (true = the guard passes)
	rule func(st *state.Store) bool
}

type pre struct {
	dump    world.Dump
	batches int
	hint    uint64
	ws      memdb.WatchSet
	cloneFn func() *world.World
}

func watchAll(w *world.World) memdb.WatchSet {
	ws := memdb.NewWatchSet()
	st := w.Store()
	for _, k := range []string{"a", "a/b", "zz"} {
		st.KVSGet(ws, k, nil)
	}
	st.KVSList(ws, "", nil)
	st.KVSList(ws, "a", nil)
	st.SessionList(ws, nil)
	st.Nodes(ws, nil, "")
	st.ServiceList(ws, nil, "")
	for _, n := range []string{"n1", "n2", "n3"} {
		st.NodeServices(ws, n, nil, "")
		st.NodeChecks(ws, n, nil, "")
		st.NodeSessions(ws, n, nil)
	}
	for _, s := range []string{"web", "db"} {
		st.ServiceNodes(ws, s, nil, "")
		st.CheckServiceNodes(ws, s, nil, "")
		st.ServiceChecks(ws, s, nil, "")
	}
	st.ChecksInState(ws, api.HealthAny, nil, "")
	st.PreparedQueryList(ws)
	return ws
}

func fired(ws memdb.WatchSet) bool {
	for ch := range ws {
		select {
		case <-ch:
			return true
		default:
		}
	}
	return false
}

var idxRe = regexp.MustCompile(`(ModifyIndex|Value|Index):\x01(\d+)\x02`)

var indexedTables = map[string]bool{"nodes": true, "services": true, "checks": true, "kvs": true, "sessions": true, "tombstones": true, "index": true, "coordinates": true}

func Run(c *ev.Ctx) {
	quick := c.Quick()
	n1 := cmdlib.NodeSpec{Node: "n1", ID: "id1"}
	n1other := cmdlib.NodeSpec{Node: "n1", ID: "id2", Addr: "10.0.0.5"} // same name, different ID: rejected while n1 is healthy
	serf := cmdlib.CheckSpec{ID: "serfHealth", Status: api.HealthPassing}
	sessCk := cmdlib.CheckSpec{ID: "sessck", Status: api.HealthPassing, Type: "session", SessName: "lockname"}
	n1addr := cmdlib.NodeSpec{Node: "n1", ID: "id1", Addr: "10.0.0.9"}
	n2 := cmdlib.NodeSpec{Node: "n2"}
	n3 := cmdlib.NodeSpec{Node: "n3"}
	web := cmdlib.SvcSpec{Name: "web", Port: 80}
	web81 := cmdlib.SvcSpec{Name: "web", Port: 81}
	proxyOther := cmdlib.SvcSpec{ID: cmdlib.FProxy.ID, Name: "web-proxy", Kind: structs.ServiceKindConnectProxy, DestName: "web", Upstreams: []string{"cache"}, Port: 21000}
	db := cmdlib.SvcSpec{Name: "db", Port: 5432}
	c1 := cmdlib.CheckSpec{ID: "c1", Status: api.HealthPassing}
	c1crit := cmdlib.CheckSpec{ID: "c1", Status: api.HealthCritical}
	sc1 := cmdlib.CheckSpec{ID: "sc1", Status: api.HealthPassing, ServiceID: "web"}
	s1 := cmdlib.SessionSpec{Name: "s1", Node: "n1", Behavior: structs.SessionKeysRelease, NodeChecks: []string{"c1"}}
	s2 := cmdlib.SessionSpec{Name: "s2", Node: "n1", Behavior: structs.SessionKeysDelete, SessName: "lockname"}

	var parts []part
	kv := func(verb api.KVOp, key, val, sess string, ic cmdlib.IdxClass, useIdx bool) {
		sp := cmdlib.KVSpec{Verb: verb, Key: key, Val: val, Sess: sess, Idx: ic, UseIdx: useIdx}
		p := part{tp: sp.TxnOp()}
		switch verb {
		case api.KVGet, api.KVGetTree, api.KVGetOrEmpty, api.KVCheckIndex, api.KVCheckSession, api.KVCheckNotExists:
			p.noop = true
			p.read = verb == api.KVGet || verb == api.KVGetTree || verb == api.KVGetOrEmpty
			p.guard = verb == api.KVCheckNotExists || verb == api.KVCheckSession
			p.indexed = verb == api.KVCheckIndex
			switch verb {
			case api.KVCheckNotExists:
				p.rule = func(st *state.Store) bool { _, e, _ := st.KVSGet(nil, key, nil); return e == nil }
			case api.KVCheckSession:
				// passes iff the key exists and is held by exactly the named session
				p.rule = func(st *state.Store) bool {
					_, e, _ := st.KVSGet(nil, key, nil)
					return e != nil && e.Session == cmdlib.SessionIDs[sess]
				}
			}
		default:
			op := sp.Op()
			p.equiv = &op
			p.indexed = useIdx
			p.kvWrite = true
		}
		parts = append(parts, p)
	}
	kv(api.KVSet, "a", "x", "", 0, false)
	kv(api.KVSet, "a/b", "y", "", 0, false)
	kv(api.KVCAS, "a", "z", "", cmdlib.IdxCurrent, true)
	kv(api.KVCAS, "a", "z", "", cmdlib.IdxStale, true)
	kv(api.KVCAS, "zz", "z", "", cmdlib.IdxZero, true)
	kv(api.KVDelete, "a", "", "", 0, false)
	kv(api.KVDeleteCAS, "a", "", "", cmdlib.IdxCurrent, true)
	kv(api.KVDeleteCAS, "a/b", "", "", cmdlib.IdxStale, true)
	kv(api.KVDeleteTree, "a", "", "", 0, false)
	kv(api.KVLock, "a", "x", "s1", 0, false)
	kv(api.KVLock, "a", "x", "s2", 0, false)
	kv(api.KVUnlock, "a", "x", "s1", 0, false)
	kv(api.KVGet, "a", "", "", 0, false)
	kv(api.KVGet, "zz", "", "", 0, false)
	kv(api.KVGetTree, "a", "", "", 0, false)
	kv(api.KVCheckIndex, "a", "", "", cmdlib.IdxCurrent, true)
	kv(api.KVCheckIndex, "a", "", "", cmdlib.IdxStale, true)
	kv(api.KVCheckSession, "a", "", "s1", 0, false)
	kv(api.KVCheckNotExists, "a", "", "", 0, false)

	eq := func(o world.Op) *world.Op { return &o }
	parts = append(parts,
		part{tp: cmdlib.TxnNode(api.NodeSet, n2, 0), equiv: eq(cmdlib.RegNode(n2))},
		part{tp: cmdlib.TxnNode(api.NodeSet, n1addr, 0), equiv: eq(cmdlib.RegNode(n1addr))},
		part{tp: cmdlib.TxnNode(api.NodeSet, n1other, 0), equiv: eq(cmdlib.RegNode(n1other))},
		part{tp: cmdlib.TxnSessionDelete("s2"), equiv: eq(cmdlib.SessionDestroy("s2"))},
		part{tp: cmdlib.TxnNode(api.NodeCAS, n1addr, cmdlib.IdxCurrent)},
		part{tp: cmdlib.TxnNode(api.NodeCAS, n1addr, cmdlib.IdxStale)},
		part{tp: cmdlib.TxnNode(api.NodeDelete, n1, 0), equiv: eq(cmdlib.DeregNode("n1", ""))},
		part{tp: cmdlib.TxnNode(api.NodeDeleteCAS, n1, cmdlib.IdxStale)},
		part{tp: cmdlib.TxnNode(api.NodeGet, n3, 0), noop: true, read: true},
		part{tp: cmdlib.TxnNode(api.NodeGet, n1, 0), noop: true, read: true},
		part{tp: cmdlib.TxnService(api.ServiceSet, "n1", web81, 0), equiv: eq(cmdlib.RegServiceSkipNode("n1", web81))},
		part{tp: cmdlib.TxnService(api.ServiceSet, "n3", web, 0)},
		part{tp: cmdlib.TxnService(api.ServiceCAS, "n1", web81, cmdlib.IdxStale)},
		part{tp: cmdlib.TxnService(api.ServiceCAS, "n1", web81, cmdlib.IdxCurrent)},
		part{tp: cmdlib.TxnService(api.ServiceDelete, "n1", web, 0), equiv: eq(cmdlib.DeregService("n1", "web", ""))},
		part{tp: cmdlib.TxnService(api.ServiceGet, "n1", db, 0), noop: true, read: true},
		part{tp: cmdlib.TxnCheck(api.CheckSet, "n1", c1crit, 0)},
		part{tp: cmdlib.TxnCheck(api.CheckCAS, "n1", c1crit, cmdlib.IdxStale)},
		part{tp: cmdlib.TxnCheck(api.CheckDelete, "n1", c1, 0), equiv: eq(cmdlib.DeregCheck("n1", "c1", ""))},
		part{tp: cmdlib.TxnCheck(api.CheckDeleteCAS, "n1", sc1, cmdlib.IdxCurrent)},
		part{tp: cmdlib.TxnCheck(api.CheckDeleteCAS, "n1", cmdlib.CheckSpec{ID: "sc2", ServiceID: "web"}, cmdlib.IdxStale), staleTable: "checks", staleRow: `CheckID:"sc2"`},
		part{tp: cmdlib.TxnCheck(api.CheckCAS, "n1", cmdlib.CheckSpec{ID: "sc2", Status: api.HealthWarning, ServiceID: "web"}, cmdlib.IdxStale), staleTable: "checks", staleRow: `CheckID:"sc2"`},
		part{tp: cmdlib.TxnService(api.ServiceDeleteCAS, "n1", cmdlib.SvcSpec{Name: "api", Port: 2}, cmdlib.IdxStale), staleTable: "services", staleRow: `ServiceID:"api"`},
		part{tp: cmdlib.TxnService(api.ServiceCAS, "n1", cmdlib.SvcSpec{Name: "api", Port: 3}, cmdlib.IdxStale), staleTable: "services", staleRow: `ServiceID:"api"`},
		part{tp: cmdlib.TxnCheck(api.CheckGet, "n1", sc1, 0), noop: true, read: true},
		part{tp: cmdlib.TxnSessionDelete("s1"), equiv: eq(cmdlib.SessionDestroy("s1"))},
		// a plain write to the very row a conditional verb of the list names (the conditional verb then has to see it)
		part{tp: cmdlib.TxnCheck(api.CheckSet, "n1", cmdlib.CheckSpec{ID: "sc1", Status: api.HealthWarning, ServiceID: "web", SvcName: "web"}, 0)},
		part{tp: cmdlib.TxnService(api.ServiceSet, "n1", cmdlib.SvcSpec{Name: "api", Port: 9}, 0)},
		part{tp: cmdlib.TxnService(api.ServiceDeleteCAS, "n1", cmdlib.SvcSpec{Name: "api", Port: 2}, cmdlib.IdxCurrent)},
		// mesh rows: derived tables (upstream/downstream topology with per-instance references, kind names, virtual
		// IPs, gateway links) are edited by these verbs; a rolled-back transaction must leave them alone too
		part{tp: cmdlib.TxnService(api.ServiceDelete, "n1", cmdlib.FProxy, 0), equiv: eq(cmdlib.DeregService("n1", cmdlib.FProxy.ID, ""))},
		part{tp: cmdlib.TxnService(api.ServiceSet, "n1", proxyOther, 0), equiv: eq(cmdlib.RegServiceSkipNode("n1", proxyOther))},
		part{tp: cmdlib.TxnNode(api.NodeDelete, n2, 0), equiv: eq(cmdlib.DeregNode("n2", ""))},
	)

	// ---- phase 1: pre-states -----------------------------------------------------------------
	base := []world.Op{
		cmdlib.KVSpec{Verb: api.KVSet, Key: "a", Val: "x"}.Op(), cmdlib.KVSpec{Verb: api.KVSet, Key: "a/b", Val: "q"}.Op(),
		cmdlib.KVSpec{Verb: api.KVDelete, Key: "a"}.Op(), cmdlib.KVSpec{Verb: api.KVLock, Key: "a", Val: "x", Sess: "s1"}.Op(),
		cmdlib.KVSpec{Verb: api.KVLock, Key: "a/b", Val: "x", Sess: "s2"}.Op(),
		cmdlib.RegNode(n2), cmdlib.RegService(n1, web), cmdlib.RegService(n1, db), cmdlib.RegCheck(n1, c1), cmdlib.RegCheck(n1, sc1), cmdlib.RegCheck(n1, c1crit),
		s1.Create(), s2.Create(), cmdlib.SessionDestroy("s1"), cmdlib.DeregNode("n1", ""), cmdlib.DeregService("n1", "web", ""),
	}
	seed1 := []world.Op{cmdlib.RegNode(n1), cmdlib.RegCheck(n1, serf), cmdlib.RegService(n1, web), cmdlib.RegCheck(n1, c1), cmdlib.RegCheck(n1, sc1), cmdlib.RegCheck(n1, sessCk), s1.Create(), s2.Create(),
		cmdlib.KVSpec{Verb: api.KVLock, Key: "a", Val: "x", Sess: "s1"}.Op(), cmdlib.KVSpec{Verb: api.KVLock, Key: "a/b", Val: "y", Sess: "s2"}.Op()}
	// every row was created and later modified, so that its create and modify indexes differ
	// (the modification directly follows the creation, so "one less than the current index" is the create index)
	seed2 := append(append([]world.Op{}, seed1...),
		cmdlib.RegCheck(n1, cmdlib.CheckSpec{ID: "sc2", Status: api.HealthPassing, ServiceID: "web"}), cmdlib.RegCheck(n1, cmdlib.CheckSpec{ID: "sc2", Status: api.HealthCritical, ServiceID: "web"}),
		cmdlib.RegService(n1, cmdlib.SvcSpec{Name: "api", Port: 1}), cmdlib.RegService(n1, cmdlib.SvcSpec{Name: "api", Port: 2}))
	// two sidecar instances of web sharing the upstream db, a connect-native service and a terminating gateway entry
	seed3 := append(append([]world.Op{}, seed1...), cmdlib.RegNode(n2), cmdlib.RegService(n1, cmdlib.FProxy), cmdlib.RegService(n2, cmdlib.FProxy2),
		cmdlib.RegService(n2, cmdlib.SvcSpec{ID: "db", Name: "db", Port: 5432, Native: true}))
	seeds := [][]world.Op{nil, {cmdlib.RegNode(n1)}, seed1, seed2, seed3}
	d1 := 1
	if !quick {
		d1 = 2
	}
	p1 := &e1.Config{Ctx: c, Seeds: seeds, Alphabet: base, MaxDepth: d1, KeepNodes: true}
	st1 := e1.Run(p1)
	var preSeeds [][]world.Op
	for _, n := range st1.Nodes {
		preSeeds = append(preSeeds, p1.Ops(n))
	}
	c.Set("pre_states", len(preSeeds))

	// ---- phase 2: every op list from every pre-state ---------------------------------------
	type list struct {
		idx []int
	}
	var lists []list
	for i := range parts {
		lists = append(lists, list{[]int{i}})
	}
	for i := range parts {
		for j := range parts {
			lists = append(lists, list{[]int{i, j}})
		}
	}
	if !quick {
		// length 3 over a focused subset: every verb class once, failing and succeeding variants
		var focus []int
		seenKind := map[string]bool{}
		for i, p := range parts {
			k := p.tp.Kind
			if strings.Contains(p.tp.Name, "idx=stale") || strings.Contains(p.tp.Name, "zz") {
				k += "/failing"
			}
			if !seenKind[k] && len(focus) < 16 {
				seenKind[k] = true
				focus = append(focus, i)
			}
		}
		for _, i := range focus {
			for _, j := range focus {
				for _, k := range focus {
					lists = append(lists, list{[]int{i, j, k}})
				}
			}
		}
	}
	var alpha []world.Op
	for _, l := range lists {
		var tp []cmdlib.TxnPart
		for _, i := range l.idx {
			tp = append(tp, parts[i].tp)
		}
		alpha = append(alpha, cmdlib.Txn(tp...))
	}
	full := &dump.Options{MarkIndexes: true}
	masked := &dump.Options{MaskIndexes: true}

	mkPost := func(checkWatch bool) func(t *e1.Trans) {
		return func(t *e1.Trans) {
			p := t.Pre.(*pre)
			l := lists[t.OpIdx]
			resp, ok := t.W.LastRaw.(structs.TxnResponse)
			if !ok {
				t.Violate("C05:result-type:"+t.Op.Kind, "result is not a TxnResponse: "+t.Result)
				return
			}
			// a guard in first position is judged on the pre-state by the documented rule, whatever else the list holds
			// (an RPC endpoint that refused the request in its pre-checks evaluated no guard at all)
			if r := parts[l.idx[0]].rule; r != nil && t.W.LastApplies > 0 {
				want := r(p.clone().Store())
				got := true
				for _, e := range resp.Errors {
					if e.OpIndex == 0 {
						got = false
					}
				}
				if got != want {
					t.Violate(fmt.Sprintf("C05:guard-verdict-differs-from-its-rule:%s:passes=%v", parts[l.idx[0]].tp.Kind, got),
						fmt.Sprintf("%s in first position: the guard %s, by its documented rule on the state before the transaction it %s",
							parts[l.idx[0]].tp.Name, map[bool]string{true: "passed", false: "failed"}[got], map[bool]string{true: "passes", false: "fails"}[want]))
				}
			}
			// a conditional verb in first position whose index does not match the pre-state must fail (one direction
			// only: a matching index may still be refused for other reasons)
			if t.W.LastApplies > 0 {
				ref := p.clone()
				if o, ok := parts[l.idx[0]].tp.Build(ref); ok {
					if why := casMustFail(ref.Store(), o); why != "" {
						failed0 := false
						for _, e := range resp.Errors {
							failed0 = failed0 || e.OpIndex == 0
						}
						if !failed0 {
							t.Violate("C05:conditional-operation-passed-although-its-index-does-not-match:"+parts[l.idx[0]].tp.Kind,
								fmt.Sprintf("%s in first position was not refused although %s", parts[l.idx[0]].tp.Name, why))
						}
					}
				}
			}
			idx := t.W.Next - 1
			post := t.W.Dump(full)
			if len(resp.Errors) > 0 {
				if len(resp.Results) != 0 {
					t.Violate("C05:failed-with-results:"+t.Op.Kind, "failed transaction returned results")
				}
				if tabs := world.DiffTables(p.dump, post); len(tabs) > 0 {
					t.Violate(fmt.Sprintf("C05:failed-but-changed:tables=%v:%s", tabs, failKinds(l.idx, parts, resp)),
						fmt.Sprintf("transaction failed (%s) but state changed:\n%s", t.Result, world.Diff(p.dump, post, 8)))
				}
				if n := t.W.Rec.NumBatches(); n != p.batches {
					t.Violate("C05:failed-but-published:"+failKinds(l.idx, parts, resp), fmt.Sprintf("failed transaction published %d event batches", n-p.batches))
				}
				if h := t.W.GC.VerifMaxHint(); h != p.hint && h >= idx {
					t.Violate("C05:failed-but-deferred-ran:"+failKinds(l.idx, parts, resp), fmt.Sprintf("failed transaction ran a deferred tombstone-GC hint (index %d)", h))
				}
				if checkWatch && fired(p.ws) {
					t.Violate("C05:failed-but-woke-watcher:"+failKinds(l.idx, parts, resp), "failed transaction woke a blocked watcher")
				}
				if _, why, msg := stepwise(p.clone(), t.W, l.idx, parts, masked, false); why != "" {
					t.Violate(fmt.Sprintf("C05:%s:%s", why, failKinds(l.idx, parts, resp)), msg)
				}
				// converse, only where no operation carries a raft index (those resolve differently when applied one
				// by one) and the list has a guard: if every operation succeeds alone, in order, and every guard
				// passes on the state the earlier operations produce, the transaction had to succeed
				hasGuard, clean := false, true
				for _, i := range l.idx {
					hasGuard = hasGuard || parts[i].guard
					if parts[i].indexed || !(parts[i].guard || parts[i].kvWrite) {
						clean = false // only KV writes and guards: their stand-alone commands mean exactly the same
					}
				}
				if hasGuard && clean {
					ref := p.clone()
					allOK := true
					for _, i := range l.idx {
						switch {
						case parts[i].guard:
							if _, ok := ref.Apply(cmdlib.Txn(parts[i].tp)); ok {
								if rr, isResp := ref.LastRaw.(structs.TxnResponse); isResp && len(rr.Errors) > 0 {
									allOK = false
								}
							}
						case parts[i].noop:
						default:
							if r, ok := ref.Apply(*parts[i].equiv); !ok || failedResult(r) {
								allOK = false
							}
						}
					}
					if allOK {
						t.Violate("C05:failed-although-every-operation-and-guard-passes-in-order:"+failKinds(l.idx, parts, resp),
							fmt.Sprintf("transaction failed (%s) but each operation succeeds alone in this order and each guard passes on the state the earlier ones produce", t.Result))
					}
				}
				return
			}
			// success: every changed row carries exactly this entry's index
			for tab, rows := range post {
				if !indexedTables[tab] {
					continue
				}
				old := map[string]bool{}
				oldIdx := map[uint64]bool{}
				for _, r := range p.dump[tab] {
					old[r] = true
					for _, m := range idxRe.FindAllStringSubmatch(r, -1) {
						v, _ := strconv.ParseUint(m[2], 10, 64)
						oldIdx[v] = true
					}
				}
				for _, r := range rows {
					if old[r] {
						continue
					}
					// a changed row carries this entry's index, or an index the table already held
					// (cascades that deliberately preserve a row's own ModifyIndex); never a new foreign one
					for _, m := range idxRe.FindAllStringSubmatch(r, -1) {
						if v, _ := strconv.ParseUint(m[2], 10, 64); v != idx && !oldIdx[v] {
							t.Violate("C05:changed-row-wrong-index:table="+tab+":"+t.Op.Kind, fmt.Sprintf("row changed by the transaction at index %d carries index %d: %s", idx, v, dump.Compress(r)))
						}
					}
				}
			}
			// a verb that presents an index older than its row's must fail, and with it the transaction
			for _, i := range l.idx {
				if parts[i].staleRow == "" {
					continue
				}
				for _, r := range p.dump[parts[i].staleTable] {
					if strings.Contains(r, parts[i].staleRow) && !strings.Contains(r, "PeerName:") {
						t.Violate("C05:committed-although-a-conditional-operation-was-stale:"+parts[i].tp.Kind, fmt.Sprintf("transaction committed although %s presents an index older than the row's", parts[i].tp.Name))
					}
				}
			}
			// stepwise: the very same operations (built against the pre-state) as one-operation transactions, in order
			if tabs, why, msg := stepwise(p.clone(), t.W, l.idx, parts, masked, true); why != "" {
				t.Violate(fmt.Sprintf("C05:%s:tables=%v:%s", why, tabs, t.Op.Kind), msg)
			}
			// differential: same ops as stand-alone commands, in order, on a clone of the pre-state
			if tabs, why := differential(p.clone(), t.W, l.idx, parts, masked); why != "" {
				t.Violate(fmt.Sprintf("C05:%s:tables=%v:%s", why, tabs, t.Op.Kind), differentialMsg)
			}
		}
	}
	// pre needs a way to clone the pre-state for the differential: rebuild by replay
	mkPre := func(cfg *e1.Config, checkWatch bool) func(w *world.World) any {
		return func(w *world.World) any {
			p := &pre{dump: w.Dump(full), batches: w.Rec.NumBatches(), hint: w.GC.VerifMaxHint()}
			if checkWatch {
				p.ws = watchAll(w)
			}
			base := w.Clone(nil) // taken now, before the transaction is applied to w; never written
			p.cloneFn = func() *world.World { return base.Clone(nil) }
			return p
		}
	}
	p2 := &e1.Config{Ctx: c, Seeds: preSeeds, Alphabet: alpha, MaxDepth: 1}
	p2.Pre, p2.Post = mkPre(p2, false), mkPost(false)
	// the differential clones the pre-state *before* the txn is applied: Pre runs on the clone the
	// op is applied to, so take the reference clone there
	st2 := e1.Run(p2)
	st2.Report(c, "txn_")

	// fresh-instance pass (watch channels are only live on a primary memdb): seeds only
	p3 := &e1.Config{Ctx: c, Seeds: seeds, Alphabet: alpha, MaxDepth: 1, Fresh: true}
	p3.Pre, p3.Post = mkPre(p3, true), mkPost(true)
	if quick {
		p3.ExpandFilter = func(n e1.Node, depth int, op int) bool { return len(lists[op].idx) == 1 || (n.Seed == 2 && op%3 == 0) }
	}
	st3 := e1.Run(p3)
	st3.Report(c, "watch_")

	// the same lists as a client sends them: through the Txn.Apply RPC endpoint (pre-checks, raft apply,
	// result filtering) on a Server value over the same pre-states
	var alphaRPC []world.Op
	for _, op := range alpha {
		alphaRPC = append(alphaRPC, ep.Via(op, nil))
	}
	p4 := &e1.Config{Ctx: c, Seeds: preSeeds, Alphabet: alphaRPC, MaxDepth: 1}
	if quick {
		p4.Seeds = seeds
	}
	p4.Pre, p4.Post = mkPre(p4, false), mkPost(false)
	st4 := e1.Run(p4)
	st4.Report(c, "rpc_")

	// read-only transactions never modify state
	ro, roRPC := 0, 0
	for _, ops := range preSeeds {
		w := world.New()
		w.ApplyAll(ops)
		before := w.Dump(full)
		var tops structs.TxnOps
		for _, pt := range parts {
			if !pt.read {
				continue
			}
			o, ok := pt.tp.Build(w)
			if ok {
				tops = append(tops, o)
			}
		}
		srv, err := ep.Open(w)
		if err != nil {
			c.HarnessError("endpoint server: " + err.Error())
			return
		}
		for i := range tops {
			for j := range tops {
				res, errs := w.Store().TxnRO(structs.TxnOps{tops[i], tops[j]})
				ro++
				// and through the Txn.Read RPC endpoint: same answer, still no change
				var reply structs.TxnReadResponse
				oi, oj := *tops[i], *tops[j]
				if err := srv.VS.Txn().Read(&structs.TxnReadRequest{Datacenter: cmdlib.DC, Ops: structs.TxnOps{&oi, &oj}}, &reply); err != nil {
					c.Violate("C05:txn-read-endpoint-error", "Txn.Read failed: "+err.Error(), map[string]any{"ops": names(ops)})
					continue
				}
				roRPC++
				if a, b := world.NormResult(structs.TxnResponse{Results: res, Errors: errs}), world.NormResult(structs.TxnResponse{Results: reply.Results, Errors: reply.Errors}); a != b {
					c.Violate("C05:txn-read-endpoint-differs-from-store", fmt.Sprintf("Txn.Read answers %s, the store's read-only transaction %s", b, a), map[string]any{"ops": names(ops)})
				}
			}
		}
		srv.Close()
		if tabs := world.DiffTables(before, w.Dump(full)); len(tabs) > 0 {
			c.Violate(fmt.Sprintf("C05:read-only-txn-changed-state:tables=%v", tabs), "a read-only transaction modified the store", map[string]any{"ops": names(ops)})
		}
	}
	c.Set("read_only_txns", ro)
	c.Set("read_only_txns_through_rpc_endpoint", roRPC)
	c.Set("parts", len(parts))
	c.Set("op_lists", len(lists))
	c.Set("rule", "pre-states = all states of a catalog/KV/session BFS; from each, every op list (length<=2 over all verbs, length 3 over a focused subset in thorough) as one Txn command; failing op at every position by construction")
	var pn []string
	for _, p := range parts {
		pn = append(pn, p.tp.Name)
	}
	c.Sample(map[string]any{"verbs": pn, "example_lists": names(alpha[len(parts) : len(parts)+5])})
	_ = sort.Strings
	_ = strings.Join
}

func failKinds(idx []int, parts []part, resp structs.TxnResponse) string {
	var k []string
	for _, e := range resp.Errors {
		if e.OpIndex < len(idx) {
			k = append(k, fmt.Sprintf("fail@%d=%s", e.OpIndex, parts[idx[e.OpIndex]].tp.Kind))
		}
	}
	var all []string
	for _, i := range idx {
		all = append(all, parts[i].tp.Kind)
	}
	return "ops=" + strings.Join(all, "+") + ":" + strings.Join(k, ",")
}

func names(ops []world.Op) []string {
	var n []string
	for _, o := range ops {
		n = append(n, o.Name)
	}
	return n
}

func (p *pre) clone() *world.World { return p.cloneFn() }

// nonZeroUsage drops usage rows whose count is zero: "no row" and "row with count 0" are the same
// observation for every reader of the usage table.
func nonZeroUsage(rows []string) []string {
	var out []string
	for _, r := range rows {
		if strings.Contains(r, "Count:") {
			out = append(out, r)
		}
	}
	return out
}

var differentialMsg = "transaction outcome differs from applying the same operations one by one"

func failedResult(r string) bool { return r == "false" || strings.HasPrefix(r, "err:") || strings.HasPrefix(r, "PANIC") }

func allHaveEquiv(idx []int, parts []part) bool {
	for _, i := range idx {
		if parts[i].equiv == nil {
			return false
		}
	}
	return true
}

// differential applies the stand-alone equivalents to ref (a clone of the pre-state) and compares
// with the post-transaction world w. Only called for transactions that reported success.
func differential(ref, w *world.World, idx []int, parts []part, masked *dump.Options) ([]string, string) {
	for _, i := range idx {
		if parts[i].guard {
			// the guard alone, on a state that already holds what the earlier operations did
			g := cmdlib.Txn(parts[i].tp)
			if r, ok := ref.Apply(g); ok {
				if resp, isResp := ref.LastRaw.(structs.TxnResponse); isResp && len(resp.Errors) > 0 {
					differentialMsg = "transaction reported success although its guard " + parts[i].tp.Name + " fails once the earlier operations of the same transaction are in effect (" + r + ")"
					return nil, "guard-did-not-see-earlier-operations:" + parts[i].tp.Kind
				}
			}
			continue
		}
		if parts[i].noop {
			continue
		}
		if parts[i].equiv == nil {
			return nil, ""
		}
		r, ok := ref.Apply(*parts[i].equiv)
		if !ok {
			return nil, ""
		}
		if failedResult(r) {
			differentialMsg = "transaction reported success although operation " + parts[i].tp.Name + " fails when applied alone (" + r + ")"
			return nil, "succeeded-but-op-fails-alone:" + parts[i].tp.Kind
		}
	}
	a, b := w.Dump(masked), ref.Dump(masked)
	a["usage"], b["usage"] = nonZeroUsage(a["usage"]), nonZeroUsage(b["usage"])
	delete(a, "index") // per-table index rows are compared by C06; masked values only
	delete(b, "index")
	if tabs := world.DiffTables(a, b); len(tabs) > 0 {
		differentialMsg = "transaction result differs from applying the same operations one by one:\n" + world.Diff(b, a, 8)
		return tabs, "not-equal-to-sequential"
	}
	return nil, ""
}

// stepwise applies the operations of a transaction - the same concrete operations, index arguments
// resolved against the pre-state exactly as in the transaction - as one-operation transactions, in
// order, to ref (a clone of the pre-state). A transaction is its operations in sequence or nothing:
// it must succeed iff every step does, and then leave the same data (indexes masked).
func stepwise(ref, w *world.World, idx []int, parts []part, masked *dump.Options, committed bool) ([]string, string, string) {
	var ops []*structs.TxnOp
	for _, i := range idx {
		o, ok := parts[i].tp.Build(ref)
		if !ok {
			return nil, "", ""
		}
		ops = append(ops, o)
	}
	for k, o := range ops {
		ref.ApplyReq("step:"+parts[idx[k]].tp.Name, structs.TxnRequestType, &structs.TxnRequest{Datacenter: cmdlib.DC, Ops: structs.TxnOps{o}})
		resp, isResp := ref.LastRaw.(structs.TxnResponse)
		if !isResp {
			return nil, "", ""
		}
		if len(resp.Errors) > 0 {
			if committed {
				return nil, "committed-although-a-step-fails-in-sequence:" + parts[idx[k]].tp.Kind,
					"transaction committed although operation " + parts[idx[k]].tp.Name + " fails when the operations are applied one after the other (" + resp.Errors[0].What + ")"
			}
			return nil, "", ""
		}
	}
	if !committed {
		return nil, "failed-although-every-step-succeeds-in-sequence", "transaction failed although each of its operations succeeds when they are applied one after the other as one-operation transactions"
	}
	a, b := w.Dump(masked), ref.Dump(masked)
	a["usage"], b["usage"] = nonZeroUsage(a["usage"]), nonZeroUsage(b["usage"])
	delete(a, "index")
	delete(b, "index")
	if tabs := world.DiffTables(a, b); len(tabs) > 0 {
		return tabs, "not-equal-to-its-operations-in-sequence", "transaction result differs from applying its operations one after the other:\n" + world.Diff(b, a, 8)
	}
	return nil, "", ""
}

// casMustFail: the documented condition of the catalog / KV conditional verbs on the given store. Returns
// why the operation has to be refused, or "" when the condition holds or the verb is not conditional.
func casMustFail(st *state.Store, o *structs.TxnOp) string {
	mismatch := func(what string, supplied uint64, exists bool, cur uint64, isDelete bool) string {
		switch {
		case isDelete && !exists:
			return "" // nothing to delete: vacuous
		case !isDelete && supplied == 0 && exists:
			return fmt.Sprintf("index 0 means create-only and %s exists", what)
		case supplied != 0 && !exists:
			return fmt.Sprintf("it presents index %d and %s does not exist", supplied, what)
		case exists && supplied != 0 && supplied != cur:
			return fmt.Sprintf("it presents index %d and %s is at %d", supplied, what, cur)
		case isDelete && exists && supplied == 0:
			return fmt.Sprintf("it presents index 0 and %s is at %d", what, cur)
		}
		return ""
	}
	switch {
	case o.KV != nil:
		_, e, _ := st.KVSGet(nil, o.KV.DirEnt.Key, nil)
		var cur uint64
		if e != nil {
			cur = e.ModifyIndex
		}
		switch o.KV.Verb {
		case api.KVCAS:
			return mismatch("the key", o.KV.DirEnt.ModifyIndex, e != nil, cur, false)
		case api.KVDeleteCAS:
			return mismatch("the key", o.KV.DirEnt.ModifyIndex, e != nil, cur, true)
		case api.KVCheckIndex:
			if e == nil {
				return "the key does not exist"
			}
			if o.KV.DirEnt.ModifyIndex != cur {
				return fmt.Sprintf("it presents index %d and the key is at %d", o.KV.DirEnt.ModifyIndex, cur)
			}
		}
	case o.Node != nil:
		_, n, _ := st.GetNode(o.Node.Node.Node, nil, o.Node.Node.PeerName)
		var cur uint64
		if n != nil {
			cur = n.ModifyIndex
		}
		switch o.Node.Verb {
		case api.NodeCAS:
			return mismatch("the node", o.Node.Node.ModifyIndex, n != nil, cur, false)
		case api.NodeDeleteCAS:
			return mismatch("the node", o.Node.Node.ModifyIndex, n != nil, cur, true)
		}
	case o.Service != nil:
		_, sv, _ := st.NodeService(nil, o.Service.Node, o.Service.Service.ID, &o.Service.Service.EnterpriseMeta, o.Service.Service.PeerName)
		var cur uint64
		if sv != nil {
			cur = sv.ModifyIndex
		}
		switch o.Service.Verb {
		case api.ServiceCAS:
			return mismatch("the service instance", o.Service.Service.ModifyIndex, sv != nil, cur, false)
		case api.ServiceDeleteCAS:
			return mismatch("the service instance", o.Service.Service.ModifyIndex, sv != nil, cur, true)
		}
	case o.Check != nil:
		_, hc, _ := st.NodeCheck(o.Check.Check.Node, o.Check.Check.CheckID, &o.Check.Check.EnterpriseMeta, o.Check.Check.PeerName)
		var cur uint64
		if hc != nil {
			cur = hc.ModifyIndex
		}
		switch o.Check.Verb {
		case api.CheckCAS:
			return mismatch("the check", o.Check.Check.ModifyIndex, hc != nil, cur, false)
		case api.CheckDeleteCAS:
			return mismatch("the check", o.Check.Check.ModifyIndex, hc != nil, cur, true)
		}
	}
	return ""
}
