// Package vatomic stands in for package sync/atomic in the packages whose synchronisation operations are
// scheduling points (import rewritten by bin/mkoverlay.py). Without a running exploration everything is
// exactly sync/atomic; under one, every Load/Store/Add/Swap/CompareAndSwap function and every method of
// Value is preceded by a scheduling point, so code between two atomic operations that is not covered by a
// (modelled) lock can be interleaved with other threads. Every exported identifier of sync/atomic is
// re-exported so that an edit that starts using another one still compiles.
package vatomic

import (
	"sync/atomic"
	"unsafe"

	"github.com/hashicorp/consul/internal/verifmc/sched"
)

type (
	Bool           = atomic.Bool
	Int32          = atomic.Int32
	Int64          = atomic.Int64
	Uint32         = atomic.Uint32
	Uint64         = atomic.Uint64
	Uintptr        = atomic.Uintptr
	Pointer[T any] = atomic.Pointer[T]
)

// Value is atomic.Value whose operations are scheduling points.
type Value struct{ v atomic.Value }

func (v *Value) Load() any                    { sched.AtomicPoint(); return v.v.Load() }
func (v *Value) Store(x any)                  { sched.AtomicPoint(); v.v.Store(x) }
func (v *Value) Swap(x any) any               { sched.AtomicPoint(); return v.v.Swap(x) }
func (v *Value) CompareAndSwap(o, n any) bool { sched.AtomicPoint(); return v.v.CompareAndSwap(o, n) }

func LoadPointer(addr *unsafe.Pointer) unsafe.Pointer { sched.AtomicPoint(); return atomic.LoadPointer(addr) }
func StorePointer(addr *unsafe.Pointer, v unsafe.Pointer) {
	sched.AtomicPoint()
	atomic.StorePointer(addr, v)
}
func SwapPointer(addr *unsafe.Pointer, v unsafe.Pointer) unsafe.Pointer {
	sched.AtomicPoint()
	return atomic.SwapPointer(addr, v)
}
func CompareAndSwapPointer(addr *unsafe.Pointer, o, n unsafe.Pointer) bool {
	sched.AtomicPoint()
	return atomic.CompareAndSwapPointer(addr, o, n)
}

func LoadInt32(addr *int32) int32          { sched.AtomicPoint(); return atomic.LoadInt32(addr) }
func StoreInt32(addr *int32, v int32)      { sched.AtomicPoint(); atomic.StoreInt32(addr, v) }
func AddInt32(addr *int32, d int32) int32  { sched.AtomicPoint(); return atomic.AddInt32(addr, d) }
func SwapInt32(addr *int32, v int32) int32 { sched.AtomicPoint(); return atomic.SwapInt32(addr, v) }
func CompareAndSwapInt32(addr *int32, o, n int32) bool {
	sched.AtomicPoint()
	return atomic.CompareAndSwapInt32(addr, o, n)
}
func AndInt32(addr *int32, m int32) int32 { sched.AtomicPoint(); return atomic.AndInt32(addr, m) }
func OrInt32(addr *int32, m int32) int32  { sched.AtomicPoint(); return atomic.OrInt32(addr, m) }

func LoadInt64(addr *int64) int64          { sched.AtomicPoint(); return atomic.LoadInt64(addr) }
func StoreInt64(addr *int64, v int64)      { sched.AtomicPoint(); atomic.StoreInt64(addr, v) }
func AddInt64(addr *int64, d int64) int64  { sched.AtomicPoint(); return atomic.AddInt64(addr, d) }
func SwapInt64(addr *int64, v int64) int64 { sched.AtomicPoint(); return atomic.SwapInt64(addr, v) }
func CompareAndSwapInt64(addr *int64, o, n int64) bool {
	sched.AtomicPoint()
	return atomic.CompareAndSwapInt64(addr, o, n)
}
func AndInt64(addr *int64, m int64) int64 { sched.AtomicPoint(); return atomic.AndInt64(addr, m) }
func OrInt64(addr *int64, m int64) int64  { sched.AtomicPoint(); return atomic.OrInt64(addr, m) }

func LoadUint32(addr *uint32) uint32           { sched.AtomicPoint(); return atomic.LoadUint32(addr) }
func StoreUint32(addr *uint32, v uint32)       { sched.AtomicPoint(); atomic.StoreUint32(addr, v) }
func AddUint32(addr *uint32, d uint32) uint32  { sched.AtomicPoint(); return atomic.AddUint32(addr, d) }
func SwapUint32(addr *uint32, v uint32) uint32 { sched.AtomicPoint(); return atomic.SwapUint32(addr, v) }
func CompareAndSwapUint32(addr *uint32, o, n uint32) bool {
	sched.AtomicPoint()
	return atomic.CompareAndSwapUint32(addr, o, n)
}
func AndUint32(addr *uint32, m uint32) uint32 { sched.AtomicPoint(); return atomic.AndUint32(addr, m) }
func OrUint32(addr *uint32, m uint32) uint32  { sched.AtomicPoint(); return atomic.OrUint32(addr, m) }

func LoadUint64(addr *uint64) uint64           { sched.AtomicPoint(); return atomic.LoadUint64(addr) }
func StoreUint64(addr *uint64, v uint64)       { sched.AtomicPoint(); atomic.StoreUint64(addr, v) }
func AddUint64(addr *uint64, d uint64) uint64  { sched.AtomicPoint(); return atomic.AddUint64(addr, d) }
func SwapUint64(addr *uint64, v uint64) uint64 { sched.AtomicPoint(); return atomic.SwapUint64(addr, v) }
func CompareAndSwapUint64(addr *uint64, o, n uint64) bool {
	sched.AtomicPoint()
	return atomic.CompareAndSwapUint64(addr, o, n)
}
func AndUint64(addr *uint64, m uint64) uint64 { sched.AtomicPoint(); return atomic.AndUint64(addr, m) }
func OrUint64(addr *uint64, m uint64) uint64  { sched.AtomicPoint(); return atomic.OrUint64(addr, m) }

func LoadUintptr(addr *uintptr) uintptr            { sched.AtomicPoint(); return atomic.LoadUintptr(addr) }
func StoreUintptr(addr *uintptr, v uintptr)        { sched.AtomicPoint(); atomic.StoreUintptr(addr, v) }
func AddUintptr(addr *uintptr, d uintptr) uintptr  { sched.AtomicPoint(); return atomic.AddUintptr(addr, d) }
func SwapUintptr(addr *uintptr, v uintptr) uintptr { sched.AtomicPoint(); return atomic.SwapUintptr(addr, v) }
func CompareAndSwapUintptr(addr *uintptr, o, n uintptr) bool {
	sched.AtomicPoint()
	return atomic.CompareAndSwapUintptr(addr, o, n)
}
func AndUintptr(addr *uintptr, m uintptr) uintptr { sched.AtomicPoint(); return atomic.AndUintptr(addr, m) }
func OrUintptr(addr *uintptr, m uintptr) uintptr  { sched.AtomicPoint(); return atomic.OrUintptr(addr, m) }
