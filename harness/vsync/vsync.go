// Package vsync stands in for package sync in the packages whose locks are scheduling points
// (import rewritten by bin/mkoverlay.py). Without a running exploration every type behaves exactly
// like its sync counterpart; under one, Lock/RLock are scheduling points and lock state is modelled.
package vsync

import (
	"sync"

	"github.com/hashicorp/consul/internal/verifmc/sched"
)

type (
	Once      = sync.Once
	WaitGroup = sync.WaitGroup
	Pool      = sync.Pool
	Map       = sync.Map
	Cond      = sync.Cond
	Locker    = sync.Locker
)

var NewCond = sync.NewCond

type Mutex struct {
	real sync.Mutex
	m    sched.Lockable
}

func (m *Mutex) Lock() {
	if r := sched.Active(); r != nil {
		r.Acquire(&m.m, true)
		return
	}
	m.real.Lock()
}

func (m *Mutex) Unlock() {
	if sched.Active() != nil {
		if !m.m.Writer {
			panic("vsync: unlock of unlocked mutex")
		}
		m.m.Writer = false
		return
	}
	m.real.Unlock()
}

func (m *Mutex) TryLock() bool {
	if sched.Active() != nil {
		if m.m.Writer {
			return false
		}
		m.m.Writer = true
		return true
	}
	return m.real.TryLock()
}

type RWMutex struct {
	real sync.RWMutex
	m    sched.Lockable
}

func (m *RWMutex) Lock() {
	if r := sched.Active(); r != nil {
		r.Acquire(&m.m, true)
		return
	}
	m.real.Lock()
}

func (m *RWMutex) Unlock() {
	if sched.Active() != nil {
		m.m.Writer = false
		return
	}
	m.real.Unlock()
}

func (m *RWMutex) RLock() {
	if r := sched.Active(); r != nil {
		r.Acquire(&m.m, false)
		return
	}
	m.real.RLock()
}

func (m *RWMutex) RUnlock() {
	if sched.Active() != nil {
		m.m.Readers--
		return
	}
	m.real.RUnlock()
}

func (m *RWMutex) RLocker() Locker { return (*rlocker)(m) }

type rlocker RWMutex

func (r *rlocker) Lock()   { (*RWMutex)(r).RLock() }
func (r *rlocker) Unlock() { (*RWMutex)(r).RUnlock() }
