// Package c14: the proxy authorization policy enforces exactly the intention decision
// (translation validation of makeRBACRules against an independent Envoy RBAC evaluator).
package c14

import (
	"fmt"
	"regexp"
	"runtime"
	"sort"
	"strings"
	"sync"
	"sync/atomic"

	envoy_rbac_v3 "github.com/envoyproxy/go-control-plane/envoy/config/rbac/v3"
	envoy_route_v3 "github.com/envoyproxy/go-control-plane/envoy/config/route/v3"
	envoy_matcher_v3 "github.com/envoyproxy/go-control-plane/envoy/type/matcher/v3"

	"github.com/hashicorp/consul/agent/structs"
	"github.com/hashicorp/consul/agent/xds"
	"github.com/hashicorp/consul/internal/verifmc/ev"
	"github.com/hashicorp/consul/proto/private/pbpeering"
)

const (
	localTD = "11111111-2222-3333-4444-555555555555.consul"
	peerTD  = "99999999-8888-7777-6666-555555555555.consul"
)

// ---- request model --------------------------------------------------------------------------

type request struct {
	label     string
	principal string            // URI SAN of the peer certificate
	headers   map[string]string // incl. :method and x-forwarded-client-cert
	path      string
	// who this caller really is, for the reference
	peer, name string
	known      bool // identity is one the mesh vouches for (else only the default policy applies)
}

// ---- Envoy RBAC evaluator ---------------------------------------------------------------------

var reCache sync.Map

func fullMatch(re, s string) bool {
	v, ok := reCache.Load(re)
	if !ok {
		c, err := regexp.Compile("^(?:" + re + ")$")
		if err != nil {
			c = nil
		}
		v = c
		reCache.Store(re, v)
	}
	c, _ := v.(*regexp.Regexp)
	return c != nil && c.MatchString(s)
}

func matchString(m *envoy_matcher_v3.StringMatcher, s string) bool {
	if m == nil {
		return false
	}
	fold := func(x string) string {
		if m.IgnoreCase {
			return strings.ToLower(x)
		}
		return x
	}
	switch p := m.MatchPattern.(type) {
	case *envoy_matcher_v3.StringMatcher_Exact:
		return fold(s) == fold(p.Exact)
	case *envoy_matcher_v3.StringMatcher_Prefix:
		return strings.HasPrefix(fold(s), fold(p.Prefix))
	case *envoy_matcher_v3.StringMatcher_Suffix:
		return strings.HasSuffix(fold(s), fold(p.Suffix))
	case *envoy_matcher_v3.StringMatcher_Contains:
		return strings.Contains(fold(s), fold(p.Contains))
	case *envoy_matcher_v3.StringMatcher_SafeRegex:
		return fullMatch(p.SafeRegex.Regex, s)
	}
	return false
}

func matchHeader(h *envoy_route_v3.HeaderMatcher, q *request) bool {
	v, present := q.headers[strings.ToLower(h.Name)]
	var r bool
	switch s := h.HeaderMatchSpecifier.(type) {
	case *envoy_route_v3.HeaderMatcher_PresentMatch:
		r = present == s.PresentMatch
	case *envoy_route_v3.HeaderMatcher_StringMatch:
		r = present && matchString(s.StringMatch, v)
	default:
		r = present // a matcher without specifier matches when the header is present
	}
	if h.InvertMatch {
		return !r
	}
	return r
}

func matchPrincipal(p *envoy_rbac_v3.Principal, q *request) bool {
	switch id := p.Identifier.(type) {
	case *envoy_rbac_v3.Principal_Any:
		return id.Any
	case *envoy_rbac_v3.Principal_AndIds:
		for _, x := range id.AndIds.Ids {
			if !matchPrincipal(x, q) {
				return false
			}
		}
		return true
	case *envoy_rbac_v3.Principal_OrIds:
		for _, x := range id.OrIds.Ids {
			if matchPrincipal(x, q) {
				return true
			}
		}
		return false
	case *envoy_rbac_v3.Principal_NotId:
		return !matchPrincipal(id.NotId, q)
	case *envoy_rbac_v3.Principal_Authenticated_:
		if id.Authenticated.PrincipalName == nil {
			return q.principal != ""
		}
		return matchString(id.Authenticated.PrincipalName, q.principal)
	case *envoy_rbac_v3.Principal_Header:
		return matchHeader(id.Header, q)
	}
	panic(fmt.Sprintf("evaluator: unsupported principal %T", p.Identifier))
}

func matchPermission(p *envoy_rbac_v3.Permission, q *request) bool {
	switch r := p.Rule.(type) {
	case *envoy_rbac_v3.Permission_Any:
		return r.Any
	case *envoy_rbac_v3.Permission_AndRules:
		for _, x := range r.AndRules.Rules {
			if !matchPermission(x, q) {
				return false
			}
		}
		return true
	case *envoy_rbac_v3.Permission_OrRules:
		for _, x := range r.OrRules.Rules {
			if matchPermission(x, q) {
				return true
			}
		}
		return false
	case *envoy_rbac_v3.Permission_NotRule:
		return !matchPermission(r.NotRule, q)
	case *envoy_rbac_v3.Permission_Header:
		return matchHeader(r.Header, q)
	case *envoy_rbac_v3.Permission_UrlPath:
		if pm, ok := r.UrlPath.Rule.(*envoy_matcher_v3.PathMatcher_Path); ok {
			return matchString(pm.Path, q.path)
		}
		return false
	}
	panic(fmt.Sprintf("evaluator: unsupported permission %T", p.Rule))
}

// rbacAllows implements Envoy's RBAC filter: a policy matches iff some permission and some
// principal match; ALLOW => allowed iff some policy matches; DENY => denied iff some policy matches.
func rbacAllows(r *envoy_rbac_v3.RBAC, q *request) bool {
	hit := false
	for _, pol := range r.Policies {
		pm, prm := false, false
		for _, p := range pol.Principals {
			if matchPrincipal(p, q) {
				pm = true
			}
		}
		for _, p := range pol.Permissions {
			if matchPermission(p, q) {
				prm = true
			}
		}
		if pm && prm {
			hit = true
		}
	}
	if r.Action == envoy_rbac_v3.RBAC_ALLOW {
		return hit
	}
	return !hit
}

// ---- reference intention semantics --------------------------------------------------------------

type perm struct {
	label string
	allow bool
	match func(q *request) bool
	def   *structs.IntentionPermission
}

type ixn struct {
	src, peer string
	dstWild   bool   // the intention names the wildcard destination (it applies to this destination too, at lower precedence)
	action    string // allow | deny | l7
	perms     []perm
}

func (i ixn) String() string {
	p := ""
	if i.peer != "" {
		p = "~" + i.peer
	}
	a := i.action
	if a == "l7" {
		var ls []string
		for _, x := range i.perms {
			ls = append(ls, x.label)
		}
		a = "l7[" + strings.Join(ls, ",") + "]"
	}
	if i.dstWild {
		p += "->*"
	}
	return i.src + p + ":" + a
}

func refAllows(set []ixn, q *request, dflt bool, isHTTP bool) bool {
	if !q.known {
		return dflt
	}
	var best *ixn
	for k := range set {
		i := &set[k]
		if i.peer != q.peer || (i.src != "*" && i.src != q.name) {
			continue
		}
		// destination specificity before source specificity
		rank := func(x *ixn) int {
			r := 0
			if !x.dstWild {
				r += 2
			}
			if x.src != "*" {
				r++
			}
			return r
		}
		if best == nil || rank(i) > rank(best) {
			best = i
		}
	}
	if best == nil {
		return dflt
	}
	switch best.action {
	case "allow":
		return true
	case "deny":
		return false
	}
	if !isHTTP {
		return false // L7 intentions on a TCP listener deny
	}
	for _, p := range best.perms {
		if p.match(q) {
			return p.allow
		}
	}
	return dflt
}

// ---- universe ---------------------------------------------------------------------------------------

func httpPerm(label string, allow bool, h *structs.IntentionHTTPPermission, m func(q *request) bool) perm {
	act := structs.IntentionActionDeny
	if allow {
		act = structs.IntentionActionAllow
	}
	return perm{label: label, allow: allow, match: m, def: &structs.IntentionPermission{Action: act, HTTP: h}}
}

func permMenu() []perm {
	return []perm{
		httpPerm("allow path=/admin", true, &structs.IntentionHTTPPermission{PathExact: "/admin"}, func(q *request) bool { return q.path == "/admin" }),
		httpPerm("deny prefix=/admin", false, &structs.IntentionHTTPPermission{PathPrefix: "/admin"}, func(q *request) bool { return strings.HasPrefix(q.path, "/admin") }),
		httpPerm("allow regex=/ad.+n", true, &structs.IntentionHTTPPermission{PathRegex: "/ad.+n"}, func(q *request) bool { return fullMatch("/ad.+n", q.path) }),
		httpPerm("allow methods=GET|PUT", true, &structs.IntentionHTTPPermission{Methods: []string{"GET", "PUT"}}, func(q *request) bool { m := q.headers[":method"]; return m == "GET" || m == "PUT" }),
		httpPerm("deny header x-test present", false, &structs.IntentionHTTPPermission{Header: []structs.IntentionHTTPHeaderPermission{{Name: "x-test", Present: true}}}, func(q *request) bool { _, ok := q.headers["x-test"]; return ok }),
		httpPerm("allow header x-test!=v", true, &structs.IntentionHTTPPermission{Header: []structs.IntentionHTTPHeaderPermission{{Name: "x-test", Exact: "v", Invert: true}}}, func(q *request) bool { return q.headers["x-test"] != "v" }),
		httpPerm("deny prefix=/ + methods=POST", false, &structs.IntentionHTTPPermission{PathPrefix: "/", Methods: []string{"POST"}}, func(q *request) bool { return strings.HasPrefix(q.path, "/") && q.headers[":method"] == "POST" }),
	}
}

func spiffe(td, name string) string { return "spiffe://" + td + "/ns/default/dc/dc1/svc/" + name }

func callers(isHTTP bool, withBundles bool) []request {
	var out []request
	for _, n := range []string{"web.v1", "webxv1", "a+b", "aab", "ab", "other"} {
		out = append(out, request{label: "local:" + n, principal: spiffe(localTD, n), name: n, known: true})
	}
	// same path under a foreign trust domain
	out = append(out, request{label: "foreign-td:web.v1", principal: spiffe("evil.consul", "web.v1"), known: false})
	gw := "spiffe://" + localTD + "/gateway/mesh/dc/dc1"
	for _, n := range []string{"web.v1", "webxv1", "other"} {
		if isHTTP && withBundles {
			// peered L7 traffic arrives from our own mesh gateway with the original identity in XFCC
			out = append(out, request{label: "peer:" + n + " via gateway", principal: gw, peer: "p1", name: n, known: true,
				headers: map[string]string{"x-forwarded-client-cert": "By=" + gw + ";Hash=abc;URI=" + strings.Replace(spiffe(peerTD, n), "/dc/dc1/", "/dc/dc2/", 1)}})
			// a local service forging the header
			out = append(out, request{label: "local:other forging xfcc of peer " + n, principal: spiffe(localTD, "other"), name: "other", known: true,
				headers: map[string]string{"x-forwarded-client-cert": "By=x;Hash=abc;URI=" + strings.Replace(spiffe(peerTD, n), "/dc/dc1/", "/dc/dc2/", 1)}})
		} else {
			out = append(out, request{label: "peer:" + n, principal: strings.Replace(spiffe(peerTD, n), "/dc/dc1/", "/dc/dc2/", 1), peer: "p1", name: n, known: true})
		}
	}
	return out
}

func requests(base request, isHTTP bool) []request {
	if !isHTTP {
		return []request{base}
	}
	var out []request
	for _, path := range []string{"/", "/admin", "/admin/x", "/adminx", "/adxn"} {
		for _, m := range []string{"GET", "POST"} {
			for _, hv := range []string{"<absent>", "v", "w"} {
				q := base
				q.path = path
				q.headers = map[string]string{":method": m}
				for k, v := range base.headers {
					q.headers[k] = v
				}
				if hv != "<absent>" {
					q.headers["x-test"] = hv
				}
				q.label = fmt.Sprintf("%s %s %s x-test=%s", base.label, m, path, hv)
				out = append(out, q)
			}
		}
	}
	return out
}

func toIntentions(set []ixn) structs.SimplifiedIntentions {
	var out structs.SimplifiedIntentions
	for _, i := range set {
		x := &structs.Intention{SourceNS: "default", SourceName: i.src, SourcePeer: i.peer, DestinationNS: "default", DestinationName: "dest",
			SourcePartition: "default", DestinationPartition: "default", SourceType: structs.IntentionSourceConsul}
		if i.dstWild {
			x.DestinationName = "*"
		}
		switch i.action {
		case "allow":
			x.Action = structs.IntentionActionAllow
		case "deny":
			x.Action = structs.IntentionActionDeny
		default:
			for _, p := range i.perms {
				x.Permissions = append(x.Permissions, p.def.Clone())
			}
		}
		//nolint:staticcheck
		x.UpdatePrecedence()
		out = append(out, x)
	}
	sort.SliceStable(out, func(a, b int) bool { return structs.IntentionPrecedenceSorter(out).Less(a, b) })
	return out
}

func Run(c *ev.Ctx) {
	quick := c.Quick()
	pm := permMenu()
	// source tuples
	type st struct {
		src, peer string
		dstWild   bool
	}
	tuples := []st{{"web.v1", "", false}, {"a+b", "", false}, {"*", "", false}, {"web.v1", "p1", false}, {"other", "p1", false},
		// intentions on the wildcard destination: they are part of every destination's match list, below the ones naming it
		{"web.v1", "", true}, {"*", "", true}, {"web.v1", "p1", true}}
	var actions []ixn
	actions = append(actions, ixn{action: "allow"}, ixn{action: "deny"})
	for i := range pm {
		actions = append(actions, ixn{action: "l7", perms: []perm{pm[i]}})
	}
	l7pairs := [][2]int{{0, 1}, {1, 0}, {2, 1}, {3, 4}, {4, 3}, {5, 1}, {6, 3}, {1, 3}}
	corePair := map[string]bool{}
	for _, p := range l7pairs {
		corePair[pm[p[0]].label+"|"+pm[p[1]].label] = true
	}
	if !quick {
		l7pairs = nil
		for i := range pm {
			for j := range pm {
				if i != j {
					l7pairs = append(l7pairs, [2]int{i, j})
				}
			}
		}
	}
	for _, p := range l7pairs {
		actions = append(actions, ixn{action: "l7", perms: []perm{pm[p[0]], pm[p[1]]}})
	}
	maxK := 2
	if !quick {
		maxK = 3
	}
	var programs [][]ixn
	var rec func(start int, cur []ixn)
	rec = func(start int, cur []ixn) {
		if len(cur) > 0 {
			programs = append(programs, append([]ixn{}, cur...))
		}
		if len(cur) == maxK {
			return
		}
		for t := start; t < len(tuples); t++ {
			for ai, a := range actions {
				if len(cur) >= 1 && a.action == "l7" && len(a.perms) == 2 && quick && ai%2 == 0 {
					continue
				}
				// thorough: all ordered permission pairs for sets of up to two intentions; a third intention
				// carries allow / deny / a single permission / one of the eight core pairs (else 51^3 programs)
				if !quick && len(cur) >= 2 && a.action == "l7" && len(a.perms) == 2 && !corePair[a.perms[0].label+"|"+a.perms[1].label] {
					continue
				}
				x := a
				x.src, x.peer, x.dstWild = tuples[t].src, tuples[t].peer, tuples[t].dstWild
				if x.dstWild && x.action == "l7" {
					continue // permissions need a destination with an http protocol; a wildcard destination carries allow / deny
				}
				rec(t+1, append(append([]ixn{}, cur...), x))
			}
		}
	}
	rec(0, nil)
	bundles := []*pbpeering.PeeringTrustBundle{{PeerName: "p1", TrustDomain: peerTD, ExportedPartition: "default"}}

	var evals, progs, disagreements int64
	outcomes := sync.Map{}
	var next int64 = -1
	var wg sync.WaitGroup
	for w := 0; w < runtime.NumCPU(); w++ {
		wg.Add(1)
		go func() {
			defer wg.Done()
			for {
				pi := int(atomic.AddInt64(&next, 1))
				if pi >= len(programs) || c.Expired() {
					return
				}
				set := programs[pi]
				hasL7, hasPeer := false, false
				for _, i := range set {
					if i.action == "l7" {
						hasL7 = true
					}
					if i.peer != "" {
						hasPeer = true
					}
				}
				// the proxy gets these intentions out of service-intentions config entries: written as a client would after a
				// read-modify-write (every source still carrying the precedence number another source shape had), normalized
				// and flattened, they have to be the very list the program stands for
				if got, want := renderIxns(viaEntries(set)), renderIxns(toIntentions(set)); got != want {
					c.Violate("C14:config-entry-flattening-differs-from-the-program", fmt.Sprintf("intentions %v written as service-intentions entries (sources carrying stale precedence values) flatten to\n  %s\nthe precedence rules give\n  %s", set, got, want),
						map[string]any{"program": fmt.Sprint(set)})
				}
				for _, isHTTP := range []bool{false, true} {
					for _, dflt := range []bool{false, true} {
						for _, withBundles := range []bool{true, false} {
							if !withBundles && !hasPeer {
								continue
							}
							var b []*pbpeering.PeeringTrustBundle
							if withBundles {
								b = bundles
							}
							rb, err := safeTranslate(toIntentions(set), dflt, isHTTP, b)
							atomic.AddInt64(&progs, 1)
							desc := fmt.Sprintf("intentions on dest: %v; default allow=%v; http=%v; trust bundles=%v", set, dflt, isHTTP, withBundles)
							if err != nil {
								c.Violate("C14:translation-failed", err.Error()+"\n"+desc, map[string]any{"program": fmt.Sprint(set)})
								continue
							}
							for _, base := range callers(isHTTP, withBundles) {
								if base.peer != "" && !withBundles {
									continue // without the peer's trust bundle its identities cannot be expressed
								}
								for _, q := range requests(base, isHTTP && hasL7) {
									q := q
									got := rbacAllows(rb, &q)
									want := refAllows(set, &q, dflt, isHTTP)
									atomic.AddInt64(&evals, 1)
									outcomes.Store(fmt.Sprintf("%v/%v/http=%v", got, dflt, isHTTP), true)
									if got != want {
										atomic.AddInt64(&disagreements, 1)
										kind := "allows-what-intentions-deny"
										if !got {
											kind = "denies-what-intentions-allow"
										}
										cls := "local-caller"
										if q.peer != "" {
											cls = "peer-caller"
										} else if !q.known {
											cls = "foreign-trust-domain"
										} else if strings.Contains(q.label, "forging") {
											cls = "forged-xfcc"
										}
										near := ""
										if q.name == "webxv1" || q.name == "aab" || q.name == "ab" {
											near = ":near-miss-name"
										}
										c.Violate(fmt.Sprintf("C14:rbac-%s:%s%s:http=%v", kind, cls, near, isHTTP),
											fmt.Sprintf("caller %q: the generated RBAC policy allows=%v, the intention precedence rules give allows=%v\n%s", q.label, got, want, desc),
											map[string]any{"program": fmt.Sprint(set), "default_allow": dflt, "http": isHTTP, "caller": q.label})
									}
								}
							}
						}
					}
				}
			}
		}()
	}
	wg.Wait()
	n := 0
	outcomes.Range(func(k, v any) bool { n++; return true })
	c.Set("programs", progs)
	c.Set("disagreements_checked", evals)
	c.Set("evaluations", evals)
	c.Set("distinct_nontrivial", len(programs))
	c.Set("intention_sets", len(programs))
	c.Set("rule", "programs = every set of <=K intentions applying to one destination (naming it, or naming the wildcard destination: sources web.v1, * and web.v1 from peer p1) over sources {web.v1, a+b, *} local and {web.v1, other} from peer p1, actions allow/deny/L7 permission lists (path exact/prefix/regex, methods, header present/exact+invert), x TCP/HTTP x both defaults x with/without the peer trust bundle; each translated by the real makeRBACRules and evaluated by an independent Envoy RBAC evaluator for every caller identity (mentioned names, fresh, regex near-misses webxv1/aab/ab, foreign trust domain, peered via gateway+XFCC, forged XFCC) and for HTTP every request in {5 paths}x{GET,POST}x{x-test absent,v,w}")
	c.Sample(map[string]any{"example_program": fmt.Sprint(programs[len(programs)/2]), "callers": len(callers(true, true))})
	c.Assume("the evaluator implements Envoy's documented RBAC semantics (policy = any principal AND any permission; safe_regex is a full match; Go's RE2 dialect equals Envoy's)")
}

func safeTranslate(ixns structs.SimplifiedIntentions, dflt, isHTTP bool, b []*pbpeering.PeeringTrustBundle) (rb *envoy_rbac_v3.RBAC, err error) {
	defer func() {
		if p := recover(); p != nil {
			err = fmt.Errorf("panic in makeRBACRules: %v", p)
		}
	}()
	return xds.VerifMakeRBACRules(ixns, dflt, localTD, "dc1", "default", isHTTP, b)
}

func renderIxns(l structs.SimplifiedIntentions) string {
	var out []string
	for _, x := range l {
		a := string(x.Action)
		if len(x.Permissions) > 0 {
			a = fmt.Sprintf("l7(%d)", len(x.Permissions))
		}
		out = append(out, fmt.Sprintf("%s~%s->%s:%s/p%d", x.SourceName, x.SourcePeer, x.DestinationName, a, x.Precedence))
	}
	return strings.Join(out, " ")
}

// viaEntries builds the service-intentions config entries (one for the destination, one for the wildcard destination)
// whose sources are the program's intentions, each source carrying a precedence value that fits another source shape,
// and returns what Normalize + ToIntentions + the precedence sort make of them.
func viaEntries(set []ixn) structs.SimplifiedIntentions {
	byDst := map[string]*structs.ServiceIntentionsConfigEntry{}
	for _, i := range set {
		dst := "dest"
		if i.dstWild {
			dst = "*"
		}
		e := byDst[dst]
		if e == nil {
			e = &structs.ServiceIntentionsConfigEntry{Kind: structs.ServiceIntentions, Name: dst}
			byDst[dst] = e
		}
		src := &structs.SourceIntention{Name: i.src, Peer: i.peer, Type: structs.IntentionSourceConsul}
		// stale: the number the *other* source shape (exact vs wildcard) would have
		src.Precedence = 8
		if i.src == "*" {
			src.Precedence = 9
		}
		switch i.action {
		case "allow":
			src.Action = structs.IntentionActionAllow
		case "deny":
			src.Action = structs.IntentionActionDeny
		default:
			for _, p := range i.perms {
				src.Permissions = append(src.Permissions, p.def.Clone())
			}
		}
		e.Sources = append(e.Sources, src)
	}
	var out structs.SimplifiedIntentions
	for _, dst := range []string{"dest", "*"} {
		e := byDst[dst]
		if e == nil {
			continue
		}
		if err := e.Normalize(); err != nil {
			continue
		}
		for _, x := range e.ToIntentions() {
			out = append(out, x)
		}
	}
	sort.SliceStable(out, func(a, b int) bool { return structs.IntentionPrecedenceSorter(out).Less(a, b) })
	return out
}
