// Package vtimer is package vtime with harness-owned timers: AfterFunc registers the callback and
// nothing fires until the harness calls Fire. Used for packages whose timer-driven transition is part
// of the property (agent/local: deferred check output). GENERATED from harness/vtime/vtime.go by hand
// (keep the re-export lists in step).
package vtimer

import (
	"os"
	"sync"
	"sync/atomic"
	"time"
)

type (
	Duration   = time.Duration
	Location   = time.Location
	Month      = time.Month
	ParseError = time.ParseError
	Ticker     = time.Ticker
	Time       = time.Time
	Weekday    = time.Weekday
)

const (
	Layout      = time.Layout
	ANSIC       = time.ANSIC
	UnixDate    = time.UnixDate
	RubyDate    = time.RubyDate
	RFC822      = time.RFC822
	RFC822Z     = time.RFC822Z
	RFC850      = time.RFC850
	RFC1123     = time.RFC1123
	RFC1123Z    = time.RFC1123Z
	RFC3339     = time.RFC3339
	RFC3339Nano = time.RFC3339Nano
	Kitchen     = time.Kitchen
	Stamp       = time.Stamp
	StampMilli  = time.StampMilli
	StampMicro  = time.StampMicro
	StampNano   = time.StampNano
	DateTime    = time.DateTime
	DateOnly    = time.DateOnly
	TimeOnly    = time.TimeOnly

	Nanosecond  = time.Nanosecond
	Microsecond = time.Microsecond
	Millisecond = time.Millisecond
	Second      = time.Second
	Minute      = time.Minute
	Hour        = time.Hour

	January   = time.January
	February  = time.February
	March     = time.March
	April     = time.April
	May       = time.May
	June      = time.June
	July      = time.July
	August    = time.August
	September = time.September
	October   = time.October
	November  = time.November
	December  = time.December

	Sunday    = time.Sunday
	Monday    = time.Monday
	Tuesday   = time.Tuesday
	Wednesday = time.Wednesday
	Thursday  = time.Thursday
	Friday    = time.Friday
	Saturday  = time.Saturday
)

var (
	Local = time.Local
	UTC   = time.UTC
)

var (
	After                  = time.After
	Sleep                  = time.Sleep
	Tick                   = time.Tick
	ParseDuration          = time.ParseDuration
	FixedZone              = time.FixedZone
	LoadLocation           = time.LoadLocation
	LoadLocationFromTZData = time.LoadLocationFromTZData
	NewTicker              = time.NewTicker
	Date                   = time.Date
	Parse                  = time.Parse
	ParseInLocation        = time.ParseInLocation
	Unix                   = time.Unix
	UnixMicro              = time.UnixMicro
	UnixMilli              = time.UnixMilli
)

var offset atomic.Int64

func init() {
	if s := os.Getenv("VERIF_CLOCK_OFFSET"); s != "" {
		if d, err := time.ParseDuration(s); err == nil {
			offset.Store(int64(d))
		}
	}
}

// SetOffset shifts the clock seen by the rewritten packages.
func SetOffset(d time.Duration) { offset.Store(int64(d)) }
func Offset() time.Duration     { return time.Duration(offset.Load()) }

func Now() time.Time {
	if o := offset.Load(); o != 0 {
		return time.Now().Add(time.Duration(o))
	}
	return time.Now()
}
func Since(t time.Time) time.Duration { return Now().Sub(t) }
func Until(t time.Time) time.Duration { return t.Sub(Now()) }


// Timer is a harness-owned timer.
type Timer struct {
	f       func()
	stopped bool
	fired   bool
}

var (
	tmu     sync.Mutex
	pending []*Timer
)

func AfterFunc(d Duration, f func()) *Timer {
	t := &Timer{f: f}
	tmu.Lock()
	pending = append(pending, t)
	tmu.Unlock()
	return t
}

// Stop prevents the timer from firing; it reports whether the call stopped it.
func (t *Timer) Stop() bool {
	tmu.Lock()
	defer tmu.Unlock()
	was := !t.stopped && !t.fired
	t.stopped = true
	return was
}

// Reset re-arms the timer.
func (t *Timer) Reset(d Duration) bool {
	tmu.Lock()
	defer tmu.Unlock()
	was := !t.stopped && !t.fired
	t.stopped, t.fired = false, false
	found := false
	for _, p := range pending {
		if p == t {
			found = true
		}
	}
	if !found {
		pending = append(pending, t)
	}
	return was
}

// Armed returns how many timers would fire.
func Armed() int {
	tmu.Lock()
	defer tmu.Unlock()
	n := 0
	for _, t := range pending {
		if !t.stopped && !t.fired {
			n++
		}
	}
	return n
}

// Fire runs the callback of the i-th armed timer (in creation order) in the caller's goroutine.
func Fire(i int) bool {
	tmu.Lock()
	var pick *Timer
	n := 0
	for _, t := range pending {
		if !t.stopped && !t.fired {
			if n == i {
				pick = t
				break
			}
			n++
		}
	}
	if pick != nil {
		pick.fired = true
	}
	tmu.Unlock()
	if pick == nil {
		return false
	}
	pick.f()
	return true
}

// ResetTimers forgets every timer (between executions).
func ResetTimers() {
	tmu.Lock()
	pending = nil
	tmu.Unlock()
}
