// Package queries is the read-query set instantiated over the harness name universe (C02 tier 2,
// C06). Every query returns (reported index, canonical rendering of the result) and registers its
// watches in ws. Where the RPC endpoint reports a different index than the store function, the
// endpoint's rule is mirrored and named in Mirror.
package queries

import (
	"sort"

	"github.com/hashicorp/go-memdb"

	"github.com/hashicorp/consul/acl"
	"github.com/hashicorp/consul/agent/consul/state"
	"github.com/hashicorp/consul/agent/structs"
	"github.com/hashicorp/consul/api"
	"github.com/hashicorp/consul/internal/verifmc/cmdlib"
	"github.com/hashicorp/consul/internal/verifmc/dump"
)

type Query struct {
	Name   string
	Group  string
	Mirror string // endpoint convention mirrored, if any
	Run    func(st *state.Store, ws memdb.WatchSet) (uint64, string, error)
}

var opts = &dump.Options{}

func r(v any) string { return dump.Value(v, opts) }

func All() []Query {
	var qs []Query
	add := func(group, name string, f func(st *state.Store, ws memdb.WatchSet) (uint64, any, error)) {
		qs = append(qs, Query{Name: name, Group: group, Run: func(st *state.Store, ws memdb.WatchSet) (uint64, string, error) {
			i, v, err := f(st, ws)
			if err != nil {
				return i, "", err
			}
			return i, r(v), nil
		}})
	}
	// ---- KV
	for _, k := range []string{"a", "a/b", "c", "zz"} {
		k := k
		qs = append(qs, Query{Name: "kv.get(" + k + ")", Group: "kv", Mirror: "KVS.Get reports the entry's ModifyIndex when the key exists, else the table index",
			Run: func(st *state.Store, ws memdb.WatchSet) (uint64, string, error) {
				idx, ent, err := st.KVSGet(ws, k, nil)
				if err != nil {
					return 0, "", err
				}
				if ent != nil {
					return ent.ModifyIndex, r(ent), nil
				}
				return idx, "nil", nil
			}})
	}
	for _, p := range []string{"", "a", "a/", "c"} {
		p := p
		add("kv", "kv.list("+p+")", func(st *state.Store, ws memdb.WatchSet) (uint64, any, error) { return st.KVSList(ws, p, nil) })
	}
	// ---- sessions
	for _, s := range []string{"s1", "s2"} {
		s := s
		add("session", "session.get("+s+")", func(st *state.Store, ws memdb.WatchSet) (uint64, any, error) {
			return st.SessionGet(ws, cmdlib.SessionIDs[s], nil)
		})
	}
	add("session", "session.list", func(st *state.Store, ws memdb.WatchSet) (uint64, any, error) { return st.SessionList(ws, nil) })
	for _, n := range []string{"n1", "n2"} {
		n := n
		add("session", "session.node("+n+")", func(st *state.Store, ws memdb.WatchSet) (uint64, any, error) { return st.NodeSessions(ws, n, nil) })
	}
	// ---- catalog
	for _, peer := range []string{"", "p1"} {
		peer := peer
		sfx := ""
		if peer != "" {
			sfx = "~" + peer
		}
		add("catalog", "catalog.nodes"+sfx, func(st *state.Store, ws memdb.WatchSet) (uint64, any, error) { return st.Nodes(ws, nil, peer) })
		add("catalog", "catalog.services"+sfx, func(st *state.Store, ws memdb.WatchSet) (uint64, any, error) {
			i, l, err := st.ServiceList(ws, nil, peer)
			sort.Slice(l, func(a, b int) bool { return l[a].Name < l[b].Name }) // built from a map: unordered by contract
			return i, l, err
		})
		for _, s := range []string{"web", "db", "web-proxy"} {
			s := s
			add("catalog", "catalog.service-nodes("+s+")"+sfx, func(st *state.Store, ws memdb.WatchSet) (uint64, any, error) { return st.ServiceNodes(ws, s, nil, peer) })
			add("health", "health.service("+s+")"+sfx, func(st *state.Store, ws memdb.WatchSet) (uint64, any, error) { return st.CheckServiceNodes(ws, s, nil, peer) })
		}
		add("health", "health.connect(web)"+sfx, func(st *state.Store, ws memdb.WatchSet) (uint64, any, error) { return st.CheckConnectServiceNodes(ws, "web", nil, peer) })
		add("catalog", "catalog.connect-service-nodes(web)"+sfx, func(st *state.Store, ws memdb.WatchSet) (uint64, any, error) { return st.ConnectServiceNodes(ws, "web", nil, peer) })
		for _, n := range []string{"n1", "n2"} {
			n := n
			add("catalog", "catalog.node-services("+n+")"+sfx, func(st *state.Store, ws memdb.WatchSet) (uint64, any, error) { return st.NodeServices(ws, n, nil, peer) })
			add("catalog", "catalog.node-service-list("+n+")"+sfx, func(st *state.Store, ws memdb.WatchSet) (uint64, any, error) { return st.NodeServiceList(ws, n, nil, peer) })
			add("health", "health.node-checks("+n+")"+sfx, func(st *state.Store, ws memdb.WatchSet) (uint64, any, error) { return st.NodeChecks(ws, n, nil, peer) })
		}
		add("health", "health.service-checks(web)"+sfx, func(st *state.Store, ws memdb.WatchSet) (uint64, any, error) { return st.ServiceChecks(ws, "web", nil, peer) })
		for _, s := range []string{api.HealthAny, api.HealthCritical, api.HealthPassing} {
			s := s
			add("health", "health.state("+s+")"+sfx, func(st *state.Store, ws memdb.WatchSet) (uint64, any, error) { return st.ChecksInState(ws, s, nil, peer) })
		}
		for _, tag := range []string{"v1", "v2"} {
			tag := tag
			add("health", "health.service-tag(web,"+tag+")"+sfx, func(st *state.Store, ws memdb.WatchSet) (uint64, any, error) {
				return st.CheckServiceTagNodes(ws, "web", []string{tag}, nil, peer)
			})
			add("catalog", "catalog.service-tag-nodes(web,"+tag+")"+sfx, func(st *state.Store, ws memdb.WatchSet) (uint64, any, error) {
				return st.ServiceTagNodes(ws, "web", []string{tag}, nil, peer)
			})
		}
	}
	for _, peer := range []string{"", "p1"} {
		peer := peer
		sfx := ""
		if peer != "" {
			sfx = "~" + peer
		}
		add("catalog", "catalog.service-dump"+sfx, func(st *state.Store, ws memdb.WatchSet) (uint64, any, error) {
			return st.ServiceDump(ws, "", false, structs.WildcardEnterpriseMetaInDefaultPartition(), peer)
		})
		add("catalog", "catalog.service-dump(kind=connect-proxy)"+sfx, func(st *state.Store, ws memdb.WatchSet) (uint64, any, error) {
			return st.ServiceDump(ws, structs.ServiceKindConnectProxy, true, structs.WildcardEnterpriseMetaInDefaultPartition(), peer)
		})
	}
	// ---- the same lists restricted by node metadata (a node enters or leaves them when only its metadata changes)
	for _, f := range []map[string]string{{"role": "db"}} {
		f := f
		add("nodemeta", "catalog.nodes(meta role=db)", func(st *state.Store, ws memdb.WatchSet) (uint64, any, error) { return st.NodesByMeta(ws, f, nil, "") })
		add("nodemeta", "catalog.services(meta role=db)", func(st *state.Store, ws memdb.WatchSet) (uint64, any, error) {
			i, l, err := st.ServicesByNodeMeta(ws, f, nil, "")
			var names []string
			for _, x := range l {
				names = append(names, x.Node+"/"+x.ServiceID+"="+x.ServiceName)
			}
			sort.Strings(names)
			return i, names, err
		})
		add("nodemeta", "health.service-checks(web,meta role=db)", func(st *state.Store, ws memdb.WatchSet) (uint64, any, error) {
			return st.ServiceChecksByNodeMeta(ws, "web", f, nil, "")
		})
		add("nodemeta", "health.state(any,meta role=db)", func(st *state.Store, ws memdb.WatchSet) (uint64, any, error) {
			return st.ChecksInStateByNodeMeta(ws, api.HealthAny, f, nil, "")
		})
		add("nodemeta", "catalog.service-nodes(web,meta role=db)", func(st *state.Store, ws memdb.WatchSet) (uint64, any, error) {
			i, l, err := st.ServiceNodes(ws, "web", nil, "")
			var out structs.ServiceNodes
			for _, x := range l {
				if structs.SatisfiesMetaFilters(x.NodeMeta, f) {
					out = append(out, x)
				}
			}
			return i, out, err
		})
	}
	add("catalog", "catalog.node-dump", func(st *state.Store, ws memdb.WatchSet) (uint64, any, error) { return st.NodeDump(ws, nil, "") })
	add("catalog", "catalog.gateway-services(tgw)", func(st *state.Store, ws memdb.WatchSet) (uint64, any, error) { return st.GatewayServices(ws, "tgw", nil) })
	add("catalog", "catalog.gateway-services(igw)", func(st *state.Store, ws memdb.WatchSet) (uint64, any, error) { return st.GatewayServices(ws, "igw", nil) })
	add("catalog", "catalog.names-of-kind(connect-proxy)", func(st *state.Store, ws memdb.WatchSet) (uint64, any, error) {
		return st.ServiceNamesOfKind(ws, structs.ServiceKindConnectProxy)
	})
	add("coordinate", "coordinate.list", func(st *state.Store, ws memdb.WatchSet) (uint64, any, error) { return st.Coordinates(ws, nil) })
	add("coordinate", "coordinate.node(n1)", func(st *state.Store, ws memdb.WatchSet) (uint64, any, error) { return st.Coordinate(ws, "n1", nil) })
	// ---- config entries
	for _, kn := range [][2]string{{structs.ServiceDefaults, "web"}, {structs.ServiceResolver, "web"}, {structs.ProxyDefaults, structs.ProxyConfigGlobal},
		{structs.TerminatingGateway, "tgw"}, {structs.IngressGateway, "igw"}, {structs.ServiceIntentions, "web"}, {structs.ExportedServices, "default"}} {
		kn := kn
		add("config", "config.get("+kn[0]+"/"+kn[1]+")", func(st *state.Store, ws memdb.WatchSet) (uint64, any, error) { return st.ConfigEntry(ws, kn[0], kn[1], nil) })
	}
	for _, k := range []string{structs.ServiceDefaults, structs.ServiceResolver, structs.ServiceIntentions, structs.TerminatingGateway} {
		k := k
		add("config", "config.list("+k+")", func(st *state.Store, ws memdb.WatchSet) (uint64, any, error) { return st.ConfigEntriesByKind(ws, k, nil) })
	}
	// ---- intentions
	add("intention", "intention.list", func(st *state.Store, ws memdb.WatchSet) (uint64, any, error) {
		i, ixns, _, err := st.Intentions(ws, nil)
		return i, ixns, err
	})
	for _, mt := range []structs.IntentionMatchType{structs.IntentionMatchDestination, structs.IntentionMatchSource} {
		for _, n := range []string{"web", "db"} {
			mt, n := mt, n
			add("intention", "intention.match("+string(mt)+","+n+")", func(st *state.Store, ws memdb.WatchSet) (uint64, any, error) {
				return st.IntentionMatch(ws, &structs.IntentionQueryMatch{Type: mt, Entries: []structs.IntentionMatchEntry{{Namespace: "default", Partition: "default", Name: n}}})
			})
		}
	}
	// ---- prepared queries
	add("pq", "pq.get(q1)", func(st *state.Store, ws memdb.WatchSet) (uint64, any, error) { return st.PreparedQueryGet(ws, cmdlib.QueryIDs["q1"]) })
	add("pq", "pq.list", func(st *state.Store, ws memdb.WatchSet) (uint64, any, error) { return st.PreparedQueryList(ws) })
	// ---- CA
	add("ca", "ca.roots", func(st *state.Store, ws memdb.WatchSet) (uint64, any, error) { return st.CARoots(ws) })
	add("ca", "ca.config", func(st *state.Store, ws memdb.WatchSet) (uint64, any, error) { return st.CAConfig(ws) })
	// ---- peering
	for _, p := range []string{"p1", "p2"} {
		p := p
		add("peering", "peering.read("+p+")", func(st *state.Store, ws memdb.WatchSet) (uint64, any, error) {
			return st.PeeringRead(ws, state.Query{Value: p})
		})
		add("peering", "peering.read-by-id("+p+")", func(st *state.Store, ws memdb.WatchSet) (uint64, any, error) {
			return st.PeeringReadByID(ws, cmdlib.PeerIDs[p])
		})
		add("peering", "peering.bundle("+p+")", func(st *state.Store, ws memdb.WatchSet) (uint64, any, error) {
			return st.PeeringTrustBundleRead(ws, state.Query{Value: p})
		})
	}
	add("peering", "peering.list", func(st *state.Store, ws memdb.WatchSet) (uint64, any, error) {
		return st.PeeringList(ws, *structs.DefaultEnterpriseMetaInDefaultPartition())
	})
	add("peering", "peering.bundles", func(st *state.Store, ws memdb.WatchSet) (uint64, any, error) {
		return st.PeeringTrustBundleList(ws, *structs.DefaultEnterpriseMetaInDefaultPartition())
	})
	add("peering", "peering.exported(p1)", func(st *state.Store, ws memdb.WatchSet) (uint64, any, error) {
		return st.ExportedServicesForPeer(ws, cmdlib.PeerIDs["p1"], cmdlib.DC)
	})
	// ---- ACL
	add("acl", "acl.tokens", func(st *state.Store, ws memdb.WatchSet) (uint64, any, error) {
		return st.ACLTokenList(ws, true, true, "", "", "", nil, nil)
	})
	add("acl", "acl.token(t1)", func(st *state.Store, ws memdb.WatchSet) (uint64, any, error) {
		return st.ACLTokenGetBySecret(ws, cmdlib.TokenSecrets["t1"], nil)
	})
	add("acl", "acl.policies", func(st *state.Store, ws memdb.WatchSet) (uint64, any, error) { return st.ACLPolicyList(ws, nil) })
	add("acl", "acl.policy(p1)", func(st *state.Store, ws memdb.WatchSet) (uint64, any, error) { return st.ACLPolicyGetByID(ws, cmdlib.PolicyIDs["p1"], nil) })
	add("acl", "acl.roles", func(st *state.Store, ws memdb.WatchSet) (uint64, any, error) { return st.ACLRoleList(ws, "", nil) })
	add("acl", "acl.auth-methods", func(st *state.Store, ws memdb.WatchSet) (uint64, any, error) { return st.ACLAuthMethodList(ws, nil) })
	add("acl", "acl.binding-rules", func(st *state.Store, ws memdb.WatchSet) (uint64, any, error) { return st.ACLBindingRuleList(ws, "", nil) })
	// ---- misc
	add("misc", "fedstate.list", func(st *state.Store, ws memdb.WatchSet) (uint64, any, error) { return st.FederationStateList(ws) })
	add("misc", "fedstate.get(dc2)", func(st *state.Store, ws memdb.WatchSet) (uint64, any, error) { return st.FederationStateGet(ws, "dc2") })
	add("misc", "sysmeta.list", func(st *state.Store, ws memdb.WatchSet) (uint64, any, error) { return st.SystemMetadataList(ws) })
	add("misc", "autopilot.config", func(st *state.Store, ws memdb.WatchSet) (uint64, any, error) { return st.AutopilotConfig() })
	add("misc", "feature-gates", func(st *state.Store, ws memdb.WatchSet) (uint64, any, error) {
		i, p, s, err := st.FeatureGatePolicyAndStatus(ws)
		return i, []any{p, s}, err
	})
	add("misc", "virtual-ips", func(st *state.Store, ws memdb.WatchSet) (uint64, any, error) { return st.ServiceVirtualIPs() })
	return qs
}

// Groups selects queries by group name (all if none given).
func Groups(names ...string) []Query {
	want := map[string]bool{}
	for _, n := range names {
		want[n] = true
	}
	var out []Query
	for _, q := range All() {
		if len(want) == 0 || want[q.Group] {
			out = append(out, q)
		}
	}
	return out
}

// Fired reports whether any channel of ws is closed (non-blocking).
func Fired(ws memdb.WatchSet) bool {
	for ch := range ws {
		select {
		case <-ch:
			return true
		default:
		}
	}
	return false
}

var _ = acl.EnterpriseMeta{}
