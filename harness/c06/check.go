// Package c06: blocking-query contract — a change is never missed.
package c06

import (
	"fmt"
	"github.com/hashicorp/consul/api"
	"strings"
	"sync"

	"github.com/hashicorp/go-memdb"

	"github.com/hashicorp/consul/agent/consul"
	"github.com/hashicorp/consul/agent/consul/state"
	"github.com/hashicorp/consul/agent/structs"
	"github.com/hashicorp/consul/internal/verifmc/cmdlib"
	"github.com/hashicorp/consul/internal/verifmc/e1"
	"github.com/hashicorp/consul/internal/verifmc/ev"
	"github.com/hashicorp/consul/internal/verifmc/queries"
	"github.com/hashicorp/consul/internal/verifmc/rpcq"
	"github.com/hashicorp/consul/internal/verifmc/world"
)

type obs struct {
	idx uint64
	res string
	ws  memdb.WatchSet
	err error
}

type phase struct {
	Name    string
	Groups  []string
	Seeds   []string
	Queries []string
	Depth   int
}

func clamp(i uint64) uint64 { // SetQueryMeta: a reported index is never 0
	if i == 0 {
		return 1
	}
	return i
}

func qclass(n string) string {
	if i := strings.Index(n, "("); i > 0 {
		return n[:i]
	}
	return n
}

func Run(c *ev.Ctx) {
	quick := c.Quick()
	groups := cmdlib.FullAlphabet()
	seedsAll := cmdlib.FullSeeds()
	phases := []phase{
		{"catalog-kv-session", []string{"catalog", "kv", "session", "txn", "prepared-query"}, []string{"empty", "catalog+session", "mesh", "kv-tree"},
			[]string{"kv", "session", "catalog", "health", "coordinate", "pq"}, 2},
		{"config-intentions", []string{"config-entry", "intention", "catalog"}, []string{"mesh", "legacy-intentions", "peering+intentions"},
			[]string{"config", "intention", "catalog", "health"}, 1},
		{"ca-peering", []string{"ca", "peering", "misc"}, []string{"acl+ca", "peering+intentions"},
			[]string{"ca", "peering"}, 2},
	}
	if !quick {
		phases[0].Depth, phases[1].Depth, phases[2].Depth = 3, 2, 2
	}
	// last phase: the cap on fine-grained watch channels is lowered to 1, so that every catalog / health query over the
	// seed's handful of instances runs on its coarse fallback watches (whole-table channels)
	phases = append(phases, phase{"catalog-coarse-watches", []string{"catalog"}, []string{"catalog+session", "mesh"}, []string{"catalog", "health"}, 1})
	// node metadata: a node enters or leaves a metadata-filtered list when nothing but its metadata changes
	phases = append(phases, phase{"node-meta", nil, []string{"node-meta"}, []string{"nodemeta"}, 2})
	{
		n1w := cmdlib.NodeSpec{Node: "n1", ID: "id1", Meta: map[string]string{"role": "web"}}
		n2d := cmdlib.NodeSpec{Node: "n2", Meta: map[string]string{"role": "db"}}
		seedsAll["node-meta"] = []world.Op{cmdlib.RegNode(n1w), cmdlib.RegNode(n2d), cmdlib.RegService(n1w, cmdlib.FWeb), cmdlib.RegService(n2d, cmdlib.FWeb2),
			cmdlib.RegCheck(n1w, cmdlib.FC1), cmdlib.RegCheck(n1w, cmdlib.FSC1), cmdlib.RegCheck(n2d, cmdlib.CheckSpec{ID: "sc2", Status: api.HealthPassing, ServiceID: "web-2"}),
			cmdlib.KVSpec{Verb: api.KVSet, Key: "a", Val: "x"}.Op()}
	}
	totalQ, totalRPC := 0, 0
	var mu sync.Mutex
	rpcErrors := map[string]int{}
	for _, ph := range phases {
		qs := queries.Groups(ph.Queries...)
		totalQ += len(qs)
		// the same reads through the RPC endpoint methods (which post-process results and indexes)
		rqs := rpcq.Groups(ph.Queries...)
		totalRPC += len(rqs)
		rpcObs := func(w *world.World) []obs {
			vs, err := consul.VerifNewServer(w.BoundFSM(), nil)
			if err != nil {
				c.HarnessError("endpoint server: " + err.Error())
				return nil
			}
			defer vs.Close()
			o := make([]obs, len(rqs))
			for i, q := range rqs {
				idx, res, err := q.Run(vs)
				o[i] = obs{idx: idx, res: res, err: err}
				if err != nil {
					mu.Lock()
					rpcErrors[q.Name+": "+firstLine(err.Error())]++
					mu.Unlock()
				}
			}
			return o
		}
		var alpha []world.Op
		for _, op := range cmdlib.Flatten(groups, ph.Groups...) {
			// flipping the intention storage format without the leader's migration is not a client write
			if strings.Contains(op.Name, "intention-format") {
				continue
			}
			alpha = append(alpha, op)
		}
		if ph.Name == "node-meta" {
			n1 := func(meta map[string]string) cmdlib.NodeSpec {
				return cmdlib.NodeSpec{Node: "n1", ID: "id1", Meta: meta}
			}
			n2 := func(meta map[string]string) cmdlib.NodeSpec { return cmdlib.NodeSpec{Node: "n2", Meta: meta} }
			alpha = []world.Op{
				cmdlib.RegNode(n1(map[string]string{"role": "db"})), cmdlib.RegNode(n1(map[string]string{"role": "web"})), cmdlib.RegNode(n1(nil)),
				cmdlib.RegNode(n2(map[string]string{"role": "web"})), cmdlib.RegNode(n2(map[string]string{"role": "db", "rack": "r1"})),
				cmdlib.RegService(n1(map[string]string{"role": "db"}), cmdlib.FWeb), cmdlib.DeregService("n1", "web", ""), cmdlib.DeregService("n2", "web-2", ""),
				cmdlib.RegCheck(n1(map[string]string{"role": "web"}), cmdlib.FC1c), cmdlib.DeregCheck("n1", "sc1", ""),
				cmdlib.DeregNode("n1", ""), cmdlib.DeregNode("n2", ""),
				cmdlib.KVSpec{Verb: api.KVSet, Key: "a", Val: "y"}.Op(), // an unrelated write: moves no catalog index
			}
		}
		if ph.Name == "catalog-kv-session" {
			// instances that change which results a name returns without the name's own last instance leaving:
			// re-registration of an instance ID under another service name; a connect-native sibling; the
			// proxies of a destination going away while the native instance stays
			alpha = append(alpha,
				cmdlib.RegService(cmdlib.FN1, cmdlib.SvcSpec{ID: "web", Name: "api", Port: 80}),
				cmdlib.RegService(cmdlib.FN2, cmdlib.SvcSpec{ID: "web-2", Name: "api", Port: 80}),
				cmdlib.RegService(cmdlib.FN2, cmdlib.SvcSpec{ID: "web-native", Name: "web", Native: true, Port: 81}),
				cmdlib.DeregService("n1", "web-proxy-1", ""),
				cmdlib.RegService(cmdlib.FN1, cmdlib.SvcSpec{ID: "web-proxy-1", Name: "web-proxy", Kind: structs.ServiceKindConnectProxy, DestName: "db", Port: 21000}), // the proxy is re-pointed
			)
		}
		var seeds [][]world.Op
		for _, s := range ph.Seeds {
			seeds = append(seeds, seedsAll[s])
		}
		cfg := &e1.Config{Ctx: c, Seeds: seeds, Alphabet: alpha, MaxDepth: ph.Depth, Fresh: true, AuditMerges: 10, MaxStates: 150000,
			New: func() *world.World { w := world.New(); w.ResourceOps = true; return w }}
		if quick {
			cfg.MaxStates = 12000
		}
		gwLinks := func(w *world.World) int {
			_, l, _ := w.Store().ServiceGateways(nil, "web", structs.ServiceKindTerminatingGateway, *structs.DefaultEnterpriseMetaInDefaultPartition())
			n := 0
			for _, r := range w.Store().VerifTable("gateway-services") {
				g := r.(*structs.GatewayService)
				if g.GatewayKind == structs.ServiceKindTerminatingGateway && g.Service.Name == "web" {
					n++
				}
			}
			_ = l
			return n
		}
		cfg.Pre = func(w *world.World) any {
			o := make([]obs, len(qs)+1)
			o[len(qs)] = obs{idx: uint64(gwLinks(w))}
			for i, q := range qs {
				ws := memdb.NewWatchSet()
				idx, res, err := q.Run(w.Store(), ws)
				o[i] = obs{idx, res, ws, err}
			}
			return append(o, rpcObs(w)...)
		}
		cfg.Post = func(t *e1.Trans) {
			pre := t.Pre.([]obs)
			reap := strings.HasPrefix(t.Op.Kind, "tombstone/")
			linkRemoved := uint64(gwLinks(t.W)) < pre[len(qs)].idx
			flagged := map[string]bool{} // store-level queries that violated a rule in this transition
			defer func() {
				post := rpcObs(t.W)
				if post == nil {
					return
				}
				rpre := pre[len(qs)+1:]
				for i, q := range rqs {
					if rpre[i].err != nil || post[i].err != nil {
						continue
					}
					c.Add("rpc_query_evaluations", 1)
					a, b := rpre[i].idx, post[i].idx
					if b == 0 {
						t.Violate("C06:rpc-index-zero:"+qclass(q.Name), fmt.Sprintf("%s reports index 0", q.Name))
					}
					if flagged[q.Twin] {
						continue // the same data read from the store directly already shows the fault; reported there
					}
					if post[i].res != rpre[i].res {
						c.Add("rpc_result_changes_observed", 1)
						if b <= a && linkRemoved && strings.Contains(q.Name, "connect") {
							t.Violate("C06:connect-query-index-slides-back-when-gateway-link-is-removed",
								fmt.Sprintf("%s: a terminating-gateway link of the service was removed; the result changed but the reported index went %d -> %d", q.Name, a, b))
							continue
						}
						if b <= a {
							t.Violate("C06:changed-without-index-increase:"+qclass(q.Name)+":op="+t.Op.Kind,
								fmt.Sprintf("%s: the reply changed but the reported index went %d -> %d (a query blocked on %d never returns the new result)\n before: %s\n after:  %s", q.Name, a, b, a, trunc(rpre[i].res), trunc(post[i].res)))
						}
					}
					if b < a && linkRemoved && strings.Contains(q.Name, "connect") {
						continue
					}
					if b < a && !reap {
						t.Violate("C06:index-decreased:"+qclass(q.Name)+":op="+t.Op.Kind, fmt.Sprintf("%s: reported index decreased %d -> %d", q.Name, a, b))
					}
				}
			}()
			for i, q := range qs {
				idx, res, err := q.Run(t.W.Store(), memdb.NewWatchSet())
				if err != nil || pre[i].err != nil {
					continue
				}
				c.Add("query_evaluations", 1)
				a, b := clamp(pre[i].idx), clamp(idx)
				if res != pre[i].res {
					c.Add("result_changes_observed", 1)
					if b <= a && linkRemoved && strings.Contains(q.Name, "connect") {
						flagged[q.Name] = true
						t.Violate("C06:connect-query-index-slides-back-when-gateway-link-is-removed",
							fmt.Sprintf("%s: a terminating-gateway link of the service was removed; the result changed but the reported index went %d -> %d", q.Name, a, b))
						continue
					}
					if b <= a {
						flagged[q.Name] = true
						t.Violate("C06:changed-without-index-increase:"+qclass(q.Name)+":op="+t.Op.Kind,
							fmt.Sprintf("%s: result changed but the reported index went %d -> %d (a query blocked on %d never returns the new result)\n before: %s\n after:  %s", q.Name, a, b, a, trunc(pre[i].res), trunc(res)))
					}
					if !queries.Fired(pre[i].ws) {
						t.Violate("C06:changed-without-wakeup:"+qclass(q.Name)+":op="+t.Op.Kind,
							fmt.Sprintf("%s: result changed but none of the watch channels registered by the query fired\n before: %s\n after:  %s", q.Name, trunc(pre[i].res), trunc(res)))
					}
				}
				if b < a && linkRemoved && strings.Contains(q.Name, "connect") {
					flagged[q.Name] = true
					t.Violate("C06:connect-query-index-slides-back-when-gateway-link-is-removed",
						fmt.Sprintf("%s: a terminating-gateway link of the service was removed; the reported index went %d -> %d", q.Name, a, b))
					continue
				}
				if b < a && !reap {
					flagged[q.Name] = true
					t.Violate("C06:index-decreased:"+qclass(q.Name)+":op="+t.Op.Kind, fmt.Sprintf("%s: reported index decreased %d -> %d", q.Name, a, b))
				}
			}
		}
		if ph.Name == "catalog-coarse-watches" {
			old := state.VerifSetWatchLimit(1)
			st := e1.Run(cfg)
			state.VerifSetWatchLimit(old)
			st.Report(c, ph.Name+"_")
			continue
		}
		st := e1.Run(cfg)
		st.Report(c, ph.Name+"_")
	}
	runBlocking(c)
	c.Set("queries_instantiated", totalQ)
	c.Set("rpc_endpoint_queries_instantiated", totalRPC)
	c.Set("rpc_endpoint_query_errors", rpcErrors)
	c.Set("rule", "every transition of a BFS over the write alphabet x every instantiated read query: (index, result, watch set) before and after; result changed => index strictly larger and a watch channel fired; index never decreases except on tombstone reap; the same reads are made through the RPC endpoint methods (rpc_endpoint_queries_instantiated) on a Server value over the state, judged by the reply's data and QueryMeta index")
	c.Sample(map[string]any{"phases": phases})
	c.Assume("endpoint conventions mirrored: KVS.Get reports the entry's ModifyIndex when the key exists; a reported index of 0 is clamped to 1 (SetQueryMeta), so 'never zero' holds by construction")
	c.Assume("runs on freshly replayed instances (watch channels only fire on a primary memdb)")
}

func firstLine(s string) string {
	if i := strings.IndexByte(s, '\n'); i >= 0 {
		s = s[:i]
	}
	if len(s) > 160 {
		s = s[:160]
	}
	return s
}

func trunc(s string) string {
	if len(s) > 300 {
		return s[:300] + "…"
	}
	return s
}
