package c06

import (
	"fmt"
	"time"

	"github.com/hashicorp/go-memdb"

	"github.com/hashicorp/consul/agent/blockingquery"
	"github.com/hashicorp/consul/agent/consul/state"
	"github.com/hashicorp/consul/agent/structs"
	"github.com/hashicorp/consul/api"
	"github.com/hashicorp/consul/internal/verifmc/cmdlib"
	"github.com/hashicorp/consul/internal/verifmc/ev"
	"github.com/hashicorp/consul/internal/verifmc/world"
)

// The blocking loop itself (agent/blockingquery.Query) on a real store: a query blocked at the index it
// last saw must return as soon as a write changes its result - including when the item it reads is
// deleted or appears (the endpoints report absence through ErrNotFound, which the loop treats specially).

type bqServer struct {
	w    *world.World
	stop chan struct{}
}

func (s *bqServer) ConsistentRead() error                         { return nil }
func (s *bqServer) DecrementBlockingQueries() uint64              { return 0 }
func (s *bqServer) IncrementBlockingQueries() uint64              { return 1 }
func (s *bqServer) GetShutdownChannel() chan struct{}             { return s.stop }
func (s *bqServer) GetState() *state.Store                        { return s.w.Store() }
func (s *bqServer) RPCQueryTimeout(d time.Duration) time.Duration { return d }
func (s *bqServer) SetQueryMeta(m blockingquery.ResponseMeta, _ string) {
	if m.GetIndex() == 0 {
		m.SetIndex(1)
	}
	m.SetKnownLeader(true)
}

const bqTimeout = 20 * time.Second

type bqCase struct {
	name  string
	setup []world.Op
	// query mirrors the endpoint: sets the index on meta, returns ErrNotFound when the item is absent
	query func(meta *structs.QueryMeta) blockingquery.QueryFn
	write world.Op
}

func kvGet(key string) func(meta *structs.QueryMeta) blockingquery.QueryFn {
	return func(meta *structs.QueryMeta) blockingquery.QueryFn {
		return func(ws memdb.WatchSet, st *state.Store) error {
			idx, ent, err := st.KVSGet(ws, key, nil)
			if err != nil {
				return err
			}
			if ent == nil {
				meta.Index = idx
				return blockingquery.ErrNotFound
			}
			meta.Index = ent.ModifyIndex
			return nil
		}
	}
}

func ceGet(kind, name string) func(meta *structs.QueryMeta) blockingquery.QueryFn {
	return func(meta *structs.QueryMeta) blockingquery.QueryFn {
		return func(ws memdb.WatchSet, st *state.Store) error {
			idx, e, err := st.ConfigEntry(ws, kind, name, nil)
			if err != nil {
				return err
			}
			meta.Index = idx
			if e == nil {
				return blockingquery.ErrNotFound
			}
			return nil
		}
	}
}

func sessGet(name string) func(meta *structs.QueryMeta) blockingquery.QueryFn {
	return func(meta *structs.QueryMeta) blockingquery.QueryFn {
		return func(ws memdb.WatchSet, st *state.Store) error {
			idx, s, err := st.SessionGet(ws, cmdlib.SessionIDs[name], nil)
			if err != nil {
				return err
			}
			meta.Index = idx
			if s == nil {
				return blockingquery.ErrNotFound
			}
			return nil
		}
	}
}

func runBlocking(c *ev.Ctx) {
	n1 := cmdlib.NodeSpec{Node: "n1", ID: "id1"}
	kv := func(v api.KVOp, key, val string) world.Op { return cmdlib.KVSpec{Verb: v, Key: key, Val: val}.Op() }
	s1 := cmdlib.SessionSpec{Name: "s1", Node: "n1", Behavior: structs.SessionKeysRelease}
	other := kv(api.KVSet, "zz", "unrelated")
	cases := []bqCase{
		{"kv get: key deleted", []world.Op{kv(api.KVSet, "a", "1"), other}, kvGet("a"), kv(api.KVDelete, "a", "")},
		{"kv get: key deleted by tree delete", []world.Op{kv(api.KVSet, "a/b", "1"), other}, kvGet("a/b"), kv(api.KVDeleteTree, "a", "")},
		{"kv get: key created", []world.Op{other}, kvGet("a"), kv(api.KVSet, "a", "1")},
		{"kv get: key re-created after delete", []world.Op{kv(api.KVSet, "a", "1"), kv(api.KVDelete, "a", ""), other}, kvGet("a"), kv(api.KVSet, "a", "2")},
		{"kv get: key updated", []world.Op{kv(api.KVSet, "a", "1"), other}, kvGet("a"), kv(api.KVSet, "a", "2")},
		{"config entry get: entry deleted", []world.Op{cmdlib.SvcDefaults("web", "http").Upsert(), other}, ceGet(structs.ServiceDefaults, "web"), cmdlib.SvcDefaults("web", "http").Delete()},
		{"config entry get: entry created", []world.Op{other}, ceGet(structs.ServiceDefaults, "web"), cmdlib.SvcDefaults("web", "http").Upsert()},
		{"config entry get: entry updated", []world.Op{cmdlib.SvcDefaults("web", "http").Upsert(), other}, ceGet(structs.ServiceDefaults, "web"), cmdlib.SvcDefaults("web", "tcp").Upsert()},
		{"session get: session destroyed", []world.Op{cmdlib.RegNode(n1), s1.Create(), other}, sessGet("s1"), cmdlib.SessionDestroy("s1")},
		{"session get: session created", []world.Op{cmdlib.RegNode(n1), other}, sessGet("s1"), s1.Create()},
	}
	var ran int
	for _, bc := range cases {
		w := world.New()
		w.ApplyAll(bc.setup)
		srv := &bqServer{w: w, stop: make(chan struct{})}
		// what a client saw last
		var first structs.QueryMeta
		if err := blockingquery.Query(srv, &structs.QueryOptions{}, &first, bc.query(&first)); err != nil {
			c.HarnessError("blocking query setup: " + err.Error())
			return
		}
		// the client blocks at that index
		var meta structs.QueryMeta
		done := make(chan error, 1)
		start := time.Now()
		go func() {
			done <- blockingquery.Query(srv, &structs.QueryOptions{MinQueryIndex: first.Index, MaxQueryTime: bqTimeout}, &meta, bc.query(&meta))
		}()
		time.Sleep(20 * time.Millisecond) // let it reach the wait (not required for correctness: a write seen by the first pass returns at once)
		if _, ok := w.Apply(bc.write); !ok {
			panic("write not enabled: " + bc.write.Name)
		}
		err := <-done
		el := time.Since(start)
		ran++
		if err != nil {
			c.Violate("C06:blocking-loop-error", fmt.Sprintf("%s: %v", bc.name, err), map[string]any{"case": bc.name})
			continue
		}
		// Returning is only ever caused by the write or by the query's own timeout; which one it was is read
		// off the elapsed time against that timeout (20 s) - not a race against the machine's speed.
		if el >= bqTimeout*9/10 {
			c.Violate("C06:blocked-query-not-woken-by-the-change:"+bc.name[:indexOf(bc.name, ':')], fmt.Sprintf("%s: a query blocked at index %d was not released by %s; it returned after %v when its own %v timeout expired (index then %d)", bc.name, first.Index, bc.write.Name, el.Round(time.Second), bqTimeout, meta.Index),
				map[string]any{"case": bc.name, "write": bc.write.Name})
		} else if meta.Index <= first.Index {
			c.Violate("C06:blocked-query-returned-without-a-larger-index", fmt.Sprintf("%s: returned index %d, client had %d", bc.name, meta.Index, first.Index), map[string]any{"case": bc.name})
		}
	}
	c.Set("blocking_loop_cases", ran)
}

func indexOf(s string, b byte) int {
	for i := 0; i < len(s); i++ {
		if s[i] == b {
			return i
		}
	}
	return len(s)
}
