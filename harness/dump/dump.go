// Package dump renders arbitrary Go values (state store rows, command results) canonically:
// map keys sorted, pointers followed, unexported fields included, protobuf bookkeeping skipped.
package dump

import (
	"fmt"
	"reflect"
	"sort"
	"strconv"
	"strings"
	"time"
	"unsafe"
)

// Options controls rendering.
type Options struct {
	// MarkIndexes wraps raft-index typed values as \x01<n>\x02 so that Compress can rank them.
	MarkIndexes bool
	// MaskIndexes renders raft-index typed values as "#".
	MaskIndexes bool
	// SkipFields: "Type.Field" or ".Field" names to omit.
	SkipFields map[string]bool
}

var timeType = reflect.TypeOf(time.Time{})

var protoSkip = map[string]bool{"state": true, "sizeCache": true, "unknownFields": true}

// isIndexField decides which uint64 fields are raft indexes (for masking / rank compression).
func isIndexField(st reflect.Type, f reflect.StructField) bool {
	if f.Type.Kind() != reflect.Uint64 {
		return false
	}
	switch f.Name {
	case "CreateIndex", "ModifyIndex", "PolicyIndex":
		return true
	case "Index":
		// Tombstone.Index, IndexedXXX.Index; LockIndex is a different name (a counter).
		return true
	case "Value":
		return st.Name() == "IndexEntry"
	}
	return false
}

func Value(v any, o *Options) string {
	var sb strings.Builder
	if o == nil {
		o = &Options{}
	}
	w := walker{sb: &sb, o: o}
	w.walk(reflect.ValueOf(v), 0)
	return sb.String()
}

type walker struct {
	sb *strings.Builder
	o  *Options
}

func (w *walker) idx(n uint64) {
	switch {
	case w.o.MaskIndexes:
		w.sb.WriteString("#")
	case w.o.MarkIndexes:
		w.sb.WriteByte(1)
		w.sb.WriteString(strconv.FormatUint(n, 10))
		w.sb.WriteByte(2)
	default:
		w.sb.WriteString(strconv.FormatUint(n, 10))
	}
}

func (w *walker) walk(v reflect.Value, depth int) {
	if depth > 40 {
		w.sb.WriteString("<deep>")
		return
	}
	if !v.IsValid() {
		w.sb.WriteString("nil")
		return
	}
	switch v.Kind() {
	case reflect.Ptr:
		if v.IsNil() {
			w.sb.WriteString("nil")
			return
		}
		w.sb.WriteByte('&')
		w.walk(v.Elem(), depth+1)
	case reflect.Interface:
		if v.IsNil() {
			w.sb.WriteString("nil")
			return
		}
		e := v.Elem()
		w.sb.WriteString("(" + e.Type().String() + ")")
		w.walk(e, depth+1)
	case reflect.Struct:
		t := v.Type()
		if t == timeType {
			w.time(v)
			return
		}
		w.sb.WriteString(t.Name())
		w.sb.WriteByte('{')
		isProto := false
		if _, ok := t.FieldByName("sizeCache"); ok {
			isProto = true
		}
		// the CA serial number is a counter stored in the index table, not a raft index
		counterRow := t.Name() == "IndexEntry" && v.FieldByName("Key").IsValid() && v.FieldByName("Key").Kind() == reflect.String &&
			v.FieldByName("Key").String() == "connect-ca-builtin-serial"
		first := true
		for i := 0; i < t.NumField(); i++ {
			f := t.Field(i)
			if isProto && protoSkip[f.Name] {
				continue
			}
			if w.o.SkipFields != nil && (w.o.SkipFields["."+f.Name] || w.o.SkipFields[t.Name()+"."+f.Name]) {
				continue
			}
			fv := v.Field(i)
			if isZero(fv) && !(w.o.MaskIndexes && isIndexField(t, f)) {
				continue
			}
			if !first {
				w.sb.WriteByte(' ')
			}
			first = false
			w.sb.WriteString(f.Name)
			w.sb.WriteByte(':')
			if isIndexField(t, f) && !counterRow {
				w.idx(fv.Uint())
				continue
			}
			// resource versions are the raft index of the write, rendered as a decimal string
			if f.Name == "Version" && t.Name() == "Resource" && fv.Kind() == reflect.String {
				if n, err := strconv.ParseUint(fv.String(), 10, 64); err == nil {
					w.sb.WriteByte('"')
					w.idx(n)
					w.sb.WriteByte('"')
					continue
				}
			}
			w.walk(fv, depth+1)
		}
		w.sb.WriteByte('}')
	case reflect.Map:
		if v.IsNil() || v.Len() == 0 {
			w.sb.WriteString("map[]")
			return
		}
		type kv struct {
			k string
			v reflect.Value
		}
		var kvs []kv
		it := v.MapRange()
		for it.Next() {
			var ksb strings.Builder
			kw := walker{sb: &ksb, o: w.o}
			kw.walk(it.Key(), depth+1)
			kvs = append(kvs, kv{ksb.String(), it.Value()})
		}
		sort.Slice(kvs, func(i, j int) bool { return kvs[i].k < kvs[j].k })
		w.sb.WriteString("map[")
		for i, e := range kvs {
			if i > 0 {
				w.sb.WriteByte(' ')
			}
			w.sb.WriteString(e.k)
			w.sb.WriteByte(':')
			w.walk(e.v, depth+1)
		}
		w.sb.WriteByte(']')
	case reflect.Slice, reflect.Array:
		if v.Kind() == reflect.Slice && v.IsNil() {
			w.sb.WriteString("[]")
			return
		}
		if v.Type().Elem().Kind() == reflect.Uint8 {
			n := v.Len()
			b := make([]byte, n)
			for i := 0; i < n; i++ {
				b[i] = byte(v.Index(i).Uint())
			}
			w.sb.WriteString(strconv.Quote(string(b)))
			return
		}
		w.sb.WriteByte('[')
		for i := 0; i < v.Len(); i++ {
			if i > 0 {
				w.sb.WriteByte(' ')
			}
			w.walk(v.Index(i), depth+1)
		}
		w.sb.WriteByte(']')
	case reflect.String:
		w.sb.WriteString(strconv.Quote(v.String()))
	case reflect.Bool:
		w.sb.WriteString(strconv.FormatBool(v.Bool()))
	case reflect.Int, reflect.Int8, reflect.Int16, reflect.Int32, reflect.Int64:
		w.sb.WriteString(strconv.FormatInt(v.Int(), 10))
	case reflect.Uint, reflect.Uint8, reflect.Uint16, reflect.Uint32, reflect.Uint64, reflect.Uintptr:
		w.sb.WriteString(strconv.FormatUint(v.Uint(), 10))
	case reflect.Float32, reflect.Float64:
		w.sb.WriteString(strconv.FormatFloat(v.Float(), 'g', -1, 64))
	case reflect.Func, reflect.Chan, reflect.UnsafePointer:
		if v.IsNil() {
			w.sb.WriteString("nil")
		} else {
			w.sb.WriteString("<" + v.Kind().String() + ">")
		}
	default:
		w.sb.WriteString(fmt.Sprintf("<%s>", v.Kind()))
	}
}

func (w *walker) time(v reflect.Value) {
	if v.CanInterface() {
		t := v.Interface().(time.Time)
		w.sb.WriteString("T(" + strconv.FormatInt(t.UnixNano(), 10) + ")")
		return
	}
	if v.CanAddr() {
		t := *(*time.Time)(unsafe.Pointer(v.UnsafeAddr()))
		w.sb.WriteString("T(" + strconv.FormatInt(t.UnixNano(), 10) + ")")
		return
	}
	// unexported + unaddressable: raw fields (wall carries a monotonic reading if time.Now() was stored)
	w.sb.WriteString(fmt.Sprintf("Traw(%d,%d)", v.Field(0).Uint(), v.Field(1).Int()))
}

func isZero(v reflect.Value) bool {
	switch v.Kind() {
	case reflect.Ptr, reflect.Interface, reflect.Func, reflect.Chan:
		return v.IsNil()
	case reflect.Map, reflect.Slice:
		return v.Len() == 0
	case reflect.Struct:
		if v.Type() == timeType {
			if v.CanInterface() {
				return v.Interface().(time.Time).IsZero()
			}
			return v.Field(0).Uint() == 0 && v.Field(1).Int() == 0
		}
		for i := 0; i < v.NumField(); i++ {
			if !isZero(v.Field(i)) {
				return false
			}
		}
		return true
	case reflect.Array:
		for i := 0; i < v.Len(); i++ {
			if !isZero(v.Index(i)) {
				return false
			}
		}
		return true
	case reflect.String:
		return v.Len() == 0
	case reflect.Bool:
		return !v.Bool()
	case reflect.Int, reflect.Int8, reflect.Int16, reflect.Int32, reflect.Int64:
		return v.Int() == 0
	case reflect.Uint, reflect.Uint8, reflect.Uint16, reflect.Uint32, reflect.Uint64, reflect.Uintptr:
		return v.Uint() == 0
	case reflect.Float32, reflect.Float64:
		return v.Float() == 0
	}
	return false
}

// Compress replaces every marked index \x01n\x02 by its dense rank among all marked values
// (0 stays 0). Order-preserving renaming: see DESIGN §2.2 for why this preserves futures.
func Compress(s string) string {
	if !strings.ContainsRune(s, 1) {
		return s
	}
	set := map[uint64]bool{}
	for i := 0; i < len(s); i++ {
		if s[i] == 1 {
			j := strings.IndexByte(s[i:], 2)
			n, _ := strconv.ParseUint(s[i+1:i+j], 10, 64)
			set[n] = true
			i += j
		}
	}
	vals := make([]uint64, 0, len(set))
	for n := range set {
		if n != 0 {
			vals = append(vals, n)
		}
	}
	sort.Slice(vals, func(i, j int) bool { return vals[i] < vals[j] })
	rank := map[uint64]int{0: 0}
	for i, n := range vals {
		rank[n] = i + 1
	}
	var sb strings.Builder
	sb.Grow(len(s))
	for i := 0; i < len(s); i++ {
		if s[i] == 1 {
			j := strings.IndexByte(s[i:], 2)
			n, _ := strconv.ParseUint(s[i+1:i+j], 10, 64)
			sb.WriteString("i" + strconv.Itoa(rank[n]))
			i += j
			continue
		}
		sb.WriteByte(s[i])
	}
	return sb.String()
}
