// Package sched is a cooperative scheduler for exhaustive exploration of thread interleavings
// of real code (engine E2, lock level). Harness threads are real goroutines; exactly one runs at
// a time. A thread stops at every scheduling point (before acquiring a shimmed lock, and wherever
// the harness calls Yield); the driver then picks which thread continues. Lock state is modelled,
// so no thread ever blocks in the runtime: "nothing enabled" is a deadlock, reported as such.
package sched

import (
	"fmt"
	"os"
	"runtime/pprof"
	"sync"
	"sync/atomic"
	"time"
)

var hangTimeout = 60 * time.Second

// SetHangTimeout changes how long a thread may run without reaching a scheduling point.
func SetHangTimeout(d time.Duration) { hangTimeout = d }

type OpKind int

const (
	OpYield OpKind = iota
	OpLock
	OpRLock
	OpWait
)

// Lockable is the modelled state of a shimmed mutex.
type Lockable struct {
	Writer  bool
	Readers int
}

type thread struct {
	id      int
	name    string
	resume  chan struct{}
	pending OpKind
	lock    *Lockable
	cond    func() bool
	done    bool
	points  int
	started bool
}

// Run is one execution under the scheduler.
type Run struct {
	threads []*thread
	cur     *thread
	yielded chan *thread // the running thread reports here when it stops or finishes
	// choices[i] is the index (into the canonical enabled list) taken at decision i
	prefix  []int
	Choices []int
	Alts    []int
	// Preempt[i]: taking a choice other than 0 at decision i switches away from a thread that could continue
	Preempt  []bool
	Trace    []string
	Deadlock bool
	// Hung is set when a thread blocked outside the scheduler's model (harness limitation)
	Hung     string
	panicVal any
	// TolerateDivergence: a prefix that cannot be replayed sets Diverged instead of panicking (the threads
	// of that execution stay parked for good)
	TolerateDivergence bool
	Diverged           bool
	// Atomics: atomic operations of the shimmed packages are scheduling points too (vatomic)
	Atomics bool
	// evaluating: the driver is computing the enabled set (wait conditions may run shimmed atomics)
	evaluating bool
}

var active atomic.Pointer[Run]

// Active returns the running exploration, or nil (every shim then uses the real primitive).
func Active() *Run { return active.Load() }

func New(prefix []int) *Run {
	return &Run{prefix: prefix, yielded: make(chan *thread)}
}

// Go registers a harness thread.
func (r *Run) Go(name string, body func()) {
	t := &thread{id: len(r.threads), name: name, resume: make(chan struct{})}
	r.threads = append(r.threads, t)
	go func() {
		<-t.resume
		defer func() {
			if p := recover(); p != nil {
				r.panicVal = fmt.Sprintf("thread %s panicked: %v", name, p)
			}
			t.done = true
			r.yielded <- t
		}()
		body()
	}()
}

func (t *thread) enabled() bool {
	if t.done {
		return false
	}
	switch t.pending {
	case OpLock:
		return !t.lock.Writer && t.lock.Readers == 0
	case OpRLock:
		return !t.lock.Writer
	case OpWait:
		return t.cond()
	}
	return true
}

// Execute runs all registered threads to completion under the prefix, then first-choice policy.
func (r *Run) Execute() {
	if !active.CompareAndSwap(nil, r) {
		panic("sched: an exploration is already running")
	}
	defer active.Store(nil)
	for {
		// canonical enabled order: the thread that just ran first (if it can continue), then ascending ids
		var en []*thread
		r.evaluating = true
		if r.cur != nil && r.cur.enabled() {
			en = append(en, r.cur)
		}
		for _, t := range r.threads {
			if t != r.cur && t.enabled() {
				en = append(en, t)
			}
		}
		r.evaluating = false
		if len(en) == 0 {
			for _, t := range r.threads {
				if !t.done {
					r.Deadlock = true
				}
			}
			return
		}
		pos := len(r.Choices)
		c := 0
		if pos < len(r.prefix) {
			c = r.prefix[pos]
			if c >= len(en) {
				if r.TolerateDivergence {
					// the execution is not a function of the schedule alone (Go map iteration order inside the
					// code under test changed what is enabled here): the caller runs the prefix again
					r.Diverged = true
					return
				}
				panic(fmt.Sprintf("sched: replay divergence at decision %d: choice %d of %d; trace %v", pos, c, len(en), r.Trace))
			}
		}
		r.Choices = append(r.Choices, c)
		r.Alts = append(r.Alts, len(en))
		r.Preempt = append(r.Preempt, r.cur != nil && len(en) > 0 && en[0] == r.cur)
		t := en[c]
		// grant the pending acquire
		switch t.pending {
		case OpLock:
			t.lock.Writer = true
		case OpRLock:
			t.lock.Readers++
		}
		t.pending, t.lock, t.cond = OpYield, nil, nil
		r.cur = t
		r.Trace = append(r.Trace, t.name)
		t.started = true
		t.resume <- struct{}{}
		select {
		case <-r.yielded:
		case <-time.After(hangTimeout):
			// the running thread blocked in something the scheduler does not model (a real lock, a channel):
			// this is a limitation of the harness, reported as such and never as a property violation
			r.Hung = fmt.Sprintf("thread %s did not reach a scheduling point within %v; trace %v", t.name, hangTimeout, r.Trace)
			if f, err := os.Create(os.TempDir() + "/verif-sched-hang.stacks"); err == nil {
				_ = pprof.Lookup("goroutine").WriteTo(f, 2)
				f.Close()
			}
			return
		}
		if r.panicVal != nil {
			panic(r.panicVal)
		}
	}
}

// Waiting describes the threads that are stuck when a deadlock was found.
func (r *Run) Waiting() []string {
	var out []string
	for _, t := range r.threads {
		if t.done {
			continue
		}
		k := map[OpKind]string{OpYield: "yield", OpLock: "Lock", OpRLock: "RLock", OpWait: "condition"}[t.pending]
		st := ""
		if t.lock != nil {
			st = fmt.Sprintf(" (writer=%v readers=%d)", t.lock.Writer, t.lock.Readers)
		}
		out = append(out, t.name+" waits for "+k+st)
	}
	return out
}

// point parks the calling (= currently running) thread with its pending operation.
func (r *Run) point(k OpKind, l *Lockable) {
	if r.evaluating {
		if k == OpYield {
			return // a wait condition read an atomic: no scheduling point inside the driver
		}
		panic("sched: a wait condition tried to take a lock")
	}
	t := r.cur
	t.pending, t.lock = k, l
	t.points++
	r.yielded <- t
	<-t.resume
}

// Yield is an explicit scheduling point for harness code.
func Yield() {
	if r := Active(); r != nil {
		r.point(OpYield, nil)
	}
}

// AtomicPoint is the scheduling point in front of a shimmed atomic operation; only runs that ask for it
// (Run.Atomics) stop there.
func AtomicPoint() {
	if r := Active(); r != nil && r.Atomics {
		r.point(OpYield, nil)
	}
}

// WaitUntil parks the calling thread until cond holds (a modelled blocking wait: a channel receive, a
// condition variable). cond is evaluated by the driver while every thread is parked, so it may read any state.
// A thread whose condition never becomes true counts towards a deadlock.
func WaitUntil(cond func() bool) {
	if r := Active(); r != nil {
		t := r.cur
		t.cond = cond
		r.point(OpWait, nil)
	}
}

// Acquire is called by the shimmed mutexes before Lock (write=true) / RLock.
func (r *Run) Acquire(l *Lockable, write bool) {
	if write {
		r.point(OpLock, l)
	} else {
		r.point(OpRLock, l)
	}
}

// Explore enumerates every schedule (bound < 0) or every schedule with at most bound preemptions.
// build must create a fresh system and register its threads on the Run; check inspects the outcome.
func Explore(bound int, build func(r *Run), check func(r *Run)) (executions int64, deadlocks int64) {
	var mu sync.Mutex
	_ = mu
	var rec func(prefix []int, used int)
	rec = func(prefix []int, used int) {
		r := New(prefix)
		build(r)
		r.Execute()
		executions++
		if r.Deadlock {
			deadlocks++
		}
		check(r)
		for i := len(prefix); i < len(r.Alts); i++ {
			cost := 0
			if r.Preempt[i] {
				cost = 1
			}
			if bound >= 0 && used+cost > bound {
				continue
			}
			for alt := 1; alt < r.Alts[i]; alt++ {
				np := make([]int, i+1)
				copy(np, r.Choices[:i])
				np[i] = alt
				rec(np, used+cost)
			}
		}
	}
	rec(nil, 0)
	return
}
