// Package c15: discovery-chain compilation is closed, terminating and deterministic.
package c15

import (
	"fmt"
	"sort"
	"strings"
	"time"

	"github.com/hashicorp/consul/agent/configentry"
	"github.com/hashicorp/consul/agent/consul/discoverychain"
	"github.com/hashicorp/consul/agent/structs"
	"github.com/hashicorp/consul/internal/verifmc/cmdlib"
	"github.com/hashicorp/consul/internal/verifmc/dump"
	"github.com/hashicorp/consul/internal/verifmc/ev"
	"github.com/hashicorp/consul/internal/verifmc/guard"
	"github.com/hashicorp/consul/internal/verifmc/world"
)

// (one name has an upper-case letter: entry names are looked up case-insensitively by the store's index, so every
// place that matches entries by name has to agree on how it folds them)
var services = []string{"a", "B", "c"}

// variants of a stored entry that are tried as in-place updates (same kind and name, other content)
var variants = map[string][]cmdlib.CE{}

func init() {
	for _, e := range menu() {
		variants[kindName(e)] = append(variants[kindName(e)], e)
	}
	for _, s := range services {
		for _, proto := range []string{"http", "tcp"} {
			s, proto := s, proto
			e := cmdlib.CE{Label: "service-defaults/" + s + ":" + proto + "+external-sni", Make: func() structs.ConfigEntry {
				return &structs.ServiceConfigEntry{Kind: structs.ServiceDefaults, Name: s, Protocol: proto, ExternalSNI: s + ".example.com"}
			}}
			variants[kindName(e)] = append(variants[kindName(e)], e)
		}
	}
}

// extended: menu items added after the first pass; the quick tier admits at most one of them in a set of maximal size
var extended = map[string]bool{}

// menu of entries over the three services
func menu() []cmdlib.CE {
	var m []cmdlib.CE
	m = append(m, cmdlib.ProxyDefaults("http"))
	for _, s := range services {
		m = append(m, cmdlib.SvcDefaults(s, "http"), cmdlib.SvcDefaults(s, "tcp"))
		m = append(m, cmdlib.Resolver(s, cmdlib.ResolverOpt{Subsets: []string{"v1", "v2"}, DefaultSubset: "v1"}))
		for _, t := range services {
			if t != s {
				m = append(m, cmdlib.Resolver(s, cmdlib.ResolverOpt{Redirect: t}))
				m = append(m, cmdlib.Resolver(s, cmdlib.ResolverOpt{Failover: t}))
				m = append(m, cmdlib.Router(s, cmdlib.Route{PathPrefix: "/admin", Service: t}))
				m = append(m, cmdlib.Splitter(s, cmdlib.Leg{Service: s, Weight: 50}, cmdlib.Leg{Service: t, Weight: 50}))
			}
		}
		m = append(m, cmdlib.Resolver(s, cmdlib.ResolverOpt{Redirect: s, RedirectSubset: "v1", Subsets: []string{"v1"}}))
		o := others(s)
		m = append(m, cmdlib.Splitter(s, cmdlib.Leg{Service: o[0], Weight: 60}, cmdlib.Leg{Service: o[1], Weight: 40}))
		m = append(m, cmdlib.Router(s, cmdlib.Route{PathPrefix: "/x", Service: o[0], Subset: "v1"}))
		// a leg to a service that has no entries of its own (keeps diamonds acyclic), a router that reaches
		// both other services, and targets-form failover with a cluster-peer target in front of a local one
		ext := []cmdlib.CE{
			cmdlib.Splitter(s, cmdlib.Leg{Service: s, Weight: 50}, cmdlib.Leg{Service: "d", Weight: 50}),
			cmdlib.Router(s, cmdlib.Route{PathPrefix: "/p", Service: o[0]}, cmdlib.Route{PathPrefix: "/q", Service: o[1]}),
			cmdlib.Resolver(s, cmdlib.ResolverOpt{FailoverTargets: []string{"peer:cluster-02", o[0]}}),
			// a failover section that applies to one subset only, and a targets-form failover that names a subset of another service
			cmdlib.Resolver(s, cmdlib.ResolverOpt{Subsets: []string{"v1", "v2"}, DefaultSubset: "v1", Failover: o[0], FailoverKey: "v1"}),
			cmdlib.Resolver(s, cmdlib.ResolverOpt{FailoverTargets: []string{o[0] + "/v2"}}),
		}
		for _, e := range ext {
			extended[e.Label] = true
		}
		m = append(m, ext...)
	}
	return m
}

func others(s string) []string {
	var o []string
	for _, t := range services {
		if t != s {
			o = append(o, t)
		}
	}
	return o
}

func kindName(e cmdlib.CE) string {
	c := e.Make()
	return c.GetKind() + "/" + c.GetName()
}

type tcase struct {
	set []int // indexes into menu
}

func cases(quick bool) []tcase {
	m := menu()
	maxK := 3
	if !quick {
		maxK = 4
	}
	var out []tcase
	var rec func(start int, cur []int)
	rec = func(start int, cur []int) {
		if len(cur) > 0 {
			out = append(out, tcase{append([]int{}, cur...)})
		}
		if len(cur) == maxK {
			return
		}
		for i := start; i < len(m); i++ {
			dup := false
			for _, j := range cur {
				if kindName(m[j]) == kindName(m[i]) {
					dup = true
				}
			}
			if dup {
				continue
			}
			if quick && len(cur) == maxK-1 && extended[m[i].Label] {
				n := 0
				for _, j := range cur {
					if extended[m[j].Label] {
						n++
					}
				}
				if n > 0 {
					continue
				}
			}
			// keep the size-maxK layer affordable: the last element must be a router/splitter/resolver
			if len(cur) == maxK-1 && quick {
				k := m[i].Make().GetKind()
				if k != structs.ServiceRouter && k != structs.ServiceSplitter && k != structs.ServiceResolver {
					continue
				}
			}
			rec(i+1, append(cur, i))
		}
	}
	rec(0, nil)
	return out
}

func compileReq(svc, overrideProto string) discoverychain.CompileRequest {
	return discoverychain.CompileRequest{ServiceName: svc, EvaluateInNamespace: "default", EvaluateInPartition: "default",
		EvaluateInDatacenter: "dc1", EvaluateInTrustDomain: "11111111-2222-3333-4444-555555555555.consul", OverrideProtocol: overrideProto}
}

var chainDump = &dump.Options{}

// closure checks the compiled graph: every referenced node and target exists, every path from
// the start ends at a resolver with a target, no cycle, no unreachable node.
func closure(ch *structs.CompiledDiscoveryChain) string {
	if ch == nil {
		return "nil chain without error"
	}
	if _, ok := ch.Nodes[ch.StartNode]; !ok {
		return fmt.Sprintf("start node %q does not exist", ch.StartNode)
	}
	reach := map[string]bool{}
	onPath := map[string]bool{}
	var walk func(id string, depth int) string
	walk = func(id string, depth int) string {
		n, ok := ch.Nodes[id]
		if !ok {
			return fmt.Sprintf("node %q is referenced but does not exist", id)
		}
		if onPath[id] {
			return fmt.Sprintf("cycle through node %q in a chain that compiled without error", id)
		}
		if depth > 64 {
			return "path longer than 64 nodes"
		}
		reach[id] = true
		onPath[id] = true
		defer func() { onPath[id] = false }()
		switch {
		case n.IsRouter():
			if len(n.Routes) == 0 {
				return fmt.Sprintf("router node %q has no routes", id)
			}
			for _, r := range n.Routes {
				if e := walk(r.NextNode, depth+1); e != "" {
					return e
				}
			}
		case n.IsSplitter():
			if len(n.Splits) == 0 {
				return fmt.Sprintf("splitter node %q has no splits", id)
			}
			for _, s := range n.Splits {
				if e := walk(s.NextNode, depth+1); e != "" {
					return e
				}
			}
		case n.IsResolver():
			if n.Resolver == nil || n.Resolver.Target == "" {
				return fmt.Sprintf("resolver node %q has no target", id)
			}
			if _, ok := ch.Targets[n.Resolver.Target]; !ok {
				return fmt.Sprintf("resolver node %q points to target %q which does not exist", id, n.Resolver.Target)
			}
			if n.Resolver.Failover != nil {
				for _, t := range n.Resolver.Failover.Targets {
					if _, ok := ch.Targets[t]; !ok {
						return fmt.Sprintf("failover target %q of node %q does not exist", t, id)
					}
				}
			}
		default:
			return fmt.Sprintf("node %q has unknown type %q", id, n.Type)
		}
		return ""
	}
	if e := walk(ch.StartNode, 0); e != "" {
		return e
	}
	for id := range ch.Nodes {
		if !reach[id] {
			return fmt.Sprintf("node %q is not reachable from the start node", id)
		}
	}
	return ""
}

func permutations(n int) [][]int {
	var out [][]int
	var rec func(cur []int, used []bool)
	rec = func(cur []int, used []bool) {
		if len(cur) == n {
			out = append(out, append([]int{}, cur...))
			return
		}
		for i := 0; i < n; i++ {
			if !used[i] {
				used[i] = true
				rec(append(cur, i), used)
				used[i] = false
			}
		}
	}
	rec(nil, make([]bool, n))
	return out
}

func cfgDump(w *world.World) string {
	d := w.Dump(nil)
	var idx []string
	for _, r := range d["index"] {
		if strings.Contains(r, "config-entries") {
			idx = append(idx, r)
		}
	}
	return strings.Join(d["config-entries"], "\n") + "\n" + strings.Join(idx, "\n")
}

func runCase(w *guard.W, m []cmdlib.CE, tc tcase) {
	var labels []string
	for _, i := range tc.set {
		labels = append(labels, m[i].Label)
	}
	replay := map[string]any{"entries": labels}
	// (A) direct compilation of the unvalidated set: must terminate (the supervisor watches), and be
	// an error or a closed graph; deterministic over repeated compilations
	set := configentry.NewDiscoveryChainSet()
	for _, i := range tc.set {
		e := m[i].Make()
		e.Normalize()
		if e.Validate() != nil {
			continue
		}
		set.AddEntries(e)
	}
	for _, svc := range services {
		for _, op := range []string{"", "tcp", "http"} {
			var first string
			for rep := 0; rep < 3; rep++ {
				ch, err := discoverychain.Compile(withEntries(compileReq(svc, op), set))
				w.Add("compilations", 1)
				var cur string
				if err != nil {
					cur = "error:" + err.Error()
					w.Add("compile_errors", 1)
				} else {
					if e := failoverRule(ch, set); e != "" {
						w.Violate("C15:compiled-failover-differs-from-the-resolver-entry:direct", fmt.Sprintf("chain of %q (override protocol %q): %s\nentries: %v", svc, op, e, labels), replay)
					}
					if e := closure(ch); e != "" {
						w.Violate("C15:compiled-graph-not-closed:direct", fmt.Sprintf("chain of %q (override protocol %q) compiled without error but %s\nentries: %v", svc, op, e, labels), replay)
					}
					cur = dump.Value(ch, chainDump)
				}
				if rep == 0 {
					first = cur
				} else if cur != first {
					w.Violate("C15:compilation-not-deterministic", fmt.Sprintf("two compilations of the chain of %q over the same entries differ\nentries: %v", svc, labels), replay)
				}
			}
		}
	}
	// (B) through the store, every write order
	finals := map[string]string{} // stored entry set -> chains dump
	firstPerm := true
	for _, perm := range permutations(len(tc.set)) {
		wd := world.New()
		var order []string
		for _, pi := range perm {
			e := m[tc.set[pi]]
			order = append(order, e.Label)
			before := cfgDump(wd)
			res, ok := wd.Apply(e.Upsert())
			if !ok {
				continue
			}
			w.Add("store_writes", 1)
			rejected := strings.HasPrefix(res, "err:") || strings.HasPrefix(res, "PANIC")
			if rejected {
				w.Add("store_rejections", 1)
				if after := cfgDump(wd); after != before {
					w.Violate("C15:rejected-write-changed-entries", fmt.Sprintf("write of %s was rejected (%s) but the stored entries changed\norder: %v", e.Label, res, order), map[string]any{"ops": wd.Hist})
				}
				continue
			}
			chains := checkChains(w, wd, "upsert "+e.Label, order)
			_ = chains
		}
		// deletes from the final state
		for _, pi := range perm {
			e := m[tc.set[pi]]
			cl := wd.Clone(nil)
			before := cfgDump(cl)
			res, _ := cl.Apply(e.Delete())
			w.Add("store_deletes", 1)
			if strings.HasPrefix(res, "err:") {
				if cfgDump(cl) != before {
					w.Violate("C15:rejected-delete-changed-entries", fmt.Sprintf("delete of %s was rejected (%s) but the stored entries changed", e.Label, res), map[string]any{"ops": cl.Hist})
				}
				continue
			}
			checkChains(w, cl, "delete "+e.Label, append(append([]string{}, order...), "delete "+e.Label))
		}
		// in-place updates from the final state (first write order only): every other menu item of the same kind and name,
		// and service-defaults that keep the protocol and add an external SNI
		if firstPerm {
			firstPerm = false
			for _, pi := range perm {
				stored := m[tc.set[pi]]
				for vi, v := range variants[kindName(stored)] {
					if v.Label == stored.Label || (vi > 5 && !strings.Contains(v.Label, "external-sni")) {
						continue
					}
					cl := wd.Clone(nil)
					before := cfgDump(cl)
					res, ok := cl.Apply(v.Upsert())
					if !ok {
						continue
					}
					w.Add("store_updates", 1)
					if strings.HasPrefix(res, "err:") || strings.HasPrefix(res, "PANIC") {
						if cfgDump(cl) != before {
							w.Violate("C15:rejected-write-changed-entries", fmt.Sprintf("update to %s was rejected (%s) but the stored entries changed", v.Label, res), map[string]any{"ops": cl.Hist})
						}
						continue
					}
					checkChains(w, cl, "update to "+v.Label, append(append([]string{}, order...), "update to "+v.Label))
				}
			}
		}
		key := strings.Join(wd.Dump(&dump.Options{MaskIndexes: true})["config-entries"], "\n")
		cd := checkChains(nil, wd, "", nil)
		if prev, ok := finals[key]; ok && prev != cd {
			w.Violate("C15:chain-depends-on-write-order", fmt.Sprintf("the same stored entries compile to different chains depending on the order they were written\nentries: %v", labels), replay)
		}
		finals[key] = cd
	}
}

func withEntries(r discoverychain.CompileRequest, s *configentry.DiscoveryChainSet) discoverychain.CompileRequest {
	r.Entries = s
	return r
}

// checkChains compiles the chain of every service through the store; an accepted write must leave
// every chain compilable and closed. Returns a dump of all chains.
func checkChains(w *guard.W, wd *world.World, after string, order []string) string {
	var sb strings.Builder
	for _, svc := range services {
		_, ents, rerr := wd.Store().ReadDiscoveryChainConfigEntries(nil, svc, nil)
		var ch *structs.CompiledDiscoveryChain
		err := rerr
		if rerr == nil {
			ch, err = discoverychain.Compile(withEntries(compileReq(svc, ""), ents))
		}
		if w != nil {
			w.Add("store_compilations", 1)
		}
		if err != nil {
			if w != nil {
				w.Violate("C15:accepted-write-left-uncompilable-chain", fmt.Sprintf("after the accepted %s the chain of %q no longer compiles: %v\norder: %v", after, svc, err, order), map[string]any{"ops": wd.Hist})
			}
			sb.WriteString(svc + ":error\n")
			continue
		}
		if e := failoverRule(ch, ents); e != "" && w != nil {
			w.Violate("C15:compiled-failover-differs-from-the-resolver-entry:store", fmt.Sprintf("after %s the chain of %q: %s\norder: %v", after, svc, e, order), map[string]any{"ops": wd.Hist})
		}
		if e := closure(ch); e != "" && w != nil {
			w.Violate("C15:compiled-graph-not-closed:store", fmt.Sprintf("after %s the chain of %q compiled but %s\norder: %v", after, svc, e, order), map[string]any{"ops": wd.Hist})
		}
		// The store loads only the entries it considers related to the chain. Compiling over every stored
		// entry must give the same chain: an entry the selection misses is one that write-time validation
		// and every later compilation silently ignore.
		if w != nil {
			_, all, aerr := wd.Store().ConfigEntries(nil, structs.WildcardEnterpriseMetaInDefaultPartition())
			if aerr == nil {
				full := configentry.NewDiscoveryChainSet()
				full.AddEntries(all...)
				fch, ferr := discoverychain.Compile(withEntries(compileReq(svc, ""), full))
				switch {
				case ferr != nil:
					w.Violate("C15:stored-entries-do-not-compile-although-the-store-says-so", fmt.Sprintf("after the accepted %s the chain of %q compiles over the entries the store selects but not over all stored entries: %v\norder: %v", after, svc, ferr, order), map[string]any{"ops": wd.Hist})
				case dump.Value(fch, chainDump) != dump.Value(ch, chainDump):
					w.Violate("C15:chain-differs-between-selected-and-all-entries", fmt.Sprintf("after %s the chain of %q differs when compiled over all stored entries\norder: %v", after, svc, order), map[string]any{"ops": wd.Hist})
				}
			}
		}
		sb.WriteString(svc + ":" + dump.Value(ch, chainDump) + "\n")
	}
	return sb.String()
}

func Run(c *ev.Ctx) {
	quick := c.Quick()
	m := menu()
	cs := cases(quick)
	if guard.IsWorker() {
		guard.RunWorker(len(cs), func(w *guard.W, i int) { runCase(w, m, cs[i]) })
		return
	}
	label := func(i int) []string {
		var l []string
		for _, j := range cs[i].set {
			l = append(l, m[j].Label)
		}
		return l
	}
	cnt := guard.Run(&guard.Config{Ctx: c, ID: "C15", N: len(cs), Workers: 12, Stall: 25 * time.Second, MemBytes: 6 << 30,
		Hung: func(i int, why string) {
			c.Violate("C15:compilation-does-not-terminate", fmt.Sprintf("compiling or validating the entry set %v does not terminate (%s)", label(i), why), map[string]any{"entries": label(i)})
		}})
	evals := cnt["compilations"] + cnt["store_compilations"]
	c.Set("evaluations", evals)
	c.Set("distinct_nontrivial", len(cs))
	c.Set("entry_sets", len(cs))
	c.Set("menu_size", len(m))
	for k, v := range cnt {
		c.Set(k, v)
	}
	c.Set("rule", "every set of <=K entries (distinct kind/name) from a menu of router/splitter/resolver(redirect, failover, subsets)/service-defaults/proxy-defaults entries over services a,b,c: (A) compiled directly (unvalidated, so cycles and protocol mismatches are included) for every service x override protocol, 3 times; (B) written to a real store in every order, then each entry deleted; oracles: termination (watchdog-supervised worker processes), closed graph, determinism, rejected write leaves entries unchanged, accepted write leaves every chain compilable, same stored set => same chains")
	var ml []string
	for _, e := range m {
		ml = append(ml, e.Label)
	}
	sort.Strings(ml)
	c.Sample(map[string]any{"menu": ml, "example_set": label(len(cs) / 2)})
	c.Assume("non-termination is detected by a 25 s no-progress watchdog on worker subprocesses with a 6 GiB address-space limit (a compile normally takes microseconds)")
}

// failoverRule: for every resolver node, the failover section of the target service's resolver entry that applies to
// the node's subset (the section keyed by that subset, else "*") has to show up in the compiled node: (a) if it names
// any target other than the node's own, the node carries failover targets; (b) a targets-form entry naming subset S of
// service X (X without a redirect) yields a failover target of X with subset S.
func failoverRule(ch *structs.CompiledDiscoveryChain, set *configentry.DiscoveryChainSet) string {
	if ch == nil || set == nil {
		return ""
	}
	for id, n := range ch.Nodes {
		if !n.IsResolver() || n.Resolver == nil {
			continue
		}
		tgt, ok := ch.Targets[n.Resolver.Target]
		if !ok || tgt.Peer != "" || tgt.Datacenter != "dc1" {
			continue
		}
		ent := set.Resolvers[structs.NewServiceID(tgt.Service, nil)]
		if ent == nil || len(ent.Failover) == 0 {
			continue
		}
		fo, has := ent.Failover[tgt.ServiceSubset]
		if !has {
			fo, has = ent.Failover["*"]
		}
		if !has {
			continue
		}
		type want struct{ svc, subset string }
		var wants []want
		other := false
		if len(fo.Targets) > 0 {
			for _, t := range fo.Targets {
				sv := t.Service
				if sv == "" {
					sv = tgt.Service
				}
				if t.Peer != "" || t.Datacenter != "" || sv != tgt.Service || (t.ServiceSubset != "" && t.ServiceSubset != tgt.ServiceSubset) {
					other = true
				}
				if t.Peer == "" && t.ServiceSubset != "" {
					wants = append(wants, want{sv, t.ServiceSubset})
				}
			}
		} else {
			sv := fo.Service
			if sv == "" {
				sv = tgt.Service
			}
			if sv != tgt.Service || (fo.ServiceSubset != "" && fo.ServiceSubset != tgt.ServiceSubset) || len(fo.Datacenters) > 0 {
				other = true
			}
		}
		if other && (n.Resolver.Failover == nil || len(n.Resolver.Failover.Targets) == 0) {
			return fmt.Sprintf("resolver node %q (service %q subset %q) carries no failover although the resolver entry of %q has a failover section for it", id, tgt.Service, tgt.ServiceSubset, tgt.Service)
		}
		for _, wt := range wants {
			if r := set.Resolvers[structs.NewServiceID(wt.svc, nil)]; r != nil && r.Redirect != nil {
				continue
			}
			found := false
			if n.Resolver.Failover != nil {
				for _, ft := range n.Resolver.Failover.Targets {
					if t2, ok := ch.Targets[ft]; ok && t2.Service == wt.svc && t2.ServiceSubset == wt.subset {
						found = true
					}
				}
			}
			if !found {
				return fmt.Sprintf("resolver node %q: the failover target %s/%s named by the resolver entry of %q is not among the compiled failover targets", id, wt.svc, wt.subset, tgt.Service)
			}
		}
	}
	return ""
}
