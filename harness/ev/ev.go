// Package ev is the reporting side of every check: evidence file, violation artefacts,
// known-findings classification, exit code.
package ev

import (
	"crypto/sha1"
	"encoding/hex"
	"encoding/json"
	"fmt"
	"os"
	"path/filepath"
	"sort"
	"strconv"
	"strings"
	"sync"
	"time"
)

const VerifDir = "/verif"

// Violation is one replayable counterexample.
type Violation struct {
	Property  string `json:"property"`
	Signature string `json:"signature"` // class of the failure: invariant + op kind + table/field class
	Message   string `json:"message"`
	Replay    any    `json:"replay"` // op list / schedule / input, enough for --replay
	Count     int    `json:"count"`  // how many explored cases had this signature
}

type KnownFinding struct {
	Property    string `json:"property"`
	Signature   string `json:"signature"`
	Status      string `json:"status"` // "known" | "fixed"
	Commit      string `json:"commit,omitempty"`
	Description string `json:"description"`
}

type Ctx struct {
	ID    string
	Tier  string
	Seed  int64
	Level string

	start time.Time
	mu    sync.Mutex
	viol  map[string]*Violation
	order []string

	Cov         map[string]any
	Assumptions []string
	samples     []any
	maxSamples  int

	// Deadline: internal budget. A run that hits it finishes with exhaustive=false, exit 0.
	Deadline time.Time
	capped   bool
	capNote  string

	harnessErrs []string
}

func New(id, tier, level string) *Ctx {
	seed, _ := strconv.ParseInt(os.Getenv("VERIF_SEED"), 10, 64)
	c := &Ctx{ID: id, Tier: tier, Level: level, Seed: seed, start: time.Now(),
		viol: map[string]*Violation{}, Cov: map[string]any{}, maxSamples: 12}
	budget := 20 * time.Minute
	if tier == "quick" {
		budget = 150 * time.Second
	}
	if s := os.Getenv("VERIF_BUDGET_S"); s != "" {
		if n, err := strconv.Atoi(s); err == nil {
			budget = time.Duration(n) * time.Second
		}
	}
	c.Deadline = c.start.Add(budget)
	return c
}

func (c *Ctx) Quick() bool { return c.Tier == "quick" }

// Expired reports whether the internal time budget is used up; callers stop expanding and the
// run is reported with exhaustive=false.
func (c *Ctx) Expired() bool {
	if time.Now().After(c.Deadline) {
		c.mu.Lock()
		if !c.capped {
			c.capped = true
			c.capNote = "internal time budget reached"
		}
		c.mu.Unlock()
		return true
	}
	return false
}

func (c *Ctx) Cap(note string) {
	c.mu.Lock()
	c.capped = true
	if c.capNote == "" {
		c.capNote = note
	} else if !strings.Contains(c.capNote, note) {
		c.capNote += "; " + note
	}
	c.mu.Unlock()
}

func (c *Ctx) Capped() bool { c.mu.Lock(); defer c.mu.Unlock(); return c.capped }

func (c *Ctx) Sample(s any) {
	c.mu.Lock()
	if len(c.samples) < c.maxSamples {
		c.samples = append(c.samples, s)
	}
	c.mu.Unlock()
}

func (c *Ctx) Assume(s string) {
	c.mu.Lock()
	for _, a := range c.Assumptions {
		if a == s {
			c.mu.Unlock()
			return
		}
	}
	c.Assumptions = append(c.Assumptions, s)
	c.mu.Unlock()
}

func (c *Ctx) Set(k string, v any) { c.mu.Lock(); c.Cov[k] = v; c.mu.Unlock() }
func (c *Ctx) Add(k string, n int64) {
	c.mu.Lock()
	cur, _ := c.Cov[k].(int64)
	c.Cov[k] = cur + n
	c.mu.Unlock()
}

// Violate records a violation; the first one reported per signature (BFS order => shortest) is
// kept as the replay artefact, later ones only count. prefer=true replaces a kept witness when the
// new one is smaller (callers pass size via replaySize).
func (c *Ctx) Violate(sig, msg string, replay any) {
	c.mu.Lock()
	defer c.mu.Unlock()
	if v, ok := c.viol[sig]; ok {
		v.Count++
		return
	}
	c.viol[sig] = &Violation{Property: c.ID, Signature: sig, Message: msg, Replay: replay, Count: 1}
	c.order = append(c.order, sig)
}

// HarnessError marks the run as unusable (exit code 2, never a VIOLATION): the machinery itself
// misbehaved (abstraction audit mismatch, non-reproducible alarm...).
func (c *Ctx) HarnessError(msg string) {
	c.mu.Lock()
	c.harnessErrs = append(c.harnessErrs, msg)
	c.mu.Unlock()
}

// HasSig reports whether a violation with this signature was already recorded (and confirmed).
func (c *Ctx) HasSig(sig string) bool {
	c.mu.Lock()
	defer c.mu.Unlock()
	_, ok := c.viol[sig]
	return ok
}

func (c *Ctx) NumViolations() int { c.mu.Lock(); defer c.mu.Unlock(); return len(c.viol) }

func loadKnown() []KnownFinding {
	b, err := os.ReadFile(filepath.Join(VerifDir, "known-findings.json"))
	if err != nil {
		return nil
	}
	var f struct {
		Findings []KnownFinding `json:"findings"`
	}
	if err := json.Unmarshal(b, &f); err != nil {
		fmt.Fprintf(os.Stderr, "known-findings.json unreadable: %v\n", err)
		return nil
	}
	return f.Findings
}

// Finish writes violation artefacts + evidence and returns the process exit code.
func (c *Ctx) Finish() int {
	known := loadKnown()
	c.mu.Lock()
	defer c.mu.Unlock()
	sort.Strings(c.order)
	unknown := 0
	knownHit := 0
	violDir := filepath.Join(VerifDir, "violations")
	if os.Getenv("VERIF_NO_EVIDENCE") != "" {
		violDir = filepath.Join(VerifDir, "build", "mut-violations")
	}
	_ = os.MkdirAll(violDir, 0o755)
	var vlist []map[string]any
	for _, sig := range c.order {
		v := c.viol[sig]
		isKnown := false
		for _, k := range known {
			if k.Property == c.ID && k.Status == "known" && k.Signature == sig {
				isKnown = true
			}
		}
		h := sha1.Sum([]byte(sig))
		path := filepath.Join(violDir, c.ID+"-"+hex.EncodeToString(h[:5])+".json")
		b, _ := json.MarshalIndent(v, "", " ")
		_ = os.WriteFile(path, b, 0o644)
		if isKnown {
			knownHit++
			fmt.Printf("KNOWN-FINDING: property=%s %s :: %s\n", c.ID, sig, oneLine(v.Message))
		} else {
			unknown++
			fmt.Printf("VIOLATION property=%s replay=%s\n", c.ID, path)
			fmt.Printf("  signature: %s (cases=%d)\n  %s\n", sig, v.Count, oneLine(v.Message))
		}
		vlist = append(vlist, map[string]any{"signature": sig, "known": isKnown, "cases": v.Count, "replay": path})
	}
	cov := c.Cov
	if _, ok := cov["exhaustive"]; !ok {
		cov["exhaustive"] = !c.capped
	} else if c.capped {
		cov["exhaustive"] = false
	}
	if c.capped {
		cov["cap"] = c.capNote
	}
	if len(c.samples) > 0 {
		cov["samples"] = c.samples
	}
	if len(vlist) > 0 {
		cov["violation_signatures"] = vlist
	}
	cov["known_findings_reported"] = knownHit
	if c.Assumptions == nil {
		c.Assumptions = []string{}
	}
	evd := map[string]any{
		"property_id": c.ID, "tier": c.Tier, "seed": c.Seed, "level": c.Level,
		"coverage": cov, "assumptions": c.Assumptions,
		"wall_s":     float64(int(time.Since(c.start).Seconds()*100)) / 100,
		"violations": unknown,
	}
	evDir := filepath.Join(VerifDir, "evidence")
	if os.Getenv("VERIF_NO_EVIDENCE") != "" {
		evDir = filepath.Join(VerifDir, "build", "mut-evidence") // mutant self-tests never touch the real evidence
	}
	_ = os.MkdirAll(evDir, 0o755)
	b, _ := json.MarshalIndent(evd, "", " ")
	if err := os.WriteFile(filepath.Join(evDir, c.ID+".json"), b, 0o644); err != nil {
		fmt.Fprintf(os.Stderr, "cannot write evidence: %v\n", err)
		return 3
	}
	fmt.Printf("%s tier=%s wall=%.1fs violations=%d known=%d exhaustive=%v\n", c.ID, c.Tier,
		time.Since(c.start).Seconds(), unknown, knownHit, cov["exhaustive"])
	if unknown > 0 {
		return 1
	}
	if len(c.harnessErrs) > 0 {
		for _, e := range c.harnessErrs {
			fmt.Printf("HARNESS-ERROR %s: %s\n", c.ID, e)
		}
		return 2
	}
	return 0
}

func oneLine(s string) string {
	s = strings.ReplaceAll(s, "\n", " | ")
	if len(s) > 600 {
		s = s[:600] + "…"
	}
	return s
}

// LoadReplay reads a violation artefact.
func LoadReplay(path string) (*Violation, json.RawMessage, error) {
	b, err := os.ReadFile(path)
	if err != nil {
		return nil, nil, err
	}
	var raw struct {
		Violation
		Replay json.RawMessage `json:"replay"`
	}
	if err := json.Unmarshal(b, &raw); err != nil {
		return nil, nil, err
	}
	v := raw.Violation
	return &v, raw.Replay, nil
}
