// Package c08r: the resolver-level half of C08 — decisions of a token do not depend on which other
// tokens were resolved before through the same resolver (identity, role, policy, authorizer caches).
package c08r

import (
	"context"
	"fmt"
	"strings"
	"time"

	"github.com/hashicorp/go-hclog"

	"github.com/hashicorp/consul/acl"
	"github.com/hashicorp/consul/agent/consul"
	"github.com/hashicorp/consul/agent/structs"
	"github.com/hashicorp/consul/agent/token"
	"github.com/hashicorp/consul/internal/verifmc/ev"
)

type tables struct {
	local    bool
	tokens   map[string]*structs.ACLToken
	policies map[string]*structs.ACLPolicy
	roles    map[string]*structs.ACLRole
}

func (b *tables) ACLDatacenter() string { return "dc1" }
func (b *tables) ResolveIdentityFromToken(secret string) (bool, structs.ACLIdentity, error) {
	if !b.local {
		return false, nil, nil
	}
	if t, ok := b.tokens[secret]; ok {
		return true, t, nil
	}
	return true, nil, acl.ErrNotFound
}
func (b *tables) ResolvePolicyFromID(id string) (bool, *structs.ACLPolicy, error) {
	if !b.local {
		return false, nil, nil
	}
	return true, b.policies[id], nil
}
func (b *tables) ResolveRoleFromID(id string) (bool, *structs.ACLRole, error) {
	if !b.local {
		return false, nil, nil
	}
	return true, b.roles[id], nil
}
func (b *tables) IsServerManagementToken(string) bool { return false }
func (b *tables) RPC(ctx context.Context, method string, args interface{}, reply interface{}) error {
	switch method {
	case "ACL.TokenRead":
		req := args.(*structs.ACLTokenGetRequest)
		reply.(*structs.ACLTokenResponse).Token = b.tokens[req.TokenID]
		return nil
	case "ACL.PolicyResolve":
		req := args.(*structs.ACLPolicyBatchGetRequest)
		resp := reply.(*structs.ACLPolicyBatchResponse)
		for _, id := range req.PolicyIDs {
			if p, ok := b.policies[id]; ok {
				resp.Policies = append(resp.Policies, p)
			}
		}
		return nil
	case "ACL.RoleResolve":
		req := args.(*structs.ACLRoleBatchGetRequest)
		resp := reply.(*structs.ACLRoleBatchResponse)
		for _, id := range req.RoleIDs {
			if r, ok := b.roles[id]; ok {
				resp.Roles = append(resp.Roles, r)
			}
		}
		return nil
	}
	return fmt.Errorf("unexpected rpc %s", method)
}

func mkTables(local bool) *tables {
	t := &tables{local: local, tokens: map[string]*structs.ACLToken{}, policies: map[string]*structs.ACLPolicy{}, roles: map[string]*structs.ACLRole{}}
	pol := func(id, rules string) {
		p := &structs.ACLPolicy{ID: "aaaaaaaa-0000-0000-0000-00000000000" + id, Name: "p" + id, Rules: rules}
		p.ModifyIndex = 5
		p.SetHash(true)
		t.policies[p.ID] = p
	}
	pol("1", `service "web" { policy = "read" } key_prefix "a" { policy = "read" }`)
	pol("2", `service "web" { policy = "write" } key_prefix "a" { policy = "write" }`)
	role := func(id string, dcs []string, policies ...string) {
		r := &structs.ACLRole{ID: "bbbbbbbb-0000-0000-0000-00000000000" + id, Name: "r" + id,
			ServiceIdentities: structs.ACLServiceIdentities{{ServiceName: "web", Datacenters: dcs}},
			NodeIdentities:    structs.ACLNodeIdentities{{NodeName: "n" + id, Datacenter: "dc1"}}}
		for _, p := range policies {
			r.Policies = append(r.Policies, structs.ACLRolePolicyLink{ID: "aaaaaaaa-0000-0000-0000-00000000000" + p})
		}
		r.ModifyIndex = 6
		r.SetHash(true)
		t.roles[r.ID] = r
	}
	role("1", []string{"dc2"}, "1")       // web identity scoped to another datacenter
	role("2", []string{"dc1"})            // web identity scoped to this datacenter
	role("3", nil, "2")                   // unscoped identity + write policy
	tok := func(id string, roles []string, policies []string, si []string) {
		k := &structs.ACLToken{AccessorID: "cccccccc-0000-0000-0000-00000000000" + id, SecretID: "dddddddd-0000-0000-0000-00000000000" + id}
		for _, r := range roles {
			k.Roles = append(k.Roles, structs.ACLTokenRoleLink{ID: "bbbbbbbb-0000-0000-0000-00000000000" + r})
		}
		for _, p := range policies {
			k.Policies = append(k.Policies, structs.ACLTokenPolicyLink{ID: "aaaaaaaa-0000-0000-0000-00000000000" + p})
		}
		for _, s := range si {
			k.ServiceIdentities = append(k.ServiceIdentities, &structs.ACLServiceIdentity{ServiceName: s})
		}
		k.ModifyIndex = 7
		k.SetHash(true)
		t.tokens[k.SecretID] = k
	}
	tok("1", []string{"1", "2"}, nil, nil) // A: both roles
	tok("2", []string{"1"}, nil, nil)      // B: only the dc2-scoped role
	tok("3", nil, []string{"1"}, nil)      // C: read policy only
	tok("4", []string{"3"}, []string{"1"}, []string{"db"})
	tok("5", []string{"2", "1"}, nil, nil) // A with roles in the other order
	return t
}

func newResolver(b *tables) *consul.ACLResolver {
	r, err := consul.NewACLResolver(&consul.ACLResolverConfig{
		Config: consul.ACLResolverSettings{ACLsEnabled: true, Datacenter: "dc1", NodeName: "node1", ACLPolicyTTL: time.Hour, ACLTokenTTL: time.Hour, ACLRoleTTL: time.Hour,
			ACLDownPolicy: "extend-cache", ACLDefaultPolicy: "deny"},
		Logger: hclog.NewNullLogger(), CacheConfig: &structs.ACLCachesConfig{Identities: 16, Policies: 16, ParsedPolicies: 16, Authorizers: 16, Roles: 16},
		Backend: b, Tokens: new(token.Store)})
	if err != nil {
		panic(err)
	}
	return r
}

func vector(r *consul.ACLResolver, secret string) string {
	res, err := r.ResolveToken(secret)
	if err != nil {
		return "err:" + err.Error()
	}
	a := res.Authorizer
	var sb strings.Builder
	w := func(d acl.EnforcementDecision) { sb.WriteString(d.String()[:1]) }
	for _, s := range []string{"web", "db", "web-sidecar-proxy"} {
		w(a.ServiceRead(s, nil))
		w(a.ServiceWrite(s, nil))
	}
	for _, n := range []string{"n1", "n2", "n3"} {
		w(a.NodeRead(n, nil))
		w(a.NodeWrite(n, nil))
	}
	w(a.KeyRead("a", nil))
	w(a.KeyWrite("a", nil))
	return sb.String()
}

func Run(c *ev.Ctx) {
	secrets := []string{}
	for i := 1; i <= 5; i++ {
		secrets = append(secrets, fmt.Sprintf("dddddddd-0000-0000-0000-00000000000%d", i))
	}
	depth := 3
	if !c.Quick() {
		depth = 4
	}
	hist := 0
	for _, local := range []bool{true, false} {
		cold := map[string]string{}
		for _, s := range secrets {
			cold[s] = vector(newResolver(mkTables(local)), s)
		}
		var rec func(cur []int)
		rec = func(cur []int) {
			if len(cur) > 0 {
				hist++
				r := newResolver(mkTables(local))
				var names []string
				for _, i := range cur {
					vector(r, secrets[i])
					vector(r, secrets[i]) // a second resolve goes through the caches
					names = append(names, fmt.Sprintf("token%d", i+1))
				}
				for i, s := range secrets {
					c.Add("resolver_decision_vectors", 1)
					if got := vector(r, s); got != cold[s] {
						c.Violate(fmt.Sprintf("C08:resolver-decisions-depend-on-previously-resolved-tokens:local=%v", local),
							fmt.Sprintf("token%d decides %s after %v were resolved through the same resolver; a cold resolver decides %s (service web/db/web-sidecar-proxy r,w; node n1..n3 r,w; key a r,w)", i+1, got, names, cold[s]),
							map[string]any{"resolved_before": names, "token": i + 1, "local_backend": local})
					}
				}
			}
			if len(cur) == depth || c.Expired() {
				return
			}
			for i := range secrets {
				rec(append(cur, i))
			}
		}
		rec(nil)
	}
	c.Set("resolver_histories", hist)
}
