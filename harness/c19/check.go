// Package c19: one replication round makes a secondary datacenter equal to the primary.
package c19

import (
	"fmt"
	"runtime"
	"sort"
	"strings"
	"sync"
	"sync/atomic"

	"github.com/hashicorp/consul/agent/consul"
	"github.com/hashicorp/consul/agent/structs"
	"github.com/hashicorp/consul/internal/verifmc/ev"
	"github.com/hashicorp/consul/internal/verifmc/world"
)

// item variant: 0 absent; content v in {1,2}; remote modify index in {5,15}
type rvar struct {
	Present bool   `json:"present,omitempty"`
	Content int    `json:"content,omitempty"`
	Index   uint64 `json:"index,omitempty"`
	Name    string `json:"name,omitempty"` // override name ("" = default)
}

var ids = []string{"a", "b", "c"}

func uuid(prefix, id string) string {
	return fmt.Sprintf("%s-0000-0000-0000-00000000000%d", prefix, strings.Index("abc", id)+1)
}

func mkPolicy(id string, content int, name string, idx uint64) *structs.ACLPolicy {
	if name == "" {
		name = "policy-" + id
	}
	p := &structs.ACLPolicy{ID: uuid("a0a0a0a0", id), Name: name, Rules: fmt.Sprintf(`key_prefix "%s%d" { policy = "read" }`, id, content)}
	if content == 3 { // differs from content 1 only in the description
		p.Rules = fmt.Sprintf(`key_prefix "%s%d" { policy = "read" }`, id, 1)
		p.Description = "three"
	}
	p.ModifyIndex, p.CreateIndex = idx, createIdx(idx)
	p.SetHash(true)
	return p
}

func mkRole(id string, content int, name string, idx uint64) *structs.ACLRole {
	if name == "" {
		name = "role-" + id
	}
	r := &structs.ACLRole{ID: uuid("b0b0b0b0", id), Name: name, Description: fmt.Sprintf("content %d", content),
		ServiceIdentities: structs.ACLServiceIdentities{{ServiceName: "web"}}}
	if content == 3 { // differs from content 1 only in its policy links
		r.Description = "content 1"
		r.Policies = []structs.ACLRolePolicyLink{{ID: uuid("a0a0a0a0", "a")}}
	}
	r.ModifyIndex, r.CreateIndex = idx, createIdx(idx)
	r.SetHash(true)
	return r
}

func mkToken(id string, content int, local bool, idx uint64) *structs.ACLToken {
	t := &structs.ACLToken{AccessorID: uuid("c0c0c0c0", id), SecretID: uuid("d0d0d0d0", id), Description: fmt.Sprintf("content %d", content), Local: local,
		ServiceIdentities: structs.ACLServiceIdentities{{ServiceName: "web"}}}
	switch content {
	case 3: // differs from content 1 only in its role links
		t.Description = "content 1"
		t.Roles = []structs.ACLTokenRoleLink{{ID: uuid("b0b0b0b0", "a")}}
	case 4: // differs from content 1 only in its policy links
		t.Description = "content 1"
		t.Policies = []structs.ACLTokenPolicyLink{{ID: uuid("a0a0a0a0", "a")}}
	}
	t.ModifyIndex, t.CreateIndex = idx, createIdx(idx)
	t.SetHash(true)
	return t
}

func parallel(n int, fn func(i int)) {
	var next int64 = -1
	var wg sync.WaitGroup
	for w := 0; w < runtime.NumCPU(); w++ {
		wg.Add(1)
		go func() {
			defer wg.Done()
			for {
				i := int(atomic.AddInt64(&next, 1))
				if i >= n {
					return
				}
				fn(i)
			}
		}()
	}
	wg.Wait()
}

type combo struct {
	Local  []rvar `json:"local"` // per id: present/content
	Remote []rvar `json:"remote"`
	Last   uint64 `json:"last_remote_index"`
	// extra local-only rows (tokens): a local-scoped token that must stay untouched
}

func enumerate(nIDs int, withRename bool, contents ...int) []combo {
	lvars := []rvar{{}}
	rvars := []rvar{{}}
	if len(contents) == 0 {
		contents = []int{1, 2}
	}
	for _, ct := range contents {
		lvars = append(lvars, rvar{Present: true, Content: ct})
		rvars = append(rvars, rvar{true, ct, 5, ""}, rvar{true, ct, 15, ""})
	}
	var out []combo
	var rec func(i int, l, r []rvar)
	rec = func(i int, l, r []rvar) {
		if i == nIDs {
			for _, last := range []uint64{0, 10, 20} {
				// consistent: every remote item with index <= last is present locally with the same content
				ok := true
				for k := range r {
					if r[k].Present && r[k].Index <= last && !(l[k].Present && l[k].Content == r[k].Content) {
						ok = false
					}
				}
				if ok {
					out = append(out, combo{append([]rvar{}, l...), append([]rvar{}, r...), last})
				}
			}
			return
		}
		for _, lv := range lvars {
			for _, rv := range rvars {
				rec(i+1, append(l, lv), append(r, rv))
				// the primary deleted this item and re-created it under a new ID with the same name:
				// remote item of the *next* id carries this id's name while this id is gone remotely
				if withRename && i+1 < nIDs && lv.Present && !rv.Present {
					for _, nv := range rvars[1:] {
						if nv.Index != 15 {
							continue
						}
						nv.Name = "KEEP:" + ids[i]
						l2 := append(append([]rvar{}, l...), lv, rvar{})
						r2 := append(append([]rvar{}, r...), rv, nv)
						for j := i + 2; j < nIDs; j++ {
							l2 = append(l2, rvar{})
							r2 = append(r2, rvar{})
						}
						okc := true
						for k := range r2 {
							if r2[k].Present && r2[k].Index <= 10 && !(l2[k].Present && l2[k].Content == r2[k].Content) {
								okc = false
							}
						}
						if okc {
							out = append(out, combo{l2, r2, 10})
						}
					}
				}
			}
		}
	}
	rec(0, nil, nil)
	return out
}

func defaultName(kind, id string) string { return kind + "-" + id }

func Run(c *ev.Ctx) {
	quick := c.Quick()
	var evals, nontrivial int64
	outcomes := map[string]bool{}
	var omu sync.Mutex
	note := func(k string) { omu.Lock(); outcomes[k] = true; omu.Unlock() }

	runACL := func(kind string, nIDs int) {
		// content 3 (and 4 for tokens) differs from content 1 in links / description only
		cs := enumerate(nIDs, kind != "token", map[string][]int{"policy": {1, 2, 3}, "role": {1, 2, 3}, "token": {1, 2, 3, 4}}[kind]...)
		parallel(len(cs), func(ci int) {
			if c.Expired() {
				return
			}
			cb := cs[ci]
			w := world.New()
			applies := 0
			apply := func(t structs.MessageType, req interface{}) error {
				applies++
				r := w.ApplyReq("replication", t, req)
				if strings.HasPrefix(r, "err:") || strings.HasPrefix(r, "PANIC") {
					return fmt.Errorf("%s", r)
				}
				return nil
			}
			desc := func() string {
				return fmt.Sprintf("%s: local=%+v remote=%+v lastRemoteIndex=%d", kind, cb.Local, cb.Remote, cb.Last)
			}
			name := func(v rvar, id string) string {
				if strings.HasPrefix(v.Name, "KEEP:") {
					return defaultName(kind, strings.TrimPrefix(v.Name, "KEEP:"))
				}
				return defaultName(kind, id)
			}
			// the objects that links of content 3 / 4 point to exist in the secondary (they belong to another replication type)
			if kind == "role" || kind == "token" {
				apply(structs.ACLPolicySetRequestType, &structs.ACLPolicyBatchSetRequest{Policies: structs.ACLPolicies{mkPolicy("a", 1, "", 0)}})
			}
			if kind == "token" {
				apply(structs.ACLRoleSetRequestType, &structs.ACLRoleBatchSetRequest{Roles: structs.ACLRoles{mkRole("a", 1, "", 0)}, AllowMissingLinks: true})
			}
			// local state
			for k, lv := range cb.Local {
				if !lv.Present {
					continue
				}
				switch kind {
				case "policy":
					apply(structs.ACLPolicySetRequestType, &structs.ACLPolicyBatchSetRequest{Policies: structs.ACLPolicies{mkPolicy(ids[k], lv.Content, defaultName(kind, ids[k]), 0)}})
				case "role":
					apply(structs.ACLRoleSetRequestType, &structs.ACLRoleBatchSetRequest{Roles: structs.ACLRoles{mkRole(ids[k], lv.Content, defaultName(kind, ids[k]), 0)}, AllowMissingLinks: true})
				case "token":
					apply(structs.ACLTokenSetRequestType, &structs.ACLTokenBatchSetRequest{Tokens: structs.ACLTokens{mkToken(ids[k], lv.Content, false, 0)}, FromReplication: true, AllowMissingLinks: true})
				}
			}
			if kind == "token" {
				// a local-scoped token exists only in the secondary and must never be touched
				lt := &structs.ACLToken{AccessorID: "c0c0c0c0-0000-0000-0000-0000000000ff", SecretID: "d0d0d0d0-0000-0000-0000-0000000000ff", Local: true, Description: "local only",
					ServiceIdentities: structs.ACLServiceIdentities{{ServiceName: "web"}}}
				lt.SetHash(true)
				apply(structs.ACLTokenSetRequestType, &structs.ACLTokenBatchSetRequest{Tokens: structs.ACLTokens{lt}})
			}
			remote := &consul.VerifRemoteACL{Index: 20}
			want := map[string]string{} // id -> hash
			for k, rv := range cb.Remote {
				if !rv.Present {
					continue
				}
				switch kind {
				case "policy":
					p := mkPolicy(ids[k], rv.Content, name(rv, ids[k]), rv.Index)
					remote.Policies = append(remote.Policies, p)
					want[p.ID] = renderPolicy(p)
				case "role":
					r := mkRole(ids[k], rv.Content, name(rv, ids[k]), rv.Index)
					remote.Roles = append(remote.Roles, r)
					want[r.ID] = renderRole(r)
				case "token":
					t := mkToken(ids[k], rv.Content, false, rv.Index)
					remote.Tokens = append(remote.Tokens, t)
					want[t.AccessorID] = renderToken(t)
				}
			}
			equalBefore := fmt.Sprint(localSet(w, kind)) == fmt.Sprint(want)
			before := applies
			localOnlyBefore := localOnly(w)
			_, err := consul.VerifReplicateACLRound(kind, w.FSM, apply, remote, cb.Last)
			atomic.AddInt64(&evals, 1)
			replay := map[string]any{"kind": kind, "local": cb.Local, "remote": cb.Remote, "last_remote_index": cb.Last}
			if err != nil {
				note(kind + ":round-error")
				c.Violate("C19:replication-round-fails:"+kind, "a replication round over consistent inputs failed: "+err.Error()+"\n"+desc(), replay)
				return
			}
			got := localSet(w, kind)
			if fmt.Sprint(got) != fmt.Sprint(want) {
				note(kind + ":not-equal")
				c.Violate("C19:secondary-differs-after-round:"+kind, fmt.Sprintf("after one round the replicated set is %v, the primary has %v\n%s", got, want, desc()), replay)
			} else {
				note(fmt.Sprintf("%s:equal:writes=%v", kind, applies > before))
			}
			if equalBefore && applies != before {
				c.Violate("C19:writes-although-already-equal:"+kind, fmt.Sprintf("the secondary already equalled the primary but the round applied %d writes\n%s", applies-before, desc()), replay)
			}
			if !equalBefore {
				atomic.AddInt64(&nontrivial, 1)
			}
			if lo := localOnly(w); lo != localOnlyBefore {
				c.Violate("C19:local-only-object-touched:"+kind, fmt.Sprintf("a local-scoped token changed during replication: %s -> %s", localOnlyBefore, lo), replay)
			}
		})
	}
	runACL("policy", 3)
	// a round whose upserts do not fit one raft batch (the replicator cuts them at about 256 KiB): every object still
	// has to arrive
	for _, n := range []int{3, 7, 12} {
		w := world.New()
		apply := func(t structs.MessageType, req interface{}) error {
			r := w.ApplyReq("replication", t, req)
			if strings.HasPrefix(r, "err:") || strings.HasPrefix(r, "PANIC") {
				return fmt.Errorf("%s", r)
			}
			return nil
		}
		remote := &consul.VerifRemoteACL{Index: 20}
		want := map[string]string{}
		for k := 0; k < n; k++ {
			p := &structs.ACLPolicy{ID: fmt.Sprintf("a0a0a0a0-0000-0000-0000-0000000001%02d", k), Name: fmt.Sprintf("big-%02d", k),
				Rules: fmt.Sprintf("key_prefix \"big%d\" { policy = \"read\" }\n# %s", k, strings.Repeat("x", 100*1024))}
			p.ModifyIndex, p.CreateIndex = 15, 12
			p.SetHash(true)
			remote.Policies = append(remote.Policies, p)
			want[p.ID] = renderPolicy(p)
		}
		_, err := consul.VerifReplicateACLRound("policy", w.FSM, apply, remote, 0)
		atomic.AddInt64(&evals, 1)
		atomic.AddInt64(&nontrivial, 1)
		replay := map[string]any{"kind": "policy", "large_policies": n}
		if err != nil {
			c.Violate("C19:replication-round-fails:policy:large-round", "a replication round over "+fmt.Sprint(n)+" large policies failed: "+err.Error(), replay)
			continue
		}
		got := localSet(w, "policy")
		missing := 0
		for id, v := range want {
			if got[id] != v {
				missing++
			}
		}
		note(fmt.Sprintf("policy:large-round:%d:missing=%d", n, missing))
		if missing > 0 || len(got) != len(want) {
			c.Violate("C19:secondary-differs-after-round:policy:large-round", fmt.Sprintf("after one round over %d policies of 100 KiB each (several raft batches) %d of them are missing or differ in the secondary (it holds %d)", n, missing, len(got)), replay)
		}
	}
	// the replicators of the three types run independently: a role may arrive one round before the policy it links.
	// Once the policy round has run too, the secondary's role must equal the primary's - links included.
	{
		w := world.New()
		apply := func(t structs.MessageType, req interface{}) error {
			r := w.ApplyReq("replication", t, req)
			if strings.HasPrefix(r, "err:") || strings.HasPrefix(r, "PANIC") {
				return fmt.Errorf("%s", r)
			}
			return nil
		}
		role := mkRole("a", 3, "", 15)
		pol := mkPolicy("a", 1, "", 14)
		remote := &consul.VerifRemoteACL{Index: 20, Roles: structs.ACLRoles{role}, Policies: structs.ACLPolicies{pol}}
		replay := map[string]any{"kind": "role", "order": "role round, policy round, role round"}
		var err error
		for _, kind := range []string{"role", "policy", "role"} {
			if _, e := consul.VerifReplicateACLRound(kind, w.FSM, apply, remote, 0); e != nil {
				err = fmt.Errorf("%s round: %v", kind, e)
				break
			}
		}
		atomic.AddInt64(&evals, 1)
		atomic.AddInt64(&nontrivial, 1)
		if err != nil {
			c.Violate("C19:replication-round-fails:role:before-its-policy", err.Error(), replay)
		} else if got, want := localSet(w, "role")[role.ID], renderRole(role); got != want {
			c.Violate("C19:secondary-differs-after-round:role:before-its-policy", fmt.Sprintf("the role round ran before the policy round that delivers the policy the role links; after both (and one more role round) the secondary holds\n  %s\nthe primary\n  %s", got, want), replay)
		}
		note("role:before-its-policy")
	}
	n := 3
	if quick {
		n = 2
	}
	runACL("role", n)
	runACL("token", n)

	// config entries: pure diff, applied to a set keyed by kind/name
	type ceID struct{ kind, name string }
	ceIDs := []ceID{{structs.ServiceDefaults, "web"}, {structs.ServiceRouter, "web"}, {structs.ServiceSplitter, "web"}, {structs.ServiceDefaults, "db"}}
	mkCE := func(id ceID, content int, idx uint64) structs.ConfigEntry {
		var e structs.ConfigEntry
		switch id.kind {
		case structs.ServiceDefaults:
			e = &structs.ServiceConfigEntry{Kind: id.kind, Name: id.name, Protocol: []string{"", "http", "grpc"}[content]}
		case structs.ServiceRouter:
			e = &structs.ServiceRouterConfigEntry{Kind: id.kind, Name: id.name, Meta: map[string]string{"v": fmt.Sprint(content)}}
		default:
			e = &structs.ServiceSplitterConfigEntry{Kind: id.kind, Name: id.name, Meta: map[string]string{"v": fmt.Sprint(content)},
				Splits: []structs.ServiceSplit{{Weight: 100, Service: id.name}}}
		}
		e.Normalize()
		e.GetRaftIndex().ModifyIndex = idx
		e.GetRaftIndex().CreateIndex = createIdx(idx)
		return e
	}
	lv := []rvar{{}, {Present: true, Content: 1}, {Present: true, Content: 2}}
	rv := []rvar{{}, {true, 1, 5, ""}, {true, 1, 15, ""}, {true, 2, 5, ""}, {true, 2, 15, ""}}
	var ceCombos []combo
	var rec func(i int, l, r []rvar)
	rec = func(i int, l, r []rvar) {
		if i == len(ceIDs) {
			for _, last := range []uint64{0, 10, 20} {
				ok := true
				for k := range r {
					if r[k].Present && r[k].Index <= last && !(l[k].Present && l[k].Content == r[k].Content) {
						ok = false
					}
				}
				if ok {
					ceCombos = append(ceCombos, combo{append([]rvar{}, l...), append([]rvar{}, r...), last})
				}
			}
			return
		}
		for _, a := range lv {
			for _, b := range rv {
				rec(i+1, append(l, a), append(r, b))
			}
		}
	}
	rec(0, nil, nil)
	perms := [][]int{{0, 1, 2, 3}, {3, 2, 1, 0}, {1, 3, 0, 2}}
	parallel(len(ceCombos), func(ci int) {
		cb := ceCombos[ci]
		for _, perm := range perms {
			var local, remote []structs.ConfigEntry
			want := map[string]uint64{}
			have := map[string]uint64{}
			for _, k := range perm {
				if cb.Local[k].Present {
					e := mkCE(ceIDs[k], cb.Local[k].Content, 3)
					local = append(local, e)
					have[e.GetKind()+"/"+e.GetName()] = e.GetHash()
				}
				if cb.Remote[k].Present {
					e := mkCE(ceIDs[k], cb.Remote[k].Content, cb.Remote[k].Index)
					remote = append(remote, e)
					want[e.GetKind()+"/"+e.GetName()] = e.GetHash()
				}
			}
			equalBefore := fmt.Sprint(have) == fmt.Sprint(want)
			dels, ups := consul.VerifDiffConfigEntries(local, remote, cb.Last)
			atomic.AddInt64(&evals, 1)
			for _, d := range dels {
				delete(have, d.GetKind()+"/"+d.GetName())
			}
			for _, u := range ups {
				have[u.GetKind()+"/"+u.GetName()] = u.GetHash()
			}
			replay := map[string]any{"kind": "config-entry", "local": cb.Local, "remote": cb.Remote, "last_remote_index": cb.Last, "order": perm}
			if fmt.Sprint(have) != fmt.Sprint(want) {
				note("config:not-equal")
				c.Violate("C19:secondary-differs-after-round:config-entry", fmt.Sprintf("applying the computed deletions %v and updates %v leaves %v, the primary has %v (lastRemoteIndex=%d)", ceNames(dels), ceNames(ups), keys(have), keys(want), cb.Last), replay)
			} else {
				note(fmt.Sprintf("config:equal:writes=%v", len(dels)+len(ups) > 0))
			}
			if equalBefore && len(dels)+len(ups) > 0 {
				c.Violate("C19:writes-although-already-equal:config-entry", fmt.Sprintf("already equal but deletions %v updates %v were computed", ceNames(dels), ceNames(ups)), replay)
			}
			if !equalBefore {
				atomic.AddInt64(&nontrivial, 1)
			}
		}
	})

	c.Set("evaluations", evals)
	c.Set("distinct_nontrivial", nontrivial)
	c.Set("outcome_classes", sortedKeys(outcomes))
	c.Set("rule", "ACL policies, roles, tokens: every (local, remote) assignment over 3 ids x {absent, content 1, content 2} (remote additionally modify index in {5,15}; a re-created-under-a-new-ID-with-the-same-name variant) x lastRemoteIndex in {0,10,20} consistent with what was already applied; one real Server.replicateACLType round (real replicator types, diff, batching; network fetch and raft apply replaced by a canned primary and FSM.Apply on a real store); config entries: every assignment over 4 kind/name ids incl. same name under different kinds, three input orders, real diffConfigEntries applied to a set. distinct_nontrivial = cases in which the secondary was not already equal")
	c.Sample(map[string]any{"example": combo{[]rvar{{Present: true, Content: 1}, {}, {}}, []rvar{{}, {true, 2, 15, "KEEP:a"}, {}}, 10}})
}

func localSet(w *world.World, kind string) map[string]string {
	out := map[string]string{}
	st := w.Store()
	switch kind {
	case "policy":
		_, l, _ := st.ACLPolicyList(nil, nil)
		for _, p := range l {
			if p.ID == structs.ACLPolicyGlobalManagementID || strings.HasPrefix(p.ID, "00000000-0000-0000-0000-00000000000") {
				continue
			}
			out[p.ID] = renderPolicy(p)
		}
	case "role":
		_, l, _ := st.ACLRoleList(nil, "", nil)
		for _, r := range l {
			out[r.ID] = renderRole(r)
		}
	case "token":
		_, l, _ := st.ACLTokenList(nil, false, true, "", "", "", nil, nil)
		for _, t := range l {
			out[t.AccessorID] = renderToken(t)
		}
	}
	return out
}

func localOnly(w *world.World) string {
	_, l, _ := w.Store().ACLTokenList(nil, true, false, "", "", "", nil, nil)
	var s []string
	for _, t := range l {
		s = append(s, fmt.Sprintf("%s:%x:%d", t.AccessorID, t.Hash, t.ModifyIndex))
	}
	sort.Strings(s)
	return strings.Join(s, ",")
}

func ceNames(l []structs.ConfigEntry) []string {
	var o []string
	for _, e := range l {
		o = append(o, e.GetKind()+"/"+e.GetName())
	}
	return o
}

func keys(m map[string]uint64) []string {
	var o []string
	for k := range m {
		o = append(o, k)
	}
	sort.Strings(o)
	return o
}

func sortedKeys(m map[string]bool) []string {
	var o []string
	for k := range m {
		o = append(o, k)
	}
	sort.Strings(o)
	return o
}

// createIdx: every object was created early and (for the larger modify indexes) edited later, so
// that create and modify index differ and a comparison on the wrong one shows.
func createIdx(modify uint64) uint64 {
	if modify > 3 {
		return 3
	}
	return modify
}

// the content of an object as the harness sees it (not the hash the replicator itself computes and compares)
func renderPolicy(p *structs.ACLPolicy) string {
	return fmt.Sprintf("name=%s desc=%q rules=%q", p.Name, p.Description, p.Rules)
}

func renderRole(r *structs.ACLRole) string {
	var l []string
	for _, p := range r.Policies {
		l = append(l, p.ID)
	}
	return fmt.Sprintf("name=%s desc=%q policies=%v svc=%d", r.Name, r.Description, l, len(r.ServiceIdentities))
}

func renderToken(t *structs.ACLToken) string {
	var pl, rl []string
	for _, p := range t.Policies {
		pl = append(pl, p.ID)
	}
	for _, r := range t.Roles {
		rl = append(rl, r.ID)
	}
	return fmt.Sprintf("secret=%s desc=%q local=%v policies=%v roles=%v svc=%d", t.SecretID, t.Description, t.Local, pl, rl, len(t.ServiceIdentities))
}
