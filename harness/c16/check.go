// Package c16: anti-entropy makes the catalog converge to the agent's local state.
// Real agent/local.State against a catalog served from a real FSM/state store, with every
// pattern of <=2 failing RPC identities enumerated for one sync, followed by a clean full sync.
package c16

import (
	"context"
	"errors"
	"fmt"
	"runtime"
	"sort"
	"strings"
	"sync"
	"sync/atomic"
	"time"

	"github.com/hashicorp/go-hclog"

	"github.com/hashicorp/consul/acl"
	"github.com/hashicorp/consul/acl/resolver"
	"github.com/hashicorp/consul/agent/consul"
	"github.com/hashicorp/consul/agent/local"
	"github.com/hashicorp/consul/agent/structs"
	"github.com/hashicorp/consul/agent/token"
	"github.com/hashicorp/consul/internal/verifmc/ev"
	"github.com/hashicorp/consul/internal/verifmc/vtimer"
	"github.com/hashicorp/consul/internal/verifmc/world"
	"github.com/hashicorp/consul/types"
)

const (
	node   = "n1"
	nodeID = "aaaaaaaa-0000-0000-0000-000000000001"
	dcName = "dc1"
)

// ---- faults ---------------------------------------------------------------------------------------------

type faultKind int

const (
	fGeneric faultKind = iota
	fPermDenied
	fACLNotFound
)

func (k faultKind) String() string {
	return [...]string{"rpc-error", "permission-denied", "acl-not-found"}[k]
}
func (k faultKind) acl() bool { return k != fGeneric }
func (k faultKind) err() error {
	switch k {
	case fPermDenied:
		return acl.PermissionDeniedError{Cause: "verif"}
	case fACLNotFound:
		return acl.ErrNotFound
	}
	return errors.New("rpc error making call: connection refused (injected)")
}

type fault struct {
	ident string
	kind  faultKind
}

// ---- delegate: the servers ----------------------------------------------------------------------------------

type delegate struct {
	w      *world.World
	faults map[string]faultKind
	calls  []string             // identities called, in order
	hit    map[string]faultKind // faults that actually fired
}

func (d *delegate) ResolveTokenAndDefaultMeta(string, *acl.EnterpriseMeta, *acl.AuthorizerContext) (resolver.Result, error) {
	return resolver.Result{}, acl.ErrNotFound
}

func roundTrip(t structs.MessageType, in, out interface{}) {
	buf, err := structs.Encode(t, in)
	if err != nil {
		panic(err)
	}
	if err := structs.Decode(buf[1:], out); err != nil {
		panic(err)
	}
}

func (d *delegate) touch(id string) error {
	d.calls = append(d.calls, id)
	if k, ok := d.faults[id]; ok {
		d.hit[id] = k
		return k.err()
	}
	return nil
}

func (d *delegate) RPC(ctx context.Context, method string, args interface{}, reply interface{}) error {
	st := d.w.Store()
	switch method {
	case "Catalog.NodeServiceList":
		if err := d.touch("list-services"); err != nil {
			return err
		}
		req := args.(*structs.NodeSpecificRequest)
		idx, svcs, err := st.NodeServiceList(nil, req.Node, &req.EnterpriseMeta, "")
		if err != nil {
			return err
		}
		out := reply.(*structs.IndexedNodeServiceList)
		out.Index = idx
		if svcs != nil {
			// over the wire: the agent never sees the store's own objects
			var cp structs.NodeServiceList
			roundTrip(0, svcs, &cp)
			out.NodeServices = cp
		}
		return nil
	case "Health.NodeChecks":
		if err := d.touch("list-checks"); err != nil {
			return err
		}
		req := args.(*structs.NodeSpecificRequest)
		idx, checks, err := st.NodeChecks(nil, req.Node, &req.EnterpriseMeta, "")
		if err != nil {
			return err
		}
		out := reply.(*structs.IndexedHealthChecks)
		out.Index = idx
		var cp structs.HealthChecks
		roundTrip(0, checks, &cp)
		out.HealthChecks = cp
		return nil
	case "Catalog.Register":
		var req structs.RegisterRequest
		roundTrip(0, args, &req)
		// identity: what the call is about (as the agent issues them: node only, a service
		// (+ piggy-backed checks), or a single check (+ its service))
		id := "register:node"
		switch {
		case req.Service != nil && req.Check == nil && len(req.Checks) == 0:
			id = "register:service:" + req.Service.ID
		case req.Service != nil && (req.Check != nil || len(req.Checks) > 0):
			// service sync with piggy-backed checks, or a check sync that pulls in its service.
			// syncCheck sets exactly one check in Check and EnterpriseMeta from the check; syncService
			// may also produce exactly one check. They are told apart by the out-of-sync state, which the
			// harness cannot see here; use a combined identity per (service, checks).
			var cs []string
			if req.Check != nil {
				cs = append(cs, string(req.Check.CheckID))
			}
			for _, c := range req.Checks {
				cs = append(cs, string(c.CheckID))
			}
			sort.Strings(cs)
			id = "register:service:" + req.Service.ID + "+checks:" + strings.Join(cs, ",")
		case req.Check != nil:
			id = "register:check:" + string(req.Check.CheckID)
		}
		if err := d.touch(id); err != nil {
			return err
		}
		if err := consul.VerifCatalogRegisterPreApply(st, &req); err != nil {
			return err
		}
		d.w.ApplyReq("rpc:"+id, structs.RegisterRequestType, &req)
		if err, ok := d.w.LastRaw.(error); ok && err != nil {
			return err
		}
		return nil
	case "Catalog.Deregister":
		var req structs.DeregisterRequest
		roundTrip(0, args, &req)
		id := "deregister:node"
		if req.ServiceID != "" {
			id = "deregister:service:" + req.ServiceID
		} else if req.CheckID != "" {
			id = "deregister:check:" + string(req.CheckID)
		}
		if err := d.touch(id); err != nil {
			return err
		}
		d.w.ApplyReq("rpc:"+id, structs.DeregisterRequestType, &req)
		if err, ok := d.w.LastRaw.(error); ok && err != nil {
			return err
		}
		return nil
	}
	return fmt.Errorf("rpc: can't find method %s (verif delegate)", method)
}

// ---- scenario ---------------------------------------------------------------------------------------------------

type sys struct {
	l *local.State
	d *delegate
	// removed: ids the agent deregistered locally and has not re-added since
	removedSvc map[string]bool
	removedChk map[string]bool
	// ownedTags: tags the servers set on a service registered with EnableTagOverride (the agent must adopt them, never revert them)
	ownedTags map[string][]string
}

func newSys() *sys { return newSysInterval(0) }

func newSysInterval(checkUpdateInterval time.Duration) *sys {
	w := world.New()
	d := &delegate{w: w, faults: map[string]faultKind{}, hit: map[string]faultKind{}}
	tok := new(token.Store)
	tok.UpdateAgentToken("agent-token", token.TokenSourceConfig)
	l := local.NewState(local.Config{AdvertiseAddr: "10.0.0.1", Datacenter: dcName, NodeID: types.NodeID(nodeID), NodeName: node,
		CheckUpdateInterval: checkUpdateInterval, TaggedAddresses: map[string]string{"lan": "10.0.0.1"}}, hclog.NewNullLogger(), tok)
	l.Delegate = d
	l.TriggerSyncChanges = func() {}
	return &sys{l: l, d: d, removedSvc: map[string]bool{}, removedChk: map[string]bool{}, ownedTags: map[string][]string{}}
}

func svc(id string, port int) *structs.NodeService {
	return &structs.NodeService{ID: id, Service: id + "-svc", Port: port, Tags: []string{"t", "u"}, Weights: &structs.Weights{Passing: 1, Warning: 1},
		EnterpriseMeta: *structs.DefaultEnterpriseMetaInDefaultPartition()}
}
func chk(id, svcID, status string) *structs.HealthCheck {
	c := &structs.HealthCheck{Node: node, CheckID: types.CheckID(id), Name: "check " + id, Status: status, ServiceID: svcID, Type: "ttl",
		EnterpriseMeta: *structs.DefaultEnterpriseMetaInDefaultPartition()}
	if svcID != "" {
		c.ServiceName = svcID + "-svc"
		c.ServiceTags = []string{"t", "u"}
	}
	return c
}

type op struct {
	name  string
	drift bool
	run   func(s *sys)
}

func sid(id string) structs.ServiceID { return structs.NewServiceID(id, nil) }
func cid(id string) structs.CheckID   { return structs.NewCheckID(types.CheckID(id), nil) }

func (s *sys) addSvc(ns *structs.NodeService, tok string, checks ...*structs.HealthCheck) {
	if err := s.l.AddServiceWithChecks(ns, checks, tok, false); err != nil {
		return
	}
	delete(s.removedSvc, ns.ID)
	delete(s.ownedTags, ns.ID)
	for _, c := range checks {
		delete(s.removedChk, string(c.CheckID))
	}
}

// removeSvc as Agent.removeServiceLocked does it: the service together with its checks.
func (s *sys) removeSvc(id string) {
	checks := s.l.ChecksForService(sid(id), false)
	var ids []structs.CheckID
	for k := range checks {
		ids = append(ids, k)
	}
	if err := s.l.RemoveServiceWithChecks(sid(id), ids); err != nil {
		return
	}
	s.removedSvc[id] = true
	delete(s.ownedTags, id)
	for _, k := range ids {
		s.removedChk[string(k.ID)] = true
	}
}

func (s *sys) apply(t structs.MessageType, req interface{}) {
	s.d.w.ApplyReq("drift", t, req)
}

func regReq() structs.RegisterRequest {
	return structs.RegisterRequest{Datacenter: dcName, ID: types.NodeID(nodeID), Node: node, Address: "10.0.0.1", TaggedAddresses: map[string]string{"lan": "10.0.0.1"},
		EnterpriseMeta: *structs.DefaultEnterpriseMetaInDefaultPartition()}
}

func alphabet() []op {
	return []op{
		{name: "local add s1:80 with check c1", run: func(s *sys) { s.addSvc(svc("s1", 80), "", chk("c1", "s1", "passing")) }},
		{name: "local add s1:81 with checks c1,c3", run: func(s *sys) { s.addSvc(svc("s1", 81), "", chk("c1", "s1", "passing"), chk("c3", "s1", "warning")) }},
		{name: "local add s1:80 without checks", run: func(s *sys) { s.addSvc(svc("s1", 80), "") }},
		{name: "local add s2:90 (service token)", run: func(s *sys) { s.addSvc(svc("s2", 90), "svc-token") }},
		{name: "local remove s1 with its checks", run: func(s *sys) { s.removeSvc("s1") }},
		{name: "local remove s2", run: func(s *sys) { s.removeSvc("s2") }},
		{name: "local add node check c2", run: func(s *sys) {
			if s.l.AddCheck(chk("c2", "", "passing"), "", false) == nil {
				delete(s.removedChk, "c2")
			}
		}},
		{name: "local add check c4 on s1 (other token)", run: func(s *sys) {
			// Agent.addCheckLocked refuses a check whose service is not (or no longer) registered
			if s.l.Service(sid("s1")) == nil {
				return
			}
			if s.l.AddCheck(chk("c4", "s1", "passing"), "other-token", false) == nil {
				delete(s.removedChk, "c4")
			}
		}},
		{name: "local remove check c2", run: func(s *sys) {
			if s.l.RemoveCheck(cid("c2")) == nil {
				s.removedChk["c2"] = true
			}
		}},
		{name: "local remove check c1", run: func(s *sys) {
			if s.l.RemoveCheck(cid("c1")) == nil {
				s.removedChk["c1"] = true
			}
		}},
		{name: "local update c1 critical", run: func(s *sys) { s.l.UpdateCheck(cid("c1"), "critical", "boom") }},
		{name: "local update c2 warning", run: func(s *sys) { s.l.UpdateCheck(cid("c2"), "warning", "hmm") }},
		{name: "local add s3 (tag override) with check c5", run: func(s *sys) {
			ns := svc("s3", 70)
			ns.EnableTagOverride = true
			s.addSvc(ns, "", chk("c5", "s3", "passing"))
		}},
		{name: "drift: servers retag s3", drift: true, run: func(s *sys) {
			_, cur, _ := s.d.w.Store().NodeService(nil, node, "s3", structs.DefaultEnterpriseMetaInDefaultPartition(), "")
			if cur == nil || !cur.EnableTagOverride {
				return // only a registered tag-override service has server-owned tags
			}
			r := regReq()
			r.SkipNodeUpdate = true
			ns := svc("s3", 70)
			ns.EnableTagOverride = true
			ns.Tags = []string{"set-by-servers"}
			r.Service = ns
			s.apply(structs.RegisterRequestType, &r)
			if _, ok := s.l.AllServices()[sid("s3")]; ok {
				s.ownedTags["s3"] = []string{"set-by-servers"}
			}
		}},
		// external drift of the catalog
		{name: "drift: foreign service s9 appears", drift: true, run: func(s *sys) {
			r := regReq()
			r.Service = svc("s9", 99)
			s.apply(structs.RegisterRequestType, &r)
		}},
		{name: "drift: foreign node check c9 appears", drift: true, run: func(s *sys) {
			r := regReq()
			r.Check = chk("c9", "", "critical")
			s.apply(structs.RegisterRequestType, &r)
		}},
		{name: "drift: foreign check c8 on s1 appears", drift: true, run: func(s *sys) {
			r := regReq()
			r.SkipNodeUpdate = true
			r.Check = chk("c8", "s1", "critical")
			s.apply(structs.RegisterRequestType, &r)
		}},
		{name: "drift: s1 removed from catalog", drift: true, run: func(s *sys) {
			s.apply(structs.DeregisterRequestType, &structs.DeregisterRequest{Datacenter: dcName, Node: node, ServiceID: "s1"})
		}},
		{name: "drift: c1 removed from catalog", drift: true, run: func(s *sys) {
			s.apply(structs.DeregisterRequestType, &structs.DeregisterRequest{Datacenter: dcName, Node: node, CheckID: "c1"})
		}},
		{name: "drift: s1 altered in catalog", drift: true, run: func(s *sys) {
			r := regReq()
			r.Service = svc("s1", 8888)
			r.Service.Tags = []string{"drifted"}
			s.apply(structs.RegisterRequestType, &r)
		}},
		{name: "drift: c1 altered in catalog", drift: true, run: func(s *sys) {
			r := regReq()
			r.SkipNodeUpdate = true
			c := chk("c1", "s1", "critical")
			c.Output = "drifted"
			r.Check = c
			s.apply(structs.RegisterRequestType, &r)
		}},
		{name: "drift: c2 altered in catalog", drift: true, run: func(s *sys) {
			r := regReq()
			c := chk("c2", "", "critical")
			c.Output = "drifted"
			r.Check = c
			s.apply(structs.RegisterRequestType, &r)
		}},
		{name: "drift: node removed from catalog", drift: true, run: func(s *sys) {
			s.ownedTags = map[string][]string{} // the rows that carried them are gone
			s.apply(structs.DeregisterRequestType, &structs.DeregisterRequest{Datacenter: dcName, Node: node})
		}},
		{name: "drift: node meta altered", drift: true, run: func(s *sys) {
			r := regReq()
			r.NodeMeta = map[string]string{"drift": "yes"}
			s.apply(structs.RegisterRequestType, &r)
		}},
	}
}

// ---- observations ------------------------------------------------------------------------------------------------

func svcKey(ns *structs.NodeService) string {
	return fmt.Sprintf("%s/%s:%d tags=%v addr=%s meta=%v kind=%s", ns.ID, ns.Service, ns.Port, ns.Tags, ns.Address, ns.Meta, ns.Kind)
}
func chkKey(c *structs.HealthCheck) string {
	return fmt.Sprintf("%s name=%q status=%s output=%q svc=%s notes=%q", c.CheckID, c.Name, c.Status, c.Output, c.ServiceID, c.Notes)
}

func (s *sys) catalog() (map[string]string, map[string]string) {
	st := s.d.w.Store()
	svcs, chks := map[string]string{}, map[string]string{}
	_, nsl, _ := st.NodeServiceList(nil, node, structs.DefaultEnterpriseMetaInDefaultPartition(), "")
	if nsl != nil {
		for _, x := range nsl.Services {
			svcs[x.ID] = svcKey(x)
		}
	}
	_, cs, _ := st.NodeChecks(nil, node, structs.DefaultEnterpriseMetaInDefaultPartition(), "")
	for _, x := range cs {
		chks[string(x.CheckID)] = chkKey(x)
	}
	return svcs, chks
}

// catalogNoOutput / localNoOutput: the check views with the output blanked.
func (s *sys) catalogNoOutput() (map[string]string, map[string]string) {
	chks := map[string]string{}
	_, cs, _ := s.d.w.Store().NodeChecks(nil, node, structs.DefaultEnterpriseMetaInDefaultPartition(), "")
	for _, x := range cs {
		y := x.Clone()
		y.Output = ""
		chks[string(y.CheckID)] = chkKey(y)
	}
	return nil, chks
}

func (s *sys) localNoOutput() (map[string]string, map[string]string) {
	chks := map[string]string{}
	for id, x := range s.l.AllChecks() {
		y := x.Clone()
		y.Output = ""
		chks[string(id.ID)] = chkKey(y)
	}
	return nil, chks
}

func (s *sys) localView() (map[string]string, map[string]string) {
	svcs, chks := map[string]string{}, map[string]string{}
	for id, x := range s.l.AllServices() {
		svcs[id.ID] = svcKey(x)
	}
	for id, x := range s.l.AllChecks() {
		chks[string(id.ID)] = chkKey(x)
	}
	return svcs, chks
}

type flags struct {
	svc, chk map[string][2]bool // id -> {InSync, Deleted}
}

func (s *sys) flags() flags {
	sv, ck, _ := s.l.VerifFlags()
	return flags{sv, ck}
}

func mapDiff(kind string, want, got map[string]string) []string {
	var out []string
	for k, v := range want {
		g, ok := got[k]
		switch {
		case !ok:
			out = append(out, fmt.Sprintf("%s %s missing from catalog", kind, k))
		case g != v:
			out = append(out, fmt.Sprintf("%s %s differs: local {%s} catalog {%s}", kind, k, v, g))
		}
	}
	for k := range got {
		if _, ok := want[k]; !ok {
			out = append(out, fmt.Sprintf("%s %s in catalog but not registered locally", kind, k))
		}
	}
	sort.Strings(out)
	return out
}

type scenario struct {
	base   bool
	ops    []int
	full   bool // faulty sync is a full sync (else partial)
	faults []fault
}

func (sc scenario) describe(alpha []op) string {
	var parts []string
	if sc.base {
		parts = append(parts, "base(s1+c1, c2, s3[tag override]+c5 registered and synced)")
	} else {
		parts = append(parts, "empty")
	}
	for _, i := range sc.ops {
		parts = append(parts, alpha[i].name)
	}
	k := "SyncChanges"
	if sc.full {
		k = "SyncFull"
	}
	var fs []string
	for _, f := range sc.faults {
		fs = append(fs, f.ident+"="+f.kind.String())
	}
	parts = append(parts, fmt.Sprintf("%s with faults {%s}", k, strings.Join(fs, ", ")), "clean SyncFull")
	return strings.Join(parts, " ; ")
}

type result struct {
	calls []string // identities called during the faulty sync
	viol  [][2]string
}

func classify(msgs []string) string {
	// coarse class of the first difference for the signature
	m := msgs[0]
	switch {
	case strings.Contains(m, "missing from catalog"):
		return strings.Fields(m)[0] + "-missing"
	case strings.Contains(m, "not registered locally"):
		return strings.Fields(m)[0] + "-left-behind"
	}
	return strings.Fields(m)[0] + "-differs"
}

func runScenario(sc scenario, alpha []op) result {
	var res result
	s := newSys()
	if sc.base {
		s.addSvc(svc("s1", 80), "", chk("c1", "s1", "passing"))
		s.l.AddCheck(chk("c2", "", "passing"), "", false)
		to := svc("s3", 70)
		to.EnableTagOverride = true
		s.addSvc(to, "", chk("c5", "s3", "passing"))
		if err := s.l.SyncFull(); err != nil {
			panic("base sync: " + err.Error())
		}
	}
	hasDrift := false
	for _, i := range sc.ops {
		alpha[i].run(s)
		hasDrift = hasDrift || alpha[i].drift
	}
	_ = hasDrift
	// ---- the faulty sync
	for _, f := range sc.faults {
		s.d.faults[f.ident] = f.kind
	}
	s.d.calls = nil
	before := s.flags()
	var err error
	if sc.full {
		err = s.l.SyncFull()
	} else {
		err = s.l.SyncChanges()
	}
	res.calls = append([]string{}, s.d.calls...)
	after := s.flags()
	csvc, cchk := s.catalog()
	lsvc, lchk := s.localView()
	aclRefused := func(prefix, id string) bool {
		for ident, k := range s.d.hit {
			if !k.acl() {
				continue
			}
			// the entry rode on this call: register:service:<id>, register:check:<id>, or a combined call naming it
			if ident == prefix+id || (prefix == "register:service:" && strings.HasPrefix(ident, "register:service:"+id+"+")) ||
				(prefix == "register:check:" && containsCheck(ident, id)) {
				return true
			}
		}
		return false
	}
	looked := sc.full
	if _, ok := s.d.hit["list-services"]; ok {
		looked = false
	}
	if _, ok := s.d.hit["list-checks"]; ok {
		looked = false
	}
	anyGeneric := false
	for _, k := range s.d.hit {
		if !k.acl() {
			anyGeneric = true
		}
	}
	if anyGeneric && err == nil {
		res.viol = append(res.viol, [2]string{"C16:failed-sync-reports-success", fmt.Sprintf("an RPC failed with a non-ACL error but the sync returned nil (faults hit: %v)", s.d.hit)})
	}
	// A: an entry flagged in-sync (and not deleted) must be in the catalog with equal content, unless ACL-refused
	for id, f := range after.svc {
		if f[0] && !f[1] {
			if csvc[id] != lsvc[id] && !aclRefused("register:service:", id) {
				was := before.svc[id]
				cls := "already-flagged-before"
				if !was[0] {
					cls = "flag-set-by-this-sync"
				}
				if cls == "already-flagged-before" && !looked {
					continue // only a full sync that got both listings looks at the catalog; drift is its business
				}
				res.viol = append(res.viol, [2]string{"C16:service-marked-in-sync-but-catalog-differs:" + cls,
					fmt.Sprintf("service %s is InSync after the sync (err=%v) but catalog holds {%s}, local {%s}", id, err, csvc[id], lsvc[id])})
			}
		}
	}
	for id, f := range after.chk {
		if f[0] && !f[1] {
			if cchk[id] != lchk[id] && !aclRefused("register:check:", id) {
				was := before.chk[id]
				cls := "already-flagged-before"
				if !was[0] {
					cls = "flag-set-by-this-sync"
				}
				if cls == "already-flagged-before" && !looked {
					continue
				}
				res.viol = append(res.viol, [2]string{"C16:check-marked-in-sync-but-catalog-differs:" + cls,
					fmt.Sprintf("check %s is InSync after the sync (err=%v) but catalog holds {%s}, local {%s}", id, err, cchk[id], lchk[id])})
			}
		}
	}
	// B: local deregistrations are never forgotten while the catalog still holds the row
	for id := range s.removedSvc {
		if _, inCat := csvc[id]; inCat {
			if f, ok := after.svc[id]; !ok || !f[1] {
				res.viol = append(res.viol, [2]string{"C16:service-deregistration-forgotten", fmt.Sprintf("service %s was removed locally, the catalog still holds it, but no Deleted marker remains (err=%v)", id, err)})
			}
		}
	}
	for id := range s.removedChk {
		if _, inCat := cchk[id]; inCat {
			if f, ok := after.chk[id]; !ok || !f[1] {
				res.viol = append(res.viol, [2]string{"C16:check-deregistration-forgotten", fmt.Sprintf("check %s was removed locally, the catalog still holds it, but no Deleted marker remains (err=%v)", id, err)})
			}
		}
	}
	// ---- clean full sync: must converge
	s.d.faults = map[string]faultKind{}
	s.d.hit = map[string]faultKind{}
	if err := s.l.SyncFull(); err != nil {
		res.viol = append(res.viol, [2]string{"C16:clean-full-sync-fails", "clean SyncFull returned " + err.Error()})
		return res
	}
	csvc, cchk = s.catalog()
	lsvc, lchk = s.localView()
	if d := append(mapDiff("service", lsvc, csvc), mapDiff("check", lchk, cchk)...); len(d) > 0 {
		res.viol = append(res.viol, [2]string{"C16:not-converged-after-clean-full-sync:" + classify(d), strings.Join(d, "; ")})
	}
	for id, f := range s.flags().svc {
		if f[1] || !f[0] {
			res.viol = append(res.viol, [2]string{"C16:bookkeeping-not-clean-after-full-sync:service", fmt.Sprintf("service %s: InSync=%v Deleted=%v after a clean full sync", id, f[0], f[1])})
		}
	}
	for id, f := range s.flags().chk {
		if f[1] || !f[0] {
			res.viol = append(res.viol, [2]string{"C16:bookkeeping-not-clean-after-full-sync:check", fmt.Sprintf("check %s: InSync=%v Deleted=%v after a clean full sync", id, f[0], f[1])})
		}
	}
	// the node row itself
	_, n, _ := s.d.w.Store().GetNode(node, nil, "")
	if n == nil || string(n.ID) != nodeID {
		res.viol = append(res.viol, [2]string{"C16:node-not-registered-after-full-sync", "node row missing or with a different ID"})
	}
	if len(res.viol) > 0 {
		return res
	}
	// ---- after convergence: every check changes status and is synced on its own (a partial sync sends the
	// service record along), then another full sync. The catalog must still equal the local state and the
	// tags the servers own must be what the servers set.
	owned := func(when string) {
		for id, tags := range s.ownedTags {
			_, cur, _ := s.d.w.Store().NodeService(nil, node, id, structs.DefaultEnterpriseMetaInDefaultPartition(), "")
			if cur != nil && fmt.Sprint(cur.Tags) != fmt.Sprint(tags) {
				res.viol = append(res.viol, [2]string{"C16:server-owned-tags-reverted-by-the-agent", fmt.Sprintf("%s: service %s has EnableTagOverride and the servers set tags %v, the catalog now holds %v", when, id, tags, cur.Tags)})
			}
		}
	}
	owned("after the clean full sync")
	var cids []string
	for id := range s.l.AllChecks() {
		cids = append(cids, string(id.ID))
	}
	sort.Strings(cids)
	for _, id := range cids {
		c := s.l.Check(cid(id))
		if c == nil {
			continue
		}
		st := "critical"
		if c.Status == "critical" {
			st = "passing"
		}
		s.l.UpdateCheck(cid(id), st, "flipped after convergence")
	}
	if err := s.l.SyncChanges(); err != nil {
		res.viol = append(res.viol, [2]string{"C16:clean-partial-sync-fails", err.Error()})
		return res
	}
	owned("after a partial sync of the checks")
	csvc, cchk = s.catalog()
	lsvc, lchk = s.localView()
	if d := append(mapDiff("service", lsvc, csvc), mapDiff("check", lchk, cchk)...); len(d) > 0 {
		res.viol = append(res.viol, [2]string{"C16:not-converged-after-partial-sync-of-checks:" + classify(d), strings.Join(d, "; ")})
		return res
	}
	if err := s.l.SyncFull(); err != nil {
		res.viol = append(res.viol, [2]string{"C16:clean-full-sync-fails", "second clean SyncFull returned " + err.Error()})
		return res
	}
	owned("after the second full sync")
	csvc, cchk = s.catalog()
	lsvc, lchk = s.localView()
	if d := append(mapDiff("service", lsvc, csvc), mapDiff("check", lchk, cchk)...); len(d) > 0 {
		res.viol = append(res.viol, [2]string{"C16:not-converged-after-second-full-sync:" + classify(d), strings.Join(d, "; ")})
		return res
	}
	// one more perturbation of a converged system: every service is registered again with the same set of tags in
	// reverse order (a change of the definition like any other; services whose tags the servers own are left alone)
	var sids []string
	for id := range s.l.AllServices() {
		sids = append(sids, id.ID)
	}
	sort.Strings(sids)
	reordered := 0
	for _, id := range sids {
		st := s.l.ServiceState(sid(id))
		if st == nil || st.Deleted || st.Service.EnableTagOverride || len(st.Service.Tags) < 2 {
			continue
		}
		ns := *st.Service
		ns.Tags = nil
		for i := len(st.Service.Tags) - 1; i >= 0; i-- {
			ns.Tags = append(ns.Tags, st.Service.Tags[i])
		}
		// as Agent.addServiceLocked does: the service's checks are registered again with it and carry its tags
		var hcs []*structs.HealthCheck
		for _, c := range s.l.ChecksForService(sid(id), false) {
			hc := *c
			hc.ServiceTags = ns.Tags
			hcs = append(hcs, &hc)
		}
		sort.Slice(hcs, func(i, j int) bool { return hcs[i].CheckID < hcs[j].CheckID })
		if err := s.l.AddServiceWithChecks(&ns, hcs, st.Token, false); err == nil {
			reordered++
		}
	}
	if reordered == 0 {
		return res
	}
	if err := s.l.SyncFull(); err != nil {
		res.viol = append(res.viol, [2]string{"C16:clean-full-sync-fails", "third clean SyncFull returned " + err.Error()})
		return res
	}
	csvc, cchk = s.catalog()
	lsvc, lchk = s.localView()
	if d := append(mapDiff("service", lsvc, csvc), mapDiff("check", lchk, cchk)...); len(d) > 0 {
		res.viol = append(res.viol, [2]string{"C16:not-converged-after-reordering-tags:" + classify(d), strings.Join(d, "; ")})
	}
	return res
}

func containsCheck(ident, id string) bool {
	i := strings.Index(ident, "+checks:")
	if i < 0 {
		return false
	}
	for _, c := range strings.Split(ident[i+len("+checks:"):], ",") {
		if c == id {
			return true
		}
	}
	return false
}

// ---- deferred check output (check_update_interval > 0): timers are fired by the harness -------------------------

// deferPhase: output-only updates of a check are not synced at once: a timer marks the check out of sync
// later. Every sequence of updates, timer firings and syncs must end, once every timer has fired and a
// full sync ran, with the catalog holding the check's current status and output.
func deferPhase(c *ev.Ctx) {
	type dop struct {
		name string
		run  func(s *sys)
	}
	ops := []dop{
		{"update c1 output=o1 (same status)", func(s *sys) { s.l.UpdateCheck(cid("c1"), "passing", "o1") }},
		{"update c1 output=o2 (same status)", func(s *sys) { s.l.UpdateCheck(cid("c1"), "passing", "o2") }},
		{"update c1 critical", func(s *sys) { s.l.UpdateCheck(cid("c1"), "critical", "boom") }},
		{"update c2 output=n1 (same status)", func(s *sys) { s.l.UpdateCheck(cid("c2"), "passing", "n1") }},
		{"fire the oldest armed timer", func(s *sys) { vtimer.Fire(0) }},
		{"fire the newest armed timer", func(s *sys) {
			if n := vtimer.Armed(); n > 0 {
				vtimer.Fire(n - 1)
			}
		}},
		{"SyncChanges", func(s *sys) { _ = s.l.SyncChanges() }},
		{"SyncFull", func(s *sys) { _ = s.l.SyncFull() }},
		// the catalog copy of c1 is altered behind the agent's back in a field other than the output
		{"drift: c1 warning with other notes in the catalog", func(s *sys) {
			r := regReq()
			r.SkipNodeUpdate = true
			ck := chk("c1", "s1", "warning")
			ck.Notes = "drifted"
			if _, cs, _ := s.d.w.Store().NodeCheck(node, "c1", nil, ""); cs != nil {
				ck.Output = cs.Output // the output stays what the catalog has
			}
			r.Check = ck
			s.apply(structs.RegisterRequestType, &r)
		}},
		// the service and its check are deregistered and registered again with a changed definition before anything is synced
		// (what is pending for the old check - a deferral timer - must not leak into the new one)
		{"remove s1 with c1 and register them again on port 81", func(s *sys) {
			s.removeSvc("s1")
			s.addSvc(svc("s1", 81), "", chk("c1", "s1", "passing"))
		}},
	}
	depth := 4
	if !c.Quick() {
		depth = 5
	}
	var runs int64
	var rec func(path []int)
	rec = func(path []int) {
		if len(path) > 0 {
			runs++
			vtimer.ResetTimers()
			s := newSysInterval(time.Minute)
			s.addSvc(svc("s1", 80), "", chk("c1", "s1", "passing"))
			s.l.AddCheck(chk("c2", "", "passing"), "", false)
			if err := s.l.SyncFull(); err != nil {
				panic(err)
			}
			var hist []string
			for _, i := range path {
				hist = append(hist, ops[i].name)
				ops[i].run(s)
				if ops[i].name == "SyncFull" {
					// a full sync that succeeded repairs every field but the output, which may wait for its timer
					_, cchk := s.catalogNoOutput()
					_, lchk := s.localNoOutput()
					if d := mapDiff("check", lchk, cchk); len(d) > 0 {
						c.Violate("C16:full-sync-left-a-drifted-check-while-its-output-is-deferred", fmt.Sprintf("right after a full sync: %s\nhistory: %s", strings.Join(d, "; "), strings.Join(hist, " ; ")), map[string]any{"history": hist})
						return
					}
				}
			}
			// quiescence: every timer fires, then the syncs a running agent performs
			for guard := 0; vtimer.Armed() > 0 && guard < 20; guard++ {
				vtimer.Fire(0)
			}
			_ = s.l.SyncChanges()
			for guard := 0; vtimer.Armed() > 0 && guard < 20; guard++ {
				vtimer.Fire(0)
			}
			if err := s.l.SyncFull(); err != nil {
				c.Violate("C16:clean-full-sync-fails:deferred-output", err.Error(), map[string]any{"history": hist})
				return
			}
			_, cchk := s.catalog()
			_, lchk := s.localView()
			if d := mapDiff("check", lchk, cchk); len(d) > 0 {
				c.Violate("C16:deferred-check-output-never-reaches-the-catalog", fmt.Sprintf("after every deferral timer fired and a clean full sync: %s\nhistory: %s", strings.Join(d, "; "), strings.Join(hist, " ; ")), map[string]any{"history": hist})
			}
		}
		if len(path) == depth || c.NumViolations() > 20 {
			return
		}
		for i := range ops {
			// two syncs or two firings in a row add nothing
			if len(path) > 0 && i >= 4 && i <= 7 && path[len(path)-1] == i {
				continue
			}
			rec(append(append([]int{}, path...), i))
		}
	}
	rec(nil)
	vtimer.ResetTimers()
	c.Set("deferred_output_histories", runs)
}

func Run(c *ev.Ctx) {
	deferPhase(c)
	alpha := alphabet()
	quick := c.Quick()
	depth, maxFaults := 2, 2
	if !c.Quick() {
		depth = 3
	}
	var seqs [][]int
	var rec func(p []int)
	rec = func(p []int) {
		seqs = append(seqs, append([]int{}, p...))
		if len(p) == depth {
			return
		}
		for i := range alpha {
			rec(append(append([]int{}, p...), i))
		}
	}
	rec(nil)
	var runs, scen int64
	var mu sync.Mutex
	idents := map[string]bool{}
	faultSets := map[int]int64{}
	var next int64 = -1
	var wg sync.WaitGroup
	kinds := []faultKind{fGeneric, fPermDenied, fACLNotFound}
	for w := 0; w < runtime.NumCPU(); w++ {
		wg.Add(1)
		go func() {
			defer wg.Done()
			for {
				i := int(atomic.AddInt64(&next, 1))
				if i >= len(seqs) || c.Expired() {
					return
				}
				for _, base := range []bool{false, true} {
					for _, full := range []bool{true, false} {
						sc := scenario{base: base, ops: seqs[i], full: full}
						atomic.AddInt64(&scen, 1)
						report := func(sc scenario, r result) {
							atomic.AddInt64(&runs, 1)
							for _, v := range r.viol {
								c.Violate(v[0], v[1]+"\nscenario: "+sc.describe(alpha), map[string]any{"scenario": sc.describe(alpha)})
							}
						}
						// deviation-bounded fault enumeration: 0 faults, then every single fault on an identity
						// the clean run called, then every second fault on an identity the single-fault run called
						r0 := runScenario(sc, alpha)
						report(sc, r0)
						local0 := map[string]bool{}
						for _, id := range r0.calls {
							local0[id] = true
						}
						n1, n2 := 0, 0
						for id1 := range local0 {
							for _, k1 := range kinds {
								sc1 := sc
								sc1.faults = []fault{{id1, k1}}
								r1 := runScenario(sc1, alpha)
								report(sc1, r1)
								n1++
								if maxFaults < 2 {
									continue
								}
								seen := map[string]bool{}
								for _, id2 := range r1.calls {
									if id2 == id1 || seen[id2] {
										continue
									}
									seen[id2] = true
									// unordered pairs once: only extend with identities that sort after id1 when
									// both were already in the clean run (otherwise the pair is reachable only this way)
									if local0[id2] && id2 < id1 {
										continue
									}
									for _, k2 := range kinds {
										if quick && (k1 == fACLNotFound || k2 == fACLNotFound) {
											continue // pairs involving the second ACL error spelling: thorough tier
										}
										sc2 := sc
										sc2.faults = []fault{{id1, k1}, {id2, k2}}
										report(sc2, runScenario(sc2, alpha))
										n2++
									}
								}
							}
						}
						mu.Lock()
						for id := range local0 {
							idents[strings.SplitN(id, ":", 3)[0]+":"+func() string {
								p := strings.SplitN(id, ":", 3)
								if len(p) > 1 {
									return p[1]
								}
								return ""
							}()] = true
						}
						faultSets[1] += int64(n1)
						faultSets[2] += int64(n2)
						mu.Unlock()
					}
				}
			}
		}()
	}
	wg.Wait()
	var il []string
	for k := range idents {
		il = append(il, k)
	}
	sort.Strings(il)
	c.Set("histories", len(seqs))
	c.Set("scenarios", scen)
	c.Set("fault_points", faultSets[1]+faultSets[2])
	c.Set("single_fault_runs", faultSets[1])
	c.Set("double_fault_runs", faultSets[2])
	c.Set("evaluations", runs)
	c.Set("distinct_nontrivial", len(il))
	c.Set("rpc_identity_classes", il)
	c.Set("alphabet_size", len(alpha))
	c.Set("max_depth", depth)
	c.Set("rule", "every history (<= max_depth) of local registrations/removals/updates and external catalog drift from {empty, synced base}; then SyncFull or SyncChanges under every set of <=2 failing RPC identities (those the fault-free / single-fault run actually calls) x {rpc error, permission denied, ACL not found}; then a clean SyncFull. Flags, Deleted markers and catalog rows are checked after the faulty sync, convergence after the clean one")
	c.Sample(map[string]any{"example": scenario{base: true, ops: seqs[len(seqs)/2], full: true, faults: []fault{{"register:service:s1", fGeneric}}}.describe(alpha)})
	c.Assume("the catalog endpoints are mirrored by Catalog.Register's own pre-apply code (hook) + FSM.Apply on a real state store; ACL refusals are injected errors, token resolution is not modelled")
	c.Assume("Go map iteration order inside SyncChanges is sampled by the enumeration, not enumerated")
}
