package cmdlib

import (
	"fmt"

	"github.com/hashicorp/consul/agent/structs"
	"github.com/hashicorp/consul/api"
	"github.com/hashicorp/consul/internal/verifmc/world"
	"github.com/hashicorp/consul/types"
)

// Node IDs (UUIDs) for rename-by-ID scenarios.
var NodeIDs = map[string]types.NodeID{
	"id1": "aaaaaaaa-aaaa-aaaa-aaaa-aaaaaaaaaaa1",
	"id2": "aaaaaaaa-aaaa-aaaa-aaaa-aaaaaaaaaaa2",
}

type NodeSpec struct {
	Node string
	ID   string // logical id name or ""
	Addr string
	Peer string
	Meta map[string]string
}

func (n NodeSpec) req() *structs.RegisterRequest {
	r := &structs.RegisterRequest{Datacenter: DC, Node: n.Node, Address: n.Addr, PeerName: n.Peer, NodeMeta: n.Meta}
	if n.Addr == "" {
		r.Address = "10.0.0.1"
	}
	if n.ID != "" {
		r.ID = NodeIDs[n.ID]
	}
	return r
}

func (n NodeSpec) label() string {
	l := n.Node
	if n.ID != "" {
		l += "#" + n.ID
	}
	if n.Addr != "" {
		l += "@" + n.Addr
	}
	if n.Peer != "" {
		l += "~" + n.Peer
	}
	return l
}

func RegNode(n NodeSpec) world.Op {
	return world.Op{Name: "reg.node(" + n.label() + ")", Kind: "register/node", Build: func(w *world.World) (structs.MessageType, any, bool) {
		return structs.RegisterRequestType, n.req(), true
	}}
}

// SvcSpec describes a service instance.
type SvcSpec struct {
	ID, Name string
	Kind     structs.ServiceKind
	Port     int
	Tags     []string
	// connect-proxy
	DestName  string
	Upstreams []string
	Native    bool
	Peer      string
	Addr      string
	VIPTag    string // TaggedAddresses[consul-virtual]
}

func (s SvcSpec) NodeService() *structs.NodeService {
	ns := &structs.NodeService{Kind: s.Kind, ID: s.ID, Service: s.Name, Port: s.Port, Tags: s.Tags, PeerName: s.Peer, Address: s.Addr,
		Weights: &structs.Weights{Passing: 1, Warning: 1}}
	if ns.ID == "" {
		ns.ID = s.Name
	}
	if s.Kind == structs.ServiceKindConnectProxy {
		ns.Proxy.DestinationServiceName = s.DestName
		for _, u := range s.Upstreams {
			ns.Proxy.Upstreams = append(ns.Proxy.Upstreams, structs.Upstream{DestinationType: structs.UpstreamDestTypeService,
				DestinationName: u, LocalBindPort: 9000 + len(ns.Proxy.Upstreams)})
		}
	}
	if s.Native {
		ns.Connect.Native = true
	}
	if s.VIPTag != "" {
		ns.TaggedAddresses = map[string]structs.ServiceAddress{structs.TaggedAddressVirtualIP: {Address: s.VIPTag, Port: s.Port}}
	}
	return ns
}

func (s SvcSpec) label() string {
	l := s.ID
	if l == "" {
		l = s.Name
	}
	if s.ID != "" && s.ID != s.Name {
		l += "=" + s.Name
	}
	if s.Kind != "" {
		l += "/" + string(s.Kind)
	}
	if s.DestName != "" {
		l += "->" + s.DestName
	}
	if len(s.Upstreams) > 0 {
		l += fmt.Sprintf("^%v", s.Upstreams)
	}
	if s.Native {
		l += "/native"
	}
	if s.Port != 0 {
		l += fmt.Sprintf(":%d", s.Port)
	}
	if len(s.Tags) > 0 {
		l += fmt.Sprintf("%v", s.Tags)
	}
	if s.Peer != "" {
		l += "~" + s.Peer
	}
	return l
}

func RegService(n NodeSpec, s SvcSpec) world.Op {
	return world.Op{Name: "reg.svc(" + n.label() + "," + s.label() + ")", Kind: "register/service", Build: func(w *world.World) (structs.MessageType, any, bool) {
		r := n.req()
		s.Peer = n.Peer
		r.Service = s.NodeService()
		return structs.RegisterRequestType, r, true
	}}
}

// RegServiceOnly registers a service with SkipNodeUpdate (the node must exist for it to succeed).
func RegServiceSkipNode(node string, s SvcSpec) world.Op {
	return world.Op{Name: "reg.svc-skipnode(" + node + "," + s.label() + ")", Kind: "register/service", Build: func(w *world.World) (structs.MessageType, any, bool) {
		r := &structs.RegisterRequest{Datacenter: DC, Node: node, SkipNodeUpdate: true, Service: s.NodeService(), PeerName: s.Peer}
		return structs.RegisterRequestType, r, true
	}}
}

type CheckSpec struct {
	ID        string
	Name      string
	Status    string
	ServiceID string
	Type      string
	SessName  string // Definition.SessionName for session-type checks
	Output    string
	Peer      string
	// SvcName is the service name declared on the check (Txn.Apply wants it when the service is created in the same request)
	SvcName string
}

func (c CheckSpec) HealthCheck(node string) *structs.HealthCheck {
	hc := &structs.HealthCheck{Node: node, CheckID: types.CheckID(c.ID), Name: c.Name, Status: c.Status, ServiceID: c.ServiceID,
		Type: c.Type, Output: c.Output, PeerName: c.Peer, ServiceName: c.SvcName}
	if hc.Name == "" {
		hc.Name = c.ID
	}
	if c.SessName != "" {
		hc.Definition.SessionName = c.SessName
	}
	return hc
}

func (c CheckSpec) label() string {
	l := c.ID + "=" + c.Status
	if c.ServiceID != "" {
		l += "/svc:" + c.ServiceID
	}
	if c.Type != "" {
		l += "/" + c.Type
	}
	if c.Peer != "" {
		l += "~" + c.Peer
	}
	return l
}

func RegCheck(n NodeSpec, c CheckSpec) world.Op {
	return world.Op{Name: "reg.check(" + n.label() + "," + c.label() + ")", Kind: "register/check", Build: func(w *world.World) (structs.MessageType, any, bool) {
		r := n.req()
		c.Peer = n.Peer
		r.Check = c.HealthCheck(n.Node)
		return structs.RegisterRequestType, r, true
	}}
}

func RegServiceWithCheck(n NodeSpec, s SvcSpec, c CheckSpec) world.Op {
	return world.Op{Name: "reg.svc+check(" + n.label() + "," + s.label() + "," + c.label() + ")", Kind: "register/service+check", Build: func(w *world.World) (structs.MessageType, any, bool) {
		r := n.req()
		s.Peer, c.Peer = n.Peer, n.Peer
		r.Service = s.NodeService()
		r.Checks = structs.HealthChecks{c.HealthCheck(n.Node)}
		return structs.RegisterRequestType, r, true
	}}
}

func DeregNode(node, peer string) world.Op {
	return world.Op{Name: "dereg.node(" + node + peerSfx(peer) + ")", Kind: "deregister/node", Build: func(w *world.World) (structs.MessageType, any, bool) {
		return structs.DeregisterRequestType, &structs.DeregisterRequest{Datacenter: DC, Node: node, PeerName: peer}, true
	}}
}
func DeregService(node, id, peer string) world.Op {
	return world.Op{Name: "dereg.svc(" + node + "," + id + peerSfx(peer) + ")", Kind: "deregister/service", Build: func(w *world.World) (structs.MessageType, any, bool) {
		return structs.DeregisterRequestType, &structs.DeregisterRequest{Datacenter: DC, Node: node, ServiceID: id, PeerName: peer}, true
	}}
}
func DeregCheck(node, id, peer string) world.Op {
	return world.Op{Name: "dereg.check(" + node + "," + id + peerSfx(peer) + ")", Kind: "deregister/check", Build: func(w *world.World) (structs.MessageType, any, bool) {
		return structs.DeregisterRequestType, &structs.DeregisterRequest{Datacenter: DC, Node: node, CheckID: types.CheckID(id), PeerName: peer}, true
	}}
}

func peerSfx(p string) string {
	if p == "" {
		return ""
	}
	return "~" + p
}

// ---- txn catalog verbs ------------------------------------------------------------------------

func nodeCur(w *world.World, node, peer string) uint64 {
	_, n, err := w.Store().GetNode(node, nil, peer)
	if err != nil || n == nil {
		return 0
	}
	return n.ModifyIndex
}

func svcCur(w *world.World, node, id, peer string) uint64 {
	_, s, err := w.Store().NodeService(nil, node, id, nil, peer)
	if err != nil || s == nil {
		return 0
	}
	return s.ModifyIndex
}

func checkCur(w *world.World, node, id, peer string) uint64 {
	_, c, err := w.Store().NodeCheck(node, types.CheckID(id), nil, peer)
	if err != nil || c == nil {
		return 0
	}
	return c.ModifyIndex
}

func TxnNode(verb api.NodeOp, n NodeSpec, c IdxClass) TxnPart {
	name := fmt.Sprintf("node.%s(%s", verb, n.label())
	useIdx := verb == api.NodeCAS || verb == api.NodeDeleteCAS
	if useIdx {
		name += ",idx=" + c.String()
	}
	name += ")"
	return TxnPart{Name: name, Kind: "node/" + string(verb), Build: func(w *world.World) (*structs.TxnOp, bool) {
		node := structs.Node{Node: n.Node, Address: n.Addr, PeerName: n.Peer, Meta: n.Meta, Datacenter: DC}
		if node.Address == "" {
			node.Address = "10.0.0.1"
		}
		if n.ID != "" {
			node.ID = NodeIDs[n.ID]
		}
		if useIdx {
			i, ok := PickIdx(w, c, nodeCur(w, n.Node, n.Peer))
			if !ok {
				return nil, false
			}
			node.ModifyIndex = i
		}
		return &structs.TxnOp{Node: &structs.TxnNodeOp{Verb: verb, Node: node}}, true
	}}
}

func TxnService(verb api.ServiceOp, node string, s SvcSpec, c IdxClass) TxnPart {
	name := fmt.Sprintf("svc.%s(%s,%s", verb, node, s.label())
	useIdx := verb == api.ServiceCAS || verb == api.ServiceDeleteCAS
	if useIdx {
		name += ",idx=" + c.String()
	}
	name += ")"
	return TxnPart{Name: name, Kind: "service/" + string(verb), Build: func(w *world.World) (*structs.TxnOp, bool) {
		ns := s.NodeService()
		if useIdx {
			i, ok := PickIdx(w, c, svcCur(w, node, ns.ID, s.Peer))
			if !ok {
				return nil, false
			}
			ns.ModifyIndex = i
		}
		return &structs.TxnOp{Service: &structs.TxnServiceOp{Verb: verb, Node: node, Service: *ns}}, true
	}}
}

func TxnCheck(verb api.CheckOp, node string, c CheckSpec, ic IdxClass) TxnPart {
	name := fmt.Sprintf("check.%s(%s,%s", verb, node, c.label())
	useIdx := verb == api.CheckCAS || verb == api.CheckDeleteCAS
	if useIdx {
		name += ",idx=" + ic.String()
	}
	name += ")"
	return TxnPart{Name: name, Kind: "check/" + string(verb), Build: func(w *world.World) (*structs.TxnOp, bool) {
		hc := c.HealthCheck(node)
		if useIdx {
			i, ok := PickIdx(w, ic, checkCur(w, node, c.ID, c.Peer))
			if !ok {
				return nil, false
			}
			hc.ModifyIndex = i
		}
		return &structs.TxnOp{Check: &structs.TxnCheckOp{Verb: verb, Check: *hc}}, true
	}}
}
