package cmdlib

import (
	"fmt"
	"os"
	"strconv"
	"strings"
	"time"

	"github.com/hashicorp/consul/agent/structs"
	"github.com/hashicorp/consul/internal/verifmc/world"
)

var PolicyIDs = map[string]string{
	"p1": "aaaaaaaa-0000-0000-0000-000000000001",
	"p2": "aaaaaaaa-0000-0000-0000-000000000002",
	"p3": "aaaaaaaa-0000-0000-0000-000000000003",
}
var RoleIDs = map[string]string{
	"r1": "bbbbbbbb-0000-0000-0000-000000000001",
	"r2": "bbbbbbbb-0000-0000-0000-000000000002",
}
var TokenAccessors = map[string]string{
	"t1": "cccccccc-0000-0000-0000-000000000001",
	"t2": "cccccccc-0000-0000-0000-000000000002",
	"t3": "cccccccc-0000-0000-0000-000000000003",
}
var TokenSecrets = map[string]string{
	"t1": "dddddddd-0000-0000-0000-000000000001",
	"t2": "dddddddd-0000-0000-0000-000000000002",
	"t3": "dddddddd-0000-0000-0000-000000000003",
}
var BindingRuleIDs = map[string]string{
	"b1": "eeeeeeee-0000-0000-0000-000000000001",
	"b2": "eeeeeeee-0000-0000-0000-000000000002",
}

var aclEpoch = time.Unix(1700000000, 0).UTC()

func PolicySet(id, name, rules string) world.Op {
	return world.Op{Name: fmt.Sprintf("acl.policy-set(%s,%s,%q)", id, name, rules), Kind: "acl/policy-set", Build: func(w *world.World) (structs.MessageType, any, bool) {
		p := &structs.ACLPolicy{ID: PolicyIDs[id], Name: name, Rules: rules}
		p.SetHash(true)
		return structs.ACLPolicySetRequestType, &structs.ACLPolicyBatchSetRequest{Policies: structs.ACLPolicies{p}}, true
	}}
}

func PolicyDelete(ids ...string) world.Op {
	return world.Op{Name: "acl.policy-delete(" + strings.Join(ids, ",") + ")", Kind: "acl/policy-delete", Build: func(w *world.World) (structs.MessageType, any, bool) {
		var l []string
		for _, i := range ids {
			l = append(l, PolicyIDs[i])
		}
		return structs.ACLPolicyDeleteRequestType, &structs.ACLPolicyBatchDeleteRequest{PolicyIDs: l}, true
	}}
}

func RoleSet(id, name string, policies []string, svcIdentity string, allowMissing bool) world.Op {
	return world.Op{Name: fmt.Sprintf("acl.role-set(%s,%s,%v,si=%s,missing=%v)", id, name, policies, svcIdentity, allowMissing), Kind: "acl/role-set", Build: func(w *world.World) (structs.MessageType, any, bool) {
		r := &structs.ACLRole{ID: RoleIDs[id], Name: name}
		for _, p := range policies {
			r.Policies = append(r.Policies, structs.ACLRolePolicyLink{ID: PolicyIDs[p]})
		}
		if svcIdentity != "" {
			r.ServiceIdentities = append(r.ServiceIdentities, &structs.ACLServiceIdentity{ServiceName: svcIdentity})
		}
		r.SetHash(true)
		return structs.ACLRoleSetRequestType, &structs.ACLRoleBatchSetRequest{Roles: structs.ACLRoles{r}, AllowMissingLinks: allowMissing}, true
	}}
}

func RoleDelete(ids ...string) world.Op {
	return world.Op{Name: "acl.role-delete(" + strings.Join(ids, ",") + ")", Kind: "acl/role-delete", Build: func(w *world.World) (structs.MessageType, any, bool) {
		var l []string
		for _, i := range ids {
			l = append(l, RoleIDs[i])
		}
		return structs.ACLRoleDeleteRequestType, &structs.ACLRoleBatchDeleteRequest{RoleIDs: l}, true
	}}
}

type TokenSpec struct {
	ID          string
	Policies    []string
	Roles       []string
	SvcIdentity string
	Local       bool
	ExpiresIn   time.Duration // 0 none
	AuthMethod  string
	Desc        string
}

func (t TokenSpec) token() *structs.ACLToken {
	tok := &structs.ACLToken{AccessorID: TokenAccessors[t.ID], SecretID: TokenSecrets[t.ID], Description: t.Desc, Local: t.Local,
		CreateTime: aclEpoch, AuthMethod: t.AuthMethod}
	for _, p := range t.Policies {
		tok.Policies = append(tok.Policies, structs.ACLTokenPolicyLink{ID: PolicyIDs[p]})
	}
	for _, r := range t.Roles {
		tok.Roles = append(tok.Roles, structs.ACLTokenRoleLink{ID: RoleIDs[r]})
	}
	if t.SvcIdentity != "" {
		tok.ServiceIdentities = append(tok.ServiceIdentities, &structs.ACLServiceIdentity{ServiceName: t.SvcIdentity})
	}
	if t.ExpiresIn != 0 {
		e := aclEpoch.Add(t.ExpiresIn)
		tok.ExpirationTime = &e
	}
	tok.SetHash(true)
	return tok
}

func tokenCur(w *world.World, id string) uint64 {
	_, t, err := w.Store().ACLTokenGetByAccessor(nil, TokenAccessors[id], nil)
	if err != nil || t == nil {
		return 0
	}
	return t.ModifyIndex
}

func TokenSet(t TokenSpec, cas bool, c IdxClass, allowMissing bool) world.Op {
	n := fmt.Sprintf("acl.token-set(%s,p=%v,r=%v,si=%s,local=%v,exp=%v,am=%s,desc=%s", t.ID, t.Policies, t.Roles, t.SvcIdentity, t.Local, t.ExpiresIn, t.AuthMethod, t.Desc)
	if cas {
		n += ",cas idx=" + c.String()
	}
	if allowMissing {
		n += ",allow-missing"
	}
	n += ")"
	return world.Op{Name: n, Kind: "acl/token-set", Build: func(w *world.World) (structs.MessageType, any, bool) {
		tok := t.token()
		if cas {
			i, ok := PickIdx(w, c, tokenCur(w, t.ID))
			if !ok {
				return 0, nil, false
			}
			tok.ModifyIndex = i
		}
		return structs.ACLTokenSetRequestType, &structs.ACLTokenBatchSetRequest{Tokens: structs.ACLTokens{tok}, CAS: cas, AllowMissingLinks: allowMissing}, true
	}}
}

func TokenDelete(ids ...string) world.Op {
	return world.Op{Name: "acl.token-delete(" + strings.Join(ids, ",") + ")", Kind: "acl/token-delete", Build: func(w *world.World) (structs.MessageType, any, bool) {
		var l []string
		for _, i := range ids {
			l = append(l, TokenAccessors[i])
		}
		return structs.ACLTokenDeleteRequestType, &structs.ACLTokenBatchDeleteRequest{TokenIDs: l}, true
	}}
}

func ACLBootstrap(id string, c IdxClass) world.Op {
	return world.Op{Name: "acl.bootstrap(" + id + ",reset=" + c.String() + ")", Kind: "acl/bootstrap", Build: func(w *world.World) (structs.MessageType, any, bool) {
		_, cur, _ := w.Store().CanBootstrapACLToken()
		i, ok := PickIdx(w, c, cur)
		if !ok {
			return 0, nil, false
		}
		tok := TokenSpec{ID: id, Policies: nil, Desc: "bootstrap"}.token()
		tok.Policies = []structs.ACLTokenPolicyLink{{ID: structs.ACLPolicyGlobalManagementID}}
		tok.SetHash(true)
		return structs.ACLBootstrapRequestType, &structs.ACLTokenBootstrapRequest{Token: *tok, ResetIndex: i}, true
	}}
}

func AuthMethodSet(name, typ string, ttl time.Duration) world.Op {
	return world.Op{Name: fmt.Sprintf("acl.authmethod-set(%s,%s,%v)", name, typ, ttl), Kind: "acl/authmethod-set", Build: func(w *world.World) (structs.MessageType, any, bool) {
		m := &structs.ACLAuthMethod{Name: name, Type: typ, MaxTokenTTL: ttl, Config: map[string]interface{}{"SessionID": "x"}}
		return structs.ACLAuthMethodSetRequestType, &structs.ACLAuthMethodBatchSetRequest{AuthMethods: structs.ACLAuthMethods{m}}, true
	}}
}

func AuthMethodDelete(names ...string) world.Op {
	return world.Op{Name: "acl.authmethod-delete(" + strings.Join(names, ",") + ")", Kind: "acl/authmethod-delete", Build: func(w *world.World) (structs.MessageType, any, bool) {
		return structs.ACLAuthMethodDeleteRequestType, &structs.ACLAuthMethodBatchDeleteRequest{AuthMethodNames: append([]string{}, names...)}, true
	}}
}

func BindingRuleSet(id, method, bindType, bindName string) world.Op {
	return world.Op{Name: fmt.Sprintf("acl.bindingrule-set(%s,%s,%s,%s)", id, method, bindType, bindName), Kind: "acl/bindingrule-set", Build: func(w *world.World) (structs.MessageType, any, bool) {
		r := &structs.ACLBindingRule{ID: BindingRuleIDs[id], AuthMethod: method, BindType: bindType, BindName: bindName}
		return structs.ACLBindingRuleSetRequestType, &structs.ACLBindingRuleBatchSetRequest{BindingRules: structs.ACLBindingRules{r}}, true
	}}
}

func BindingRuleDelete(ids ...string) world.Op {
	return world.Op{Name: "acl.bindingrule-delete(" + strings.Join(ids, ",") + ")", Kind: "acl/bindingrule-delete", Build: func(w *world.World) (structs.MessageType, any, bool) {
		var l []string
		for _, i := range ids {
			l = append(l, BindingRuleIDs[i])
		}
		return structs.ACLBindingRuleDeleteRequestType, &structs.ACLBindingRuleBatchDeleteRequest{BindingRuleIDs: l}, true
	}}
}

// Epoch is a wall-clock instant shared by every process of one check run (VERIF_EPOCH, set by the parent),
// for the few commands whose content must lie in the near future of the real clock.
func Epoch() time.Time {
	if v := os.Getenv("VERIF_EPOCH"); v != "" {
		if n, err := strconv.ParseInt(v, 10, 64); err == nil {
			return time.Unix(n, 0).UTC()
		}
	}
	return time.Now().Truncate(time.Hour).UTC()
}

// TokenSetReplicated is a token batch-set as ACL replication issues it in a secondary datacenter: FromReplication is
// set and the token expires `in` after Epoch() - in the future of a replica that applies the log now, in the past of
// one that applies it much later.
func TokenSetReplicated(id string, in time.Duration) world.Op {
	return world.Op{Name: fmt.Sprintf("acl.token-set-replicated(%s,expires=epoch+%v)", id, in), Kind: "acl/token-set-replicated", Build: func(w *world.World) (structs.MessageType, any, bool) {
		e := Epoch().Add(in)
		tok := &structs.ACLToken{AccessorID: TokenAccessors[id], SecretID: TokenSecrets[id], Description: "replicated", CreateTime: Epoch().Add(-time.Hour), ExpirationTime: &e}
		tok.SetHash(true)
		return structs.ACLTokenSetRequestType, &structs.ACLTokenBatchSetRequest{Tokens: structs.ACLTokens{tok}, FromReplication: true}, true
	}}
}
