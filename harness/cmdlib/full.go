package cmdlib

import (
	"time"

	"github.com/hashicorp/consul/agent/structs"
	"github.com/hashicorp/consul/api"
	"github.com/hashicorp/consul/internal/verifmc/world"
	"github.com/hashicorp/consul/proto/private/pbpeering"
)

// Group tags a slice of ops so that checks can pick focused sub-alphabets.
type Group struct {
	Name string
	Ops  []world.Op
}

// Common entities used across the full alphabet.
var (
	FN1     = NodeSpec{Node: "n1", ID: "id1"}
	FN1b    = NodeSpec{Node: "n1b", ID: "id1"}
	FN2     = NodeSpec{Node: "n2"}
	FN1p    = NodeSpec{Node: "n1", Peer: "p1"}
	FWeb    = SvcSpec{Name: "web", Port: 80, Tags: []string{"v1"}}
	FWeb2   = SvcSpec{ID: "web-2", Name: "web", Port: 80, Tags: []string{"v2"}}
	FProxy  = SvcSpec{ID: "web-proxy-1", Name: "web-proxy", Kind: structs.ServiceKindConnectProxy, DestName: "web", Upstreams: []string{"db"}, Port: 21000}
	FProxy2 = SvcSpec{ID: "web-proxy-2", Name: "web-proxy", Kind: structs.ServiceKindConnectProxy, DestName: "web", Upstreams: []string{"db"}, Port: 21000}
	FDB     = SvcSpec{Name: "db", Native: true, Port: 5432}
	FTGW    = SvcSpec{Name: "tgw", Kind: structs.ServiceKindTerminatingGateway, Port: 8443}
	FIGW    = SvcSpec{Name: "igw", Kind: structs.ServiceKindIngressGateway, Port: 8080}
	FC1     = CheckSpec{ID: "c1", Status: api.HealthPassing}
	FC1c    = CheckSpec{ID: "c1", Status: api.HealthCritical}
	FSC1    = CheckSpec{ID: "sc1", Status: api.HealthPassing, ServiceID: "web"}
	FSessCk = CheckSpec{ID: "sessck", Status: api.HealthCritical, Type: "session", SessName: "lockname"}
	FS1     = SessionSpec{Name: "s1", Node: "n1", Behavior: structs.SessionKeysRelease, NodeChecks: []string{"c1"}}
	FS2     = SessionSpec{Name: "s2", Node: "n1", Behavior: structs.SessionKeysDelete, SessName: "lockname", TTL: "30s"}
)

// FullAlphabet returns one or more ops for every registered FSM command type, in groups.
func FullAlphabet() []Group {
	kv := func(v api.KVOp, key, val, sess string, ic IdxClass, useIdx bool) KVSpec {
		return KVSpec{Verb: v, Key: key, Val: val, Sess: sess, Idx: ic, UseIdx: useIdx}
	}
	catalog := Group{"catalog", []world.Op{
		RegNode(FN1), RegNode(FN2), RegNode(FN1b),
		RegService(FN1, FWeb), RegService(FN2, FWeb2), RegService(FN1, FProxy), RegService(FN2, FProxy2), RegService(FN1, FDB),
		RegService(FN1, FTGW), RegService(FN2, FIGW),
		RegCheck(FN1, FC1), RegCheck(FN1, FC1c), RegCheck(FN1, FSC1), RegCheck(FN1, FSessCk),
		RegServiceSkipNode("n3", FWeb), // rejected: node missing
		RegCheck(NodeSpec{Node: "n1", ID: "id1"}, CheckSpec{ID: "sc9", Status: api.HealthPassing, ServiceID: "nope"}), // rejected: service missing
		RegService(FN1p, SvcSpec{Name: "web", Port: 80}), RegCheck(FN1p, CheckSpec{ID: "c1", Status: api.HealthPassing}),
		DeregService("n1", "web", ""), DeregService("n2", "web-2", ""), DeregService("n2", "web-proxy-2", ""), DeregCheck("n1", "c1", ""),
		DeregNode("n1", ""), DeregNode("n2", ""), DeregNode("n1", "p1"), DeregService("n1", "nope", ""),
		CoordinateUpdate("n1", 0.5), CoordinateUpdate("n9", 0.1),
	}}
	kvg := Group{"kv", []world.Op{
		kv(api.KVSet, "a", "x", "", 0, false).Op(), kv(api.KVSet, "a/b", "y", "", 0, false).Op(),
		kv(api.KVCAS, "a", "z", "", IdxCurrent, true).Op(), kv(api.KVCAS, "a", "z", "", IdxStale, true).Op(), kv(api.KVCAS, "c", "z", "", IdxZero, true).Op(),
		kv(api.KVDelete, "a", "", "", 0, false).Op(), kv(api.KVDeleteCAS, "a/b", "", "", IdxCurrent, true).Op(), kv(api.KVDeleteTree, "a", "", "", 0, false).Op(),
		kv(api.KVLock, "a", "x", "s1", 0, false).Op(), kv(api.KVLock, "a", "x", "s2", 0, false).Op(), kv(api.KVUnlock, "a", "x", "s1", 0, false).Op(),
		KVSpec{Verb: "bogus", Key: "a"}.Op(), // rejected: invalid op
		TombstoneReap(IdxCurrent), TombstoneReap(IdxStale),
	}}
	sess := Group{"session", []world.Op{
		FS1.Create(), FS2.Create(), SessionDestroy("s1"), SessionDestroy("s2"),
		SessionSpec{Name: "s3", Node: "n9", Behavior: structs.SessionKeysRelease}.Create(),                                              // rejected: node missing
		SessionSpec{Name: "s3", Node: "n1", Behavior: "bogus"}.Create(),                                                                 // rejected: behaviour
		SessionSpec{Name: "s4", Node: "n1", Behavior: structs.SessionKeysRelease, NodeChecks: []string{"c1", "nope", "nope2"}}.Create(), // rejected: several missing checks
	}}
	txn := Group{"txn", []world.Op{
		Txn(kv(api.KVSet, "a", "t", "", 0, false).TxnOp(), kv(api.KVGet, "a", "", "", 0, false).TxnOp()),
		Txn(kv(api.KVCheckIndex, "a", "", "", IdxStale, true).TxnOp(), kv(api.KVSet, "a", "t2", "", 0, false).TxnOp()),
		Txn(TxnNode(api.NodeSet, FN2, 0), TxnService(api.ServiceSet, "n2", FWeb2, 0), TxnCheck(api.CheckSet, "n2", CheckSpec{ID: "c2", Status: api.HealthWarning}, 0)),
		Txn(TxnNode(api.NodeDelete, FN1, 0)), Txn(TxnService(api.ServiceDelete, "n1", FWeb, 0)), Txn(TxnCheck(api.CheckSet, "n1", FC1c, 0)),
		Txn(TxnSessionDelete("s1")), Txn(kv(api.KVLock, "a/b", "x", "s1", 0, false).TxnOp(), TxnSessionDelete("s1")),
		Txn(TxnNode(api.NodeCAS, NodeSpec{Node: "n1", ID: "id1", Addr: "10.0.0.9"}, IdxCurrent), TxnService(api.ServiceCAS, "n1", SvcSpec{Name: "web", Port: 81}, IdxStale)),
	}}
	pq := Group{"prepared-query", []world.Op{
		PQSet("q1", "q-one", "s1", "web"), PQSet("q2", "q-one", "", "web"), PQSet("q2", "q-two", "", "db"), PQDelete("q1"), PQDelete("q2"),
	}}
	config := Group{"config-entry", []world.Op{
		SvcDefaults("web", "http").Upsert(), SvcDefaults("web", "tcp").Upsert(), SvcDefaults("web", "http").UpsertCAS(IdxStale), SvcDefaults("web", "grpc").UpsertCAS(IdxCurrent),
		SvcDefaults("web", "http").Delete(), SvcDefaults("web", "http").DeleteCAS(IdxCurrent),
		SvcDefaultsDest("ext", "example.com").Upsert(), SvcDefaultsDest("ext", "example.com").Delete(),
		ProxyDefaults("http").Upsert(), ProxyDefaults("http").Delete(),
		Resolver("web", ResolverOpt{Subsets: []string{"v1", "v2"}, DefaultSubset: "v1"}).Upsert(), Resolver("web", ResolverOpt{Redirect: "db"}).Upsert(),
		Resolver("db", ResolverOpt{Failover: "web"}).Upsert(), Resolver("web", ResolverOpt{}).Delete(),
		Splitter("web", Leg{"web", "", 50}, Leg{"db", "", 50}).Upsert(), Splitter("web").Delete(),
		Router("web", Route{"/admin", "db", ""}).Upsert(), Router("web").Delete(),
		Terminating("tgw", "*").Upsert(), Terminating("tgw", "web", "ext").Upsert(), Terminating("tgw").Delete(),
		Ingress("igw", "tcp", "web").Upsert(), Ingress("igw", "http", "*").Upsert(), Ingress("igw", "tcp").Delete(),
		Exported(map[string][]string{"web": {"p1"}}).Upsert(), Exported(map[string][]string{"*": {"p1", "p2"}}).Upsert(), Exported(nil).Delete(),
		Mesh(true).Upsert(), Mesh(false).Delete(),
		Intentions("web", IxnSrc{Name: "db", Action: structs.IntentionActionAllow}, IxnSrc{Name: "*", Action: structs.IntentionActionDeny}).Upsert(),
		Intentions("web", IxnSrc{Name: "db", Peer: "p1", Action: structs.IntentionActionDeny}).Upsert(), Intentions("web").Delete(),
	}}
	ixn := Group{"intention", []world.Op{
		LegacyIxnSet("i1", "db", "web", structs.IntentionActionAllow, false), LegacyIxnSet("i2", "*", "web", structs.IntentionActionDeny, false),
		LegacyIxnSet("i1", "db", "web", structs.IntentionActionDeny, true), LegacyIxnSet("i3", "db", "web", structs.IntentionActionAllow, false), // duplicate 4-tuple: rejected
		LegacyIxnDelete("i1"), LegacyIxnDeleteAll(),
		IntentionsInConfigEntries(),
		IxnMutationUpsert("db", "web", structs.IntentionActionAllow), IxnMutationUpsert("*", "web", structs.IntentionActionDeny), IxnMutationDelete("db", "web"),
		IxnMutationLegacyCreate("i4", "api", "web", structs.IntentionActionAllow),
	}}
	acl := Group{"acl", []world.Op{
		PolicySet("p1", "pol-one", `service "web" { policy = "read" }`), PolicySet("p2", "pol-two", `service "web" { policy = "write" }`),
		PolicySet("p3", "pol-one", `node_prefix "" { policy = "read" }`), // duplicate name: rejected
		PolicySet("p1", "pol-one", `service "web" { policy = "deny" }`), PolicyDelete("p1"), PolicyDelete("p2", "p3"),
		RoleSet("r1", "role-one", []string{"p1"}, "web", false), RoleSet("r2", "role-two", []string{"p9"}, "", false), RoleSet("r2", "role-two", []string{"p9"}, "", true), RoleDelete("r1"),
		TokenSet(TokenSpec{ID: "t1", Policies: []string{"p1"}}, false, 0, false), TokenSet(TokenSpec{ID: "t2", Policies: []string{"p1", "p2"}, Roles: []string{"r1"}, SvcIdentity: "web"}, false, 0, false),
		TokenSet(TokenSpec{ID: "t3", Local: true, ExpiresIn: time.Hour, Desc: "exp"}, false, 0, false), TokenSet(TokenSpec{ID: "t1", Desc: "cas"}, true, IdxCurrent, false), TokenSet(TokenSpec{ID: "t1", Desc: "cas"}, true, IdxStale, false),
		TokenSet(TokenSpec{ID: "t2", Policies: []string{"p9"}}, false, 0, false), TokenSet(TokenSpec{ID: "t2", Policies: []string{"p9"}}, false, 0, true),
		TokenSet(TokenSpec{ID: "t3", AuthMethod: "am1", Local: true}, false, 0, false),
		TokenDelete("t1"), TokenDelete("t2", "t3"),
		ACLBootstrap("t1", IdxZero), ACLBootstrap("t2", IdxCurrent), ACLBootstrap("t2", IdxStale),
		AuthMethodSet("am1", "testing", time.Minute), AuthMethodDelete("am1"),
		BindingRuleSet("b1", "am1", "service", "web"), BindingRuleSet("b2", "nope", "service", "web"), BindingRuleDelete("b1"),
		DeprecatedACL(),
	}}
	r1 := []RootSpec{{ID: "r1", Active: true}}
	r2 := []RootSpec{{ID: "r1"}, {ID: "r2", Active: true}}
	ca := Group{"ca", []world.Op{
		CASetRoots(r1, IdxZero), CASetRoots(r2, IdxCurrent), CASetRoots(r2, IdxStale), CASetRoots([]RootSpec{{ID: "r1"}, {ID: "r2"}}, IdxCurrent), // no active: rejected
		CASetConfig("72h", IdxZero), CASetConfig("48h", IdxCurrent), CASetConfig("48h", IdxStale),
		CASetRootsAndConfig(r2, IdxCurrent, "24h", IdxCurrent), CASetRootsAndConfig(r2, IdxCurrent, "24h", IdxStale), CASetRootsAndConfig(r1, IdxStale, "24h", IdxCurrent),
		CAProviderState("ps1", false), CAProviderState("ps1", true), CAIncrementSerial(), CALeafIncrement(),
	}}
	misc := Group{"misc", []world.Op{
		Autopilot(100, false, 0), Autopilot(200, true, IdxCurrent), Autopilot(300, true, IdxStale),
		FeatureGate("on", true, IdxZero, IdxZero), FeatureGate("off", false, IdxCurrent, IdxCurrent), FeatureGate("off", true, IdxStale, IdxCurrent),
		FederationState("dc2", 5, false), FederationState("dc2", 9, false), FederationState("dc2", 0, true),
		EnableVIPs(), EnableTermGWVIPs(), SysMeta("custom", "v", false), SysMeta("custom", "", true),
		ManualVIPs("web", "10.10.10.10"), ManualVIPs("db", "10.10.10.10", "10.10.10.11"), ManualVIPs("nope", "10.9.9.9"),
	}}
	peering := Group{"peering", []world.Op{
		PeeringWrite("p1", pbpeering.PeeringState_PENDING, false, "est-1"), PeeringWrite("p1", pbpeering.PeeringState_ACTIVE, false, ""),
		PeeringWrite("p2", pbpeering.PeeringState_ESTABLISHING, true, ""), PeeringWrite("p1", pbpeering.PeeringState_DELETING, false, ""),
		PeeringWrite("p1", pbpeering.PeeringState_TERMINATED, false, ""),
		PeeringDelete("p1"), PeeringTerminate("p1"), PeeringTerminate("p2"),
		TrustBundleWrite("p1", "peer1.consul", "ROOT-A"), TrustBundleWrite("p1", "peer1.consul", "ROOT-A", "ROOT-B"), TrustBundleDelete("p1"),
		SecretsWrite("p1", "generate", "est-2", ""), SecretsWrite("p1", "exchange", "est-1", "pend-1"), SecretsWrite("p1", "exchange", "est-2", "pend-2"),
		SecretsWrite("p1", "promote", "pend-1", ""), SecretsWrite("p1", "promote", "pend-2", ""), SecretsWrite("p2", "establish", "act-9", ""),
	}}
	res := Group{"resource", []world.Op{
		ResourceWrite("r1", "uid-1", "a", IdxZero), ResourceWrite("r1", "uid-1", "b", IdxCurrent), ResourceWrite("r1", "uid-1", "c", IdxStale),
		ResourceWrite("r1", "uid-2", "d", IdxCurrent), ResourceWrite("r2", "uid-3", "a", IdxZero),
		ResourceDelete("r1", "uid-1", IdxCurrent), ResourceDelete("r1", "uid-1", IdxStale), ResourceDelete("r1", "", IdxZero),
	}}
	return []Group{catalog, kvg, sess, txn, pq, config, ixn, acl, ca, misc, peering, res}
}

func Flatten(gs []Group, names ...string) []world.Op {
	want := map[string]bool{}
	for _, n := range names {
		want[n] = true
	}
	var out []world.Op
	for _, g := range gs {
		if len(want) == 0 || want[g.Name] {
			out = append(out, g.Ops...)
		}
	}
	return out
}

// FullSeeds: non-initial starting states that place the system where interesting transitions are.
func FullSeeds() map[string][]world.Op {
	m := fullSeeds()
	m["mesh+mutual-chains"] = append(append([]world.Op{}, m["mesh"]...), Resolver("db", ResolverOpt{Failover: "web"}).Upsert(), Resolver("web", ResolverOpt{Redirect: "db"}).Upsert())
	return m
}

func fullSeeds() map[string][]world.Op {
	return map[string][]world.Op{
		"empty": nil,
		"catalog+session": {RegNode(FN1), RegService(FN1, SvcSpec{Name: "old", Port: 1}), DeregService("n1", "old", ""), // an early service extinction
			RegNode(FN2), RegService(FN1, FWeb), RegCheck(FN1, FC1), RegCheck(FN1, FSC1), RegCheck(FN1, FSessCk), FS1.Create(), FS2.Create(),
			KVSpec{Verb: api.KVLock, Key: "a", Val: "x", Sess: "s1"}.Op(), KVSpec{Verb: api.KVLock, Key: "a/b", Val: "y", Sess: "s2"}.Op(), PQSet("q1", "q-one", "s1", "web"),
			KVSpec{Verb: api.KVSet, Key: "c", Val: "z"}.Op(), KVSpec{Verb: api.KVDelete, Key: "c"}.Op(), CoordinateUpdate("n1", 0.5)},
		"mesh": {EnableVIPs(), EnableTermGWVIPs(), RegNode(FN1), RegService(FN1, SvcSpec{Name: "old", Port: 1}), DeregService("n1", "old", ""), // an early service extinction
			RegNode(FN2), RegService(FN1, FWeb), RegService(FN2, FWeb2), RegService(FN1, FProxy), RegService(FN2, FProxy2), RegService(FN1, FDB),
			Terminating("tgw", "*").Upsert(), Ingress("igw", "tcp", "web").Upsert(), RegService(FN1, FTGW), RegService(FN2, FIGW),
			SvcDefaults("web", "http").Upsert(), ProxyDefaults("http").Upsert(), Resolver("web", ResolverOpt{Subsets: []string{"v1", "v2"}, DefaultSubset: "v1"}).Upsert(),
			SvcDefaultsDest("ext", "example.com").Upsert(), ManualVIPs("web", "10.10.10.10")},
		"acl+ca": {PolicySet("p1", "pol-one", `service "web" { policy = "read" }`), PolicySet("p2", "pol-two", `service "web" { policy = "write" }`), RoleSet("r1", "role-one", []string{"p1"}, "web", false),
			AuthMethodSet("am1", "testing", time.Minute), BindingRuleSet("b1", "am1", "service", "web"),
			TokenSet(TokenSpec{ID: "t1", Policies: []string{"p1"}}, false, 0, false), TokenSet(TokenSpec{ID: "t2", Policies: []string{"p1", "p2"}, Roles: []string{"r1"}}, false, 0, false),
			TokenSet(TokenSpec{ID: "t3", AuthMethod: "am1", Local: true, ExpiresIn: time.Hour}, false, 0, false),
			CASetRoots([]RootSpec{{ID: "r1", Active: true}}, IdxZero), CASetConfig("72h", IdxZero), CAProviderState("ps1", false), CAIncrementSerial(), CALeafIncrement(),
			Autopilot(100, false, 0), FeatureGate("on", true, IdxZero, IdxZero), FederationState("dc2", 5, false)},
		"peering+intentions": {IntentionsInConfigEntries(), PeeringWrite("p1", pbpeering.PeeringState_PENDING, false, "est-1"), SecretsWrite("p1", "exchange", "est-1", "pend-1"),
			SecretsWrite("p1", "promote", "pend-1", ""), SecretsWrite("p1", "generate", "est-2", ""), SecretsWrite("p1", "exchange", "est-2", "pend-2"),
			PeeringWrite("p2", pbpeering.PeeringState_ESTABLISHING, true, ""), SecretsWrite("p2", "establish", "act-9", ""),
			TrustBundleWrite("p1", "peer1.consul", "ROOT-A"), Exported(map[string][]string{"web": {"p1"}}).Upsert(),
			RegNode(FN1), RegService(FN1, FWeb), RegService(FN1p, SvcSpec{Name: "web", Port: 80}), RegCheck(FN1p, CheckSpec{ID: "c1", Status: api.HealthPassing}),
			IxnMutationUpsert("db", "web", structs.IntentionActionAllow), IxnMutationLegacyCreate("i4", "api", "web", structs.IntentionActionAllow),
			Intentions("db", IxnSrc{Name: "web", Peer: "p1", Action: structs.IntentionActionDeny}).Upsert(),
			ResourceWrite("r1", "uid-1", "a", IdxZero), ResourceWrite("r1", "uid-1", "b", IdxCurrent), ResourceWrite("r2", "uid-3", "a", IdxZero)},
		// a key below a prefix that has an older tombstone, so that a recursive delete of the parent shows in list indexes
		"kv-tree": {KVSpec{Verb: api.KVSet, Key: "a/b", Val: "1"}.Op(), KVSpec{Verb: api.KVDelete, Key: "a/b"}.Op(), KVSpec{Verb: api.KVSet, Key: "a/b", Val: "2"}.Op(),
			KVSpec{Verb: api.KVSet, Key: "a", Val: "x"}.Op()},
		// two chains that refer to each other, so that one config entry write can break both at once
		"mesh+mutual-chains": nil,
		"legacy-intentions":  {LegacyIxnSet("i1", "db", "web", structs.IntentionActionAllow, false), LegacyIxnSet("i2", "*", "web", structs.IntentionActionDeny, false)},
	}
}
