package cmdlib

import (
	"fmt"
	"strings"

	"github.com/hashicorp/consul/agent/structs"
	"github.com/hashicorp/consul/internal/verifmc/world"
)

// CE is a config-entry constructor with a label. Make returns a fresh value every time (stored
// objects are never shared between worlds; commands go through msgpack anyway).
type CE struct {
	Label string
	Make  func() structs.ConfigEntry
	// Raw: skip Normalize/Validate (un-normalised "odd" command for C01).
	Raw bool
}

func (e CE) entry() (structs.ConfigEntry, bool) {
	c := e.Make()
	if e.Raw {
		return c, true
	}
	if err := c.Normalize(); err != nil {
		return nil, false
	}
	if err := c.Validate(); err != nil {
		return nil, false
	}
	return c, true
}

func CECur(w *world.World, kind, name string) uint64 {
	_, e, err := w.Store().ConfigEntry(nil, kind, name, nil)
	if err != nil || e == nil {
		return 0
	}
	return e.GetRaftIndex().ModifyIndex
}

func (e CE) op(op structs.ConfigEntryOp, c IdxClass, useIdx bool) world.Op {
	name := fmt.Sprintf("ce.%s(%s", op, e.Label)
	if useIdx {
		name += ",idx=" + c.String()
	}
	name += ")"
	return world.Op{Name: name, Kind: "ce/" + string(op) + "/" + e.Make().GetKind(), Build: func(w *world.World) (structs.MessageType, any, bool) {
		ent, ok := e.entry()
		if !ok {
			return 0, nil, false
		}
		if useIdx {
			i, ok := PickIdx(w, c, CECur(w, ent.GetKind(), ent.GetName()))
			if !ok {
				return 0, nil, false
			}
			ent.GetRaftIndex().ModifyIndex = i
		}
		return structs.ConfigEntryRequestType, &structs.ConfigEntryRequest{Op: op, Datacenter: DC, Entry: ent}, true
	}}
}

func (e CE) Upsert() world.Op              { return e.op(structs.ConfigEntryUpsert, 0, false) }
func (e CE) UpsertCAS(c IdxClass) world.Op { return e.op(structs.ConfigEntryUpsertCAS, c, true) }
func (e CE) UpsertStatusCAS(c IdxClass) world.Op {
	return e.op(structs.ConfigEntryUpsertWithStatusCAS, c, true)
}
func (e CE) Delete() world.Op              { return e.op(structs.ConfigEntryDelete, 0, false) }
func (e CE) DeleteCAS(c IdxClass) world.Op { return e.op(structs.ConfigEntryDeleteCAS, c, true) }

// ---- constructors --------------------------------------------------------------------------------

func SvcDefaults(name, proto string) CE {
	return CE{Label: "service-defaults/" + name + ":" + proto, Make: func() structs.ConfigEntry {
		return &structs.ServiceConfigEntry{Kind: structs.ServiceDefaults, Name: name, Protocol: proto}
	}}
}

func SvcDefaultsDest(name string, addrs ...string) CE {
	return CE{Label: "service-defaults/" + name + ":dest" + fmt.Sprint(addrs), Make: func() structs.ConfigEntry {
		return &structs.ServiceConfigEntry{Kind: structs.ServiceDefaults, Name: name, Protocol: "tcp",
			Destination: &structs.DestinationConfig{Addresses: append([]string{}, addrs...), Port: 443}}
	}}
}

func ProxyDefaults(proto string) CE {
	return CE{Label: "proxy-defaults/global:" + proto, Make: func() structs.ConfigEntry {
		return &structs.ProxyConfigEntry{Kind: structs.ProxyDefaults, Name: structs.ProxyConfigGlobal,
			Config: map[string]interface{}{"protocol": proto}}
	}}
}

type ResolverOpt struct {
	Redirect       string // service
	RedirectSubset string
	Failover       string // service ("" none)
	FailoverSubset string
	FailoverDCs    []string
	Subsets        []string
	DefaultSubset  string
	// FailoverTargets: targets-form failover; an entry "peer:<name>" is a cluster-peer target (same service name),
	// anything else a local service
	FailoverTargets []string
	// FailoverBySubset: subset -> datacenters (one failover entry per subset)
	FailoverBySubset map[string][]string
	// FailoverKey: the key of the service-form failover section (default "*": all subsets)
	FailoverKey string
}

func Resolver(name string, o ResolverOpt) CE {
	lab := "service-resolver/" + name
	if o.Redirect != "" || o.RedirectSubset != "" {
		lab += "=>" + o.Redirect + "/" + o.RedirectSubset
	}
	if o.Failover != "" || o.FailoverSubset != "" || len(o.FailoverDCs) > 0 {
		lab += "|fo:" + o.Failover + "/" + o.FailoverSubset + strings.Join(o.FailoverDCs, ",")
		if o.FailoverKey != "" {
			lab += "@" + o.FailoverKey
		}
	}
	if len(o.Subsets) > 0 {
		lab += "{" + strings.Join(o.Subsets, ",") + "}"
	}
	if o.DefaultSubset != "" {
		lab += "def:" + o.DefaultSubset
	}
	if len(o.FailoverTargets) > 0 {
		lab += "|targets:" + strings.Join(o.FailoverTargets, ",")
	}
	if len(o.FailoverBySubset) > 0 {
		var ks []string
		for k, v := range o.FailoverBySubset {
			ks = append(ks, k+">"+strings.Join(v, "+"))
		}
		sortStrings(ks)
		lab += "|fo-by-subset:" + strings.Join(ks, ",")
	}
	return CE{Label: lab, Make: func() structs.ConfigEntry {
		r := &structs.ServiceResolverConfigEntry{Kind: structs.ServiceResolver, Name: name, DefaultSubset: o.DefaultSubset}
		if len(o.Subsets) > 0 {
			r.Subsets = map[string]structs.ServiceResolverSubset{}
			for _, s := range o.Subsets {
				r.Subsets[s] = structs.ServiceResolverSubset{Filter: "Service.Meta.version == " + s}
			}
		}
		if o.Redirect != "" || o.RedirectSubset != "" {
			r.Redirect = &structs.ServiceResolverRedirect{Service: o.Redirect, ServiceSubset: o.RedirectSubset}
		}
		if o.Failover != "" || o.FailoverSubset != "" || len(o.FailoverDCs) > 0 {
			key := "*"
			if o.FailoverKey != "" {
				key = o.FailoverKey
			}
			r.Failover = map[string]structs.ServiceResolverFailover{key: {Service: o.Failover, ServiceSubset: o.FailoverSubset, Datacenters: o.FailoverDCs}}
		}
		if len(o.FailoverTargets) > 0 {
			var ts []structs.ServiceResolverFailoverTarget
			for _, t := range o.FailoverTargets {
				if strings.HasPrefix(t, "peer:") {
					ts = append(ts, structs.ServiceResolverFailoverTarget{Service: name, Peer: strings.TrimPrefix(t, "peer:")})
				} else if k := strings.IndexByte(t, '/'); k > 0 {
					ts = append(ts, structs.ServiceResolverFailoverTarget{Service: t[:k], ServiceSubset: t[k+1:]}) // "service/subset"
				} else {
					ts = append(ts, structs.ServiceResolverFailoverTarget{Service: t})
				}
			}
			r.Failover = map[string]structs.ServiceResolverFailover{"*": {Targets: ts}}
		}
		if len(o.FailoverBySubset) > 0 {
			r.Failover = map[string]structs.ServiceResolverFailover{}
			for k, v := range o.FailoverBySubset {
				r.Failover[k] = structs.ServiceResolverFailover{Datacenters: append([]string{}, v...)}
			}
		}
		return r
	}}
}

type Leg struct {
	Service, Subset string
	Weight          float32
}

func Splitter(name string, legs ...Leg) CE {
	lab := "service-splitter/" + name + "["
	for _, l := range legs {
		lab += fmt.Sprintf("%s/%s:%g ", l.Service, l.Subset, l.Weight)
	}
	lab = strings.TrimSpace(lab) + "]"
	return CE{Label: lab, Make: func() structs.ConfigEntry {
		s := &structs.ServiceSplitterConfigEntry{Kind: structs.ServiceSplitter, Name: name}
		for _, l := range legs {
			s.Splits = append(s.Splits, structs.ServiceSplit{Weight: l.Weight, Service: l.Service, ServiceSubset: l.Subset})
		}
		return s
	}}
}

type Route struct {
	PathPrefix string
	Service    string
	Subset     string
}

func Router(name string, routes ...Route) CE {
	lab := "service-router/" + name + "["
	for _, r := range routes {
		lab += fmt.Sprintf("%s->%s/%s ", r.PathPrefix, r.Service, r.Subset)
	}
	lab = strings.TrimSpace(lab) + "]"
	return CE{Label: lab, Make: func() structs.ConfigEntry {
		s := &structs.ServiceRouterConfigEntry{Kind: structs.ServiceRouter, Name: name}
		for _, r := range routes {
			s.Routes = append(s.Routes, structs.ServiceRoute{
				Match:       &structs.ServiceRouteMatch{HTTP: &structs.ServiceRouteHTTPMatch{PathPrefix: r.PathPrefix}},
				Destination: &structs.ServiceRouteDestination{Service: r.Service, ServiceSubset: r.Subset},
			})
		}
		return s
	}}
}

func Ingress(name string, proto string, services ...string) CE {
	return CE{Label: "ingress-gateway/" + name + ":" + proto + fmt.Sprint(services), Make: func() structs.ConfigEntry {
		l := structs.IngressListener{Port: 8080, Protocol: proto}
		for _, s := range services {
			l.Services = append(l.Services, structs.IngressService{Name: s})
		}
		return &structs.IngressGatewayConfigEntry{Kind: structs.IngressGateway, Name: name, Listeners: []structs.IngressListener{l}}
	}}
}

func Terminating(name string, services ...string) CE {
	return CE{Label: "terminating-gateway/" + name + fmt.Sprint(services), Make: func() structs.ConfigEntry {
		t := &structs.TerminatingGatewayConfigEntry{Kind: structs.TerminatingGateway, Name: name}
		for _, s := range services {
			t.Services = append(t.Services, structs.LinkedService{Name: s})
		}
		return t
	}}
}

// Exported: svc -> consumer peers
func Exported(m map[string][]string) CE {
	var keys []string
	for k := range m {
		keys = append(keys, k)
	}
	sortStrings(keys)
	lab := "exported-services/default{"
	for _, k := range keys {
		lab += k + "->" + strings.Join(m[k], "+") + " "
	}
	lab = strings.TrimSpace(lab) + "}"
	return CE{Label: lab, Make: func() structs.ConfigEntry {
		e := &structs.ExportedServicesConfigEntry{Name: "default"}
		for _, k := range keys {
			es := structs.ExportedService{Name: k}
			for _, p := range m[k] {
				es.Consumers = append(es.Consumers, structs.ServiceConsumer{Peer: p})
			}
			e.Services = append(e.Services, es)
		}
		return e
	}}
}

func Mesh(transparentMeshOnly bool) CE {
	return CE{Label: fmt.Sprintf("mesh/mesh:%v", transparentMeshOnly), Make: func() structs.ConfigEntry {
		return &structs.MeshConfigEntry{TransparentProxy: structs.TransparentProxyMeshConfig{MeshDestinationsOnly: transparentMeshOnly}}
	}}
}

// IxnSrc is one source of a service-intentions entry.
type IxnSrc struct {
	Name     string
	Peer     string
	Action   structs.IntentionAction // "" when Perms is used
	Perms    []*structs.IntentionPermission
	LegacyID string
}

func (s IxnSrc) label() string {
	l := s.Name
	if s.Peer != "" {
		l += "~" + s.Peer
	}
	if len(s.Perms) > 0 {
		l += fmt.Sprintf(":L7x%d", len(s.Perms))
	} else {
		l += ":" + string(s.Action)
	}
	return l
}

func Intentions(dest string, srcs ...IxnSrc) CE {
	lab := "service-intentions/" + dest + "["
	for _, s := range srcs {
		lab += s.label() + " "
	}
	lab = strings.TrimSpace(lab) + "]"
	return CE{Label: lab, Make: func() structs.ConfigEntry {
		e := &structs.ServiceIntentionsConfigEntry{Kind: structs.ServiceIntentions, Name: dest}
		for _, s := range srcs {
			si := &structs.SourceIntention{Name: s.Name, Peer: s.Peer, Action: s.Action, LegacyID: s.LegacyID}
			for _, p := range s.Perms {
				si.Permissions = append(si.Permissions, p.Clone())
			}
			e.Sources = append(e.Sources, si)
		}
		return e
	}}
}

func sortStrings(s []string) {
	for i := 1; i < len(s); i++ {
		for j := i; j > 0 && s[j] < s[j-1]; j-- {
			s[j], s[j-1] = s[j-1], s[j]
		}
	}
}
