package cmdlib

import (
	"github.com/hashicorp/consul/agent/structs"
	"github.com/hashicorp/consul/internal/verifmc/world"
)

var QueryIDs = map[string]string{
	"q1": "99999999-9999-9999-9999-999999999991",
	"q2": "99999999-9999-9999-9999-999999999992",
}

// PQSet creates/updates a prepared query; sess is a logical session name or "".
func PQSet(id, name, sess, service string) world.Op {
	return world.Op{Name: "pq.set(" + id + "," + name + ",sess=" + sess + "," + service + ")", Kind: "pq/set", Build: func(w *world.World) (structs.MessageType, any, bool) {
		q := &structs.PreparedQuery{ID: QueryIDs[id], Name: name, Service: structs.ServiceQuery{Service: service}}
		if sess != "" {
			q.Session = SessionIDs[sess]
		}
		return structs.PreparedQueryRequestType, &structs.PreparedQueryRequest{Datacenter: DC, Op: structs.PreparedQueryCreate, Query: q}, true
	}}
}

func PQDelete(id string) world.Op {
	return world.Op{Name: "pq.delete(" + id + ")", Kind: "pq/delete", Build: func(w *world.World) (structs.MessageType, any, bool) {
		return structs.PreparedQueryRequestType, &structs.PreparedQueryRequest{Datacenter: DC, Op: structs.PreparedQueryDelete, Query: &structs.PreparedQuery{ID: QueryIDs[id]}}, true
	}}
}
