// Package cmdlib is the command alphabet library: one builder per FSM command type with tiny,
// colliding argument domains. Builders return world.Op values whose Build is state-relative.
package cmdlib

import (
	"fmt"
	"github.com/hashicorp/consul/types"
	"time"

	"github.com/hashicorp/consul/agent/structs"
	"github.com/hashicorp/consul/api"
	"github.com/hashicorp/consul/internal/verifmc/world"
)

const DC = "dc1"

// IdxClass selects how a caller-supplied raft index relates to the current one.
type IdxClass int

const (
	IdxZero IdxClass = iota
	IdxCurrent
	IdxStale
	IdxFuture
)

func (c IdxClass) String() string { return [...]string{"0", "cur", "stale", "future"}[c] }

var AllIdx = []IdxClass{IdxZero, IdxCurrent, IdxStale, IdxFuture}

// PickIdx returns the index argument for class c given the entity's current modify index
// (0 = entity absent). ok=false when the class does not exist in this state (e.g. "current" of an
// absent entity is the same request as "zero").
func PickIdx(w *world.World, c IdxClass, cur uint64) (uint64, bool) {
	return PickIdxN(w.Next, c, cur)
}

// PickIdxN is PickIdx with the next log index given explicitly (used by reference models).
func PickIdxN(next uint64, c IdxClass, cur uint64) (uint64, bool) {
	switch c {
	case IdxZero:
		return 0, true
	case IdxCurrent:
		return cur, cur != 0
	case IdxStale:
		if cur > 1 {
			return cur - 1, true
		}
		return next - 1, cur == 0 // absent entity: any non-zero index that is not in the future
	default:
		return next + 100, true
	}
}

// Session IDs must be UUIDs (the kvs "session" index is a UUID index).
var SessionIDs = map[string]string{
	"s1": "11111111-1111-1111-1111-111111111111",
	"s2": "22222222-2222-2222-2222-222222222222",
	"s3": "33333333-3333-3333-3333-333333333333",
	"s4": "44444444-4444-4444-4444-444444444444",
	"s5": "55555555-5555-5555-5555-555555555555",
	"s6": "66666666-6666-6666-6666-666666666666",
	"s9": "99999999-9999-9999-9999-999999999999", // never created by the C03/C04 alphabets
}

func kvCur(w *world.World, key string) uint64 {
	_, e, err := w.Store().KVSGet(nil, key, nil)
	if err != nil || e == nil {
		return 0
	}
	return e.ModifyIndex
}

// KVReq builds the KVSRequest for a verb; used both directly and by the txn wrapper.
type KVSpec struct {
	Verb   api.KVOp
	Key    string
	Val    string
	Flags  uint64
	Sess   string // logical session name (s1/s2) or ""
	Idx    IdxClass
	UseIdx bool
}

func (k KVSpec) Name() string {
	n := fmt.Sprintf("kv.%s(%q", k.Verb, k.Key)
	switch k.Verb {
	case api.KVSet, api.KVCAS, api.KVLock, api.KVUnlock:
		n += fmt.Sprintf(",%s,f%d", k.Val, k.Flags)
	}
	if k.Sess != "" {
		n += "," + k.Sess
	}
	if k.UseIdx {
		n += ",idx=" + k.Idx.String()
	}
	return n + ")"
}

func (k KVSpec) dirEnt(w *world.World) (structs.DirEntry, bool) {
	d := structs.DirEntry{Key: k.Key, Flags: k.Flags}
	if k.Val != "" {
		d.Value = []byte(k.Val)
	}
	if k.Sess != "" {
		d.Session = SessionIDs[k.Sess]
	}
	if k.UseIdx {
		i, ok := PickIdx(w, k.Idx, kvCur(w, k.Key))
		if !ok {
			return d, false
		}
		d.ModifyIndex = i
	}
	return d, true
}

func (k KVSpec) Op() world.Op {
	return world.Op{Name: k.Name(), Kind: "kv/" + string(k.Verb), Build: func(w *world.World) (structs.MessageType, any, bool) {
		d, ok := k.dirEnt(w)
		if !ok {
			return 0, nil, false
		}
		return structs.KVSRequestType, &structs.KVSRequest{Datacenter: DC, Op: k.Verb, DirEnt: d}, true
	}}
}

// TxnOp returns the builder of the structs.TxnOp for this KV verb.
func (k KVSpec) TxnOp() TxnPart {
	return TxnPart{Name: k.Name(), Kind: "kv/" + string(k.Verb), Build: func(w *world.World) (*structs.TxnOp, bool) {
		d, ok := k.dirEnt(w)
		if !ok {
			return nil, false
		}
		return &structs.TxnOp{KV: &structs.TxnKVOp{Verb: k.Verb, DirEnt: d}}, true
	}}
}

// TxnPart is one operation of a transaction under construction.
type TxnPart struct {
	Name  string
	Kind  string
	Build func(w *world.World) (*structs.TxnOp, bool)
}

// Txn wraps parts into one TxnRequest command. Index classes of later parts are resolved against
// the pre-state (as a client would do).
func Txn(parts ...TxnPart) world.Op {
	name := "txn["
	kind := "txn/"
	for i, p := range parts {
		if i > 0 {
			name += "; "
			kind += "+"
		}
		name += p.Name
		kind += p.Kind
	}
	name += "]"
	return world.Op{Name: name, Kind: kind, Build: func(w *world.World) (structs.MessageType, any, bool) {
		req := &structs.TxnRequest{Datacenter: DC}
		for _, p := range parts {
			o, ok := p.Build(w)
			if !ok {
				return 0, nil, false
			}
			req.Ops = append(req.Ops, o)
		}
		return structs.TxnRequestType, req, true
	}}
}

// KVAlphabet: the C03 alphabet over the given keys.
func KVSpecs(keys []string, prefixes []string, sessions []string, vals []string, flags []uint64, full bool) []KVSpec {
	var out []KVSpec
	for _, k := range keys {
		for _, v := range vals {
			for _, f := range flags {
				out = append(out, KVSpec{Verb: api.KVSet, Key: k, Val: v, Flags: f})
			}
		}
		for _, c := range AllIdx {
			out = append(out, KVSpec{Verb: api.KVCAS, Key: k, Val: vals[len(vals)-1], Flags: flags[0], Idx: c, UseIdx: true})
			out = append(out, KVSpec{Verb: api.KVDeleteCAS, Key: k, Idx: c, UseIdx: true})
		}
		out = append(out, KVSpec{Verb: api.KVDelete, Key: k})
		for _, s := range sessions {
			out = append(out, KVSpec{Verb: api.KVLock, Key: k, Val: vals[0], Flags: flags[0], Sess: s})
			out = append(out, KVSpec{Verb: api.KVUnlock, Key: k, Val: vals[0], Flags: flags[0], Sess: s})
			if full {
				out = append(out, KVSpec{Verb: api.KVLock, Key: k, Val: vals[len(vals)-1], Flags: flags[len(flags)-1], Sess: s})
				out = append(out, KVSpec{Verb: api.KVUnlock, Key: k, Val: vals[len(vals)-1], Flags: flags[len(flags)-1], Sess: s})
			}
		}
	}
	for _, p := range prefixes {
		out = append(out, KVSpec{Verb: api.KVDeleteTree, Key: p})
	}
	return out
}

// ---- sessions --------------------------------------------------------------------------------

type SessionSpec struct {
	Name       string // logical name s1/s2
	Node       string
	Behavior   structs.SessionBehavior
	NodeChecks []string
	// LegacyChecks fills the deprecated Session.Checks list (older clients; the HTTP API adds NodeChecks next to it)
	LegacyChecks []string
	SessName     string // Session.Name (binds session-type checks)
	TTL          string
	LockDelay    int64
}

func (s SessionSpec) Create() world.Op {
	n := fmt.Sprintf("session.create(%s@%s,%s,checks=%v)", s.Name, s.Node, s.Behavior, s.NodeChecks)
	if len(s.LegacyChecks) > 0 {
		n = fmt.Sprintf("session.create(%s@%s,%s,checks=%v,legacy-checks=%v)", s.Name, s.Node, s.Behavior, s.NodeChecks, s.LegacyChecks)
	}
	if s.LockDelay != 0 {
		n = fmt.Sprintf("session.create(%s@%s,%s,checks=%v,lock-delay=%ds)", s.Name, s.Node, s.Behavior, s.NodeChecks, s.LockDelay)
	}
	return world.Op{Name: n, Kind: "session/create", Build: func(w *world.World) (structs.MessageType, any, bool) {
		// the endpoint never re-uses a live ID; mirror that
		if _, sess, _ := w.Store().SessionGet(nil, SessionIDs[s.Name], nil); sess != nil {
			return 0, nil, false
		}
		return structs.SessionRequestType, &structs.SessionRequest{Datacenter: DC, Op: structs.SessionCreate,
			Session: structs.Session{ID: SessionIDs[s.Name], Name: s.SessName, Node: s.Node, Behavior: s.Behavior,
				NodeChecks: s.NodeChecks, Checks: toCheckIDs(s.LegacyChecks), TTL: s.TTL, LockDelay: time.Duration(s.LockDelay) * time.Second}}, true
	}}
}

func SessionDestroy(name string) world.Op {
	return world.Op{Name: "session.destroy(" + name + ")", Kind: "session/destroy", Build: func(w *world.World) (structs.MessageType, any, bool) {
		return structs.SessionRequestType, &structs.SessionRequest{Datacenter: DC, Op: structs.SessionDestroy,
			Session: structs.Session{ID: SessionIDs[name]}}, true
	}}
}

func TxnSessionDelete(name string) TxnPart {
	return TxnPart{Name: "session.delete(" + name + ")", Kind: "session-delete", Build: func(w *world.World) (*structs.TxnOp, bool) {
		return &structs.TxnOp{Session: &structs.TxnSessionOp{Verb: api.SessionDelete, Session: structs.Session{ID: SessionIDs[name]}}}, true
	}}
}

func TombstoneReap(c IdxClass) world.Op {
	return world.Op{Name: "tombstone.reap(" + c.String() + ")", Kind: "tombstone/reap", Build: func(w *world.World) (structs.MessageType, any, bool) {
		var idx uint64
		switch c {
		case IdxZero:
			idx = 0
		case IdxCurrent:
			idx = w.Next - 1
		case IdxStale:
			idx = (world.StartIndex + w.Next) / 2
		default:
			idx = w.Next + 100
		}
		return structs.TombstoneRequestType, &structs.TombstoneRequest{Datacenter: DC, Op: structs.TombstoneReap, ReapIndex: idx}, true
	}}
}

func toCheckIDs(ids []string) []types.CheckID {
	var out []types.CheckID
	for _, i := range ids {
		out = append(out, types.CheckID(i))
	}
	return out
}
