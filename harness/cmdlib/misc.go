package cmdlib

import (
	"fmt"
	"time"

	"github.com/hashicorp/serf/coordinate"

	"github.com/hashicorp/consul/agent/consul/state"
	"github.com/hashicorp/consul/agent/structs"
	"github.com/hashicorp/consul/internal/verifmc/world"
)

// ---- Connect CA --------------------------------------------------------------------------------

func caRootsIdx(w *world.World) uint64 {
	i, _, _ := w.Store().CARoots(nil)
	return i
}
func caConfigIdx(w *world.World) uint64 {
	_, c, _ := w.Store().CAConfig(nil)
	if c == nil {
		return 0
	}
	return c.ModifyIndex
}

// RootSpec: id + active flag
type RootSpec struct {
	ID     string
	Active bool
}

func mkRoots(rs []RootSpec) []*structs.CARoot {
	var out []*structs.CARoot
	for _, r := range rs {
		out = append(out, &structs.CARoot{ID: r.ID, Name: "root " + r.ID, RootCert: "CERT-" + r.ID, Active: r.Active,
			SigningKeyID: "key-" + r.ID, NotBefore: time.Unix(1700000000, 0).UTC(), NotAfter: time.Unix(1900000000, 0).UTC()})
	}
	return out
}

func rootsLabel(rs []RootSpec) string {
	l := "["
	for i, r := range rs {
		if i > 0 {
			l += " "
		}
		l += r.ID
		if r.Active {
			l += "*"
		}
	}
	return l + "]"
}

func mkCAConfig(tag string) *structs.CAConfiguration {
	return &structs.CAConfiguration{ClusterID: "11111111-2222-3333-4444-555555555555", Provider: "consul",
		Config: map[string]interface{}{"LeafCertTTL": tag}}
}

func CASetRoots(rs []RootSpec, c IdxClass) world.Op {
	return world.Op{Name: "ca.set-roots(" + rootsLabel(rs) + ",idx=" + c.String() + ")", Kind: "ca/set-roots", Build: func(w *world.World) (structs.MessageType, any, bool) {
		i, ok := PickIdx(w, c, caRootsIdx(w))
		if !ok {
			return 0, nil, false
		}
		return structs.ConnectCARequestType, &structs.CARequest{Op: structs.CAOpSetRoots, Datacenter: DC, Index: i, Roots: mkRoots(rs)}, true
	}}
}

// CASetConfig: with c==IdxZero and plain=true this is the unconditional form (ModifyIndex 0).
func CASetConfig(tag string, c IdxClass) world.Op {
	return world.Op{Name: "ca.set-config(" + tag + ",idx=" + c.String() + ")", Kind: "ca/set-config", Build: func(w *world.World) (structs.MessageType, any, bool) {
		i, ok := PickIdx(w, c, caConfigIdx(w))
		if !ok {
			return 0, nil, false
		}
		cfg := mkCAConfig(tag)
		cfg.ModifyIndex = i
		return structs.ConnectCARequestType, &structs.CARequest{Op: structs.CAOpSetConfig, Datacenter: DC, Config: cfg}, true
	}}
}

func CASetRootsAndConfig(rs []RootSpec, rc IdxClass, tag string, cc IdxClass) world.Op {
	return world.Op{Name: "ca.set-roots-config(" + rootsLabel(rs) + ",ridx=" + rc.String() + "," + tag + ",cidx=" + cc.String() + ")", Kind: "ca/set-roots-config",
		Build: func(w *world.World) (structs.MessageType, any, bool) {
			ri, ok := PickIdx(w, rc, caRootsIdx(w))
			if !ok {
				return 0, nil, false
			}
			ci, ok := PickIdx(w, cc, caConfigIdx(w))
			if !ok {
				return 0, nil, false
			}
			cfg := mkCAConfig(tag)
			cfg.ModifyIndex = ci
			return structs.ConnectCARequestType, &structs.CARequest{Op: structs.CAOpSetRootsAndConfig, Datacenter: DC, Index: ri, Roots: mkRoots(rs), Config: cfg}, true
		}}
}

func CAProviderState(id string, del bool) world.Op {
	op := structs.CAOpSetProviderState
	n := "ca.set-provider-state(" + id + ")"
	if del {
		op = structs.CAOpDeleteProviderState
		n = "ca.delete-provider-state(" + id + ")"
	}
	return world.Op{Name: n, Kind: "ca/" + string(op), Build: func(w *world.World) (structs.MessageType, any, bool) {
		return structs.ConnectCARequestType, &structs.CARequest{Op: op, Datacenter: DC,
			ProviderState: &structs.CAConsulProviderState{ID: id, PrivateKey: "KEY-" + id, RootCert: "CERT-" + id}}, true
	}}
}

func CAIncrementSerial() world.Op {
	return world.Op{Name: "ca.increment-serial()", Kind: "ca/increment-serial", Build: func(w *world.World) (structs.MessageType, any, bool) {
		return structs.ConnectCARequestType, &structs.CARequest{Op: structs.CAOpIncrementProviderSerialNumber, Datacenter: DC}, true
	}}
}

func CALeafIncrement() world.Op {
	return world.Op{Name: "ca-leaf.increment()", Kind: "ca-leaf/increment", Build: func(w *world.World) (structs.MessageType, any, bool) {
		return structs.ConnectCALeafRequestType, &structs.CALeafRequest{Op: structs.CALeafOpIncrementIndex, Datacenter: DC}, true
	}}
}

// ---- autopilot ---------------------------------------------------------------------------------

func autopilotIdx(w *world.World) uint64 {
	_, c, _ := w.Store().AutopilotConfig()
	if c == nil {
		return 0
	}
	return c.ModifyIndex
}

func Autopilot(maxTrailing uint64, cas bool, c IdxClass) world.Op {
	n := fmt.Sprintf("autopilot.set(%d", maxTrailing)
	if cas {
		n += ",cas idx=" + c.String()
	}
	n += ")"
	return world.Op{Name: n, Kind: "autopilot/set", Build: func(w *world.World) (structs.MessageType, any, bool) {
		cfg := structs.AutopilotConfig{CleanupDeadServers: true, MaxTrailingLogs: maxTrailing, LastContactThreshold: 200 * time.Millisecond}
		if cas {
			i, ok := PickIdx(w, c, autopilotIdx(w))
			if !ok {
				return 0, nil, false
			}
			cfg.ModifyIndex = i
		}
		return structs.AutopilotRequestType, &structs.AutopilotSetConfigRequest{Datacenter: DC, Config: cfg, CAS: cas}, true
	}}
}

// ---- feature gates -----------------------------------------------------------------------------

func fgIdx(w *world.World) (p, s uint64) {
	_, pol, st, _ := w.Store().FeatureGatePolicyAndStatus(nil)
	if pol != nil {
		p = pol.ModifyIndex
	}
	if st != nil {
		s = st.ModifyIndex
	}
	return
}

func FeatureGate(tag string, withPolicy bool, pc, sc IdxClass) world.Op {
	return world.Op{Name: fmt.Sprintf("feature-gate.update(%s,policy=%v,pidx=%s,sidx=%s)", tag, withPolicy, pc, sc), Kind: "feature-gate/update",
		Build: func(w *world.World) (structs.MessageType, any, bool) {
			pi, si := fgIdx(w)
			p, ok := PickIdx(w, pc, pi)
			if !ok {
				return 0, nil, false
			}
			s, ok := PickIdx(w, sc, si)
			if !ok {
				return 0, nil, false
			}
			req := &structs.FeatureGateUpdateRequest{ExpectedPolicyIndex: p, ExpectedStatusIndex: s,
				Status: &structs.FeatureGateStatus{RegistryDigest: "digest-" + tag, Features: map[string]structs.ResolvedFeatureGate{
					"f1": {DesiredEnabled: tag == "on", EffectiveEnabled: tag == "on", Eligible: true, Source: "operator", Reason: structs.FeatureGateReasonOperatorEnabled}}}}
			if withPolicy {
				req.Policy = &structs.FeatureGatePolicy{Settings: map[string]structs.FeatureGateSetting{"f1": {Enabled: tag == "on", Source: structs.FeatureGateSourceOperator}}}
			}
			return structs.FeatureGateRequestType, req, true
		}}
}

// ---- coordinates, federation states, system metadata, manual VIPs -----------------------------

func CoordinateUpdate(node string, x float64) world.Op {
	return world.Op{Name: fmt.Sprintf("coordinate.update(%s,%g)", node, x), Kind: "coordinate/batch", Build: func(w *world.World) (structs.MessageType, any, bool) {
		c := coordinate.NewCoordinate(coordinate.DefaultConfig())
		c.Vec[0] = x
		return structs.CoordinateBatchUpdateType, structs.Coordinates{{Node: node, Coord: c}}, true
	}}
}

// CoordinateBatch is one batch update naming several nodes (possibly the same node more than once).
func CoordinateBatch(nodes []string, xs []float64) world.Op {
	return world.Op{Name: fmt.Sprintf("coordinate.batch(%v,%v)", nodes, xs), Kind: "coordinate/batch", Build: func(w *world.World) (structs.MessageType, any, bool) {
		var cs structs.Coordinates
		for i, n := range nodes {
			c := coordinate.NewCoordinate(coordinate.DefaultConfig())
			c.Vec[0] = xs[i]
			cs = append(cs, &structs.Coordinate{Node: n, Coord: c})
		}
		return structs.CoordinateBatchUpdateType, cs, true
	}}
}

func FederationState(dc string, primaryIdx uint64, del bool) world.Op {
	n := fmt.Sprintf("fedstate.upsert(%s,%d)", dc, primaryIdx)
	op := structs.FederationStateUpsert
	if del {
		n = "fedstate.delete(" + dc + ")"
		op = structs.FederationStateDelete
	}
	return world.Op{Name: n, Kind: "fedstate/" + string(op), Build: func(w *world.World) (structs.MessageType, any, bool) {
		return structs.FederationStateRequestType, &structs.FederationStateRequest{Datacenter: DC, Op: op,
			State: &structs.FederationState{Datacenter: dc, PrimaryModifyIndex: primaryIdx, UpdatedAt: time.Unix(1700000000, 0).UTC()}}, true
	}}
}

func SysMeta(key, val string, del bool) world.Op {
	n := "sysmeta.set(" + key + "=" + val + ")"
	op := structs.SystemMetadataUpsert
	if del {
		n = "sysmeta.delete(" + key + ")"
		op = structs.SystemMetadataDelete
	}
	return world.Op{Name: n, Kind: "sysmeta/" + string(op), Build: func(w *world.World) (structs.MessageType, any, bool) {
		return structs.SystemMetadataRequestType, &structs.SystemMetadataRequest{Datacenter: DC, Op: op, Entry: &structs.SystemMetadataEntry{Key: key, Value: val}}, true
	}}
}

// EnableVIPs / intention format switches
func EnableVIPs() world.Op { return SysMeta(structs.SystemMetadataVirtualIPsEnabled, "true", false) }
func EnableTermGWVIPs() world.Op {
	return SysMeta(structs.SystemMetadataTermGatewayVirtualIPsEnabled, "true", false)
}
func IntentionsInConfigEntries() world.Op {
	return SysMeta(structs.SystemMetadataIntentionFormatKey, structs.SystemMetadataIntentionFormatConfigValue, false)
}

func ManualVIPs(service string, ips ...string) world.Op {
	return world.Op{Name: fmt.Sprintf("manual-vips(%s,%v)", service, ips), Kind: "manual-vips", Build: func(w *world.World) (structs.MessageType, any, bool) {
		return structs.UpdateVirtualIPRequestType, state.ServiceVirtualIP{
			Service:   structs.PeeredServiceName{ServiceName: structs.NewServiceName(service, nil)},
			ManualIPs: append([]string{}, ips...)}, true
	}}
}

// ---- legacy intentions --------------------------------------------------------------------------

var IxnIDs = map[string]string{
	"i1": "77777777-7777-7777-7777-777777777771",
	"i2": "77777777-7777-7777-7777-777777777772",
	"i3": "77777777-7777-7777-7777-777777777773",
	"i4": "77777777-7777-7777-7777-777777777774",
}

func mkLegacyIxn(id, src, dst string, action structs.IntentionAction) *structs.Intention {
	ixn := &structs.Intention{ID: IxnIDs[id], SourceNS: "default", SourceName: src, DestinationNS: "default", DestinationName: dst,
		SourceType: structs.IntentionSourceConsul, Action: action,
		CreatedAt: time.Unix(1700000000, 0).UTC(), UpdatedAt: time.Unix(1700000000, 0).UTC()}
	//nolint:staticcheck
	ixn.UpdatePrecedence()
	//nolint:staticcheck
	ixn.SetHash()
	return ixn
}

func LegacyIxnSet(id, src, dst string, action structs.IntentionAction, update bool) world.Op {
	op := structs.IntentionOpCreate
	if update {
		op = structs.IntentionOpUpdate
	}
	return world.Op{Name: fmt.Sprintf("ixn.legacy-%s(%s,%s->%s,%s)", op, id, src, dst, action), Kind: "ixn/legacy-" + string(op), Build: func(w *world.World) (structs.MessageType, any, bool) {
		return structs.IntentionRequestType, &structs.IntentionRequest{Datacenter: DC, Op: op, Intention: mkLegacyIxn(id, src, dst, action)}, true
	}}
}

func LegacyIxnDelete(id string) world.Op {
	return world.Op{Name: "ixn.legacy-delete(" + id + ")", Kind: "ixn/legacy-delete", Build: func(w *world.World) (structs.MessageType, any, bool) {
		return structs.IntentionRequestType, &structs.IntentionRequest{Datacenter: DC, Op: structs.IntentionOpDelete, Intention: &structs.Intention{ID: IxnIDs[id]}}, true
	}}
}

func LegacyIxnDeleteAll() world.Op {
	return world.Op{Name: "ixn.legacy-delete-all()", Kind: "ixn/legacy-delete-all", Build: func(w *world.World) (structs.MessageType, any, bool) {
		return structs.IntentionRequestType, &structs.IntentionRequest{Datacenter: DC, Op: structs.IntentionOpDeleteAll}, true
	}}
}

// IxnMutationUpsert / Delete: config-entry backed intention mutations (what the intention endpoint
// appends once intentions live in config entries).
func IxnMutationUpsert(src, dst string, action structs.IntentionAction) world.Op {
	return world.Op{Name: fmt.Sprintf("ixn.mut-upsert(%s->%s,%s)", src, dst, action), Kind: "ixn/mut-upsert", Build: func(w *world.World) (structs.MessageType, any, bool) {
		return structs.IntentionRequestType, &structs.IntentionRequest{Datacenter: DC, Op: structs.IntentionOpUpsert,
			Mutation: &structs.IntentionMutation{Destination: structs.NewServiceName(dst, nil), Source: structs.NewServiceName(src, nil),
				Value: &structs.SourceIntention{Name: src, Action: action, Type: structs.IntentionSourceConsul, EnterpriseMeta: *structs.DefaultEnterpriseMetaInDefaultPartition()}}}, true
	}}
}

func IxnMutationDelete(src, dst string) world.Op {
	return world.Op{Name: fmt.Sprintf("ixn.mut-delete(%s->%s)", src, dst), Kind: "ixn/mut-delete", Build: func(w *world.World) (structs.MessageType, any, bool) {
		return structs.IntentionRequestType, &structs.IntentionRequest{Datacenter: DC, Op: structs.IntentionOpDelete,
			Mutation: &structs.IntentionMutation{Destination: structs.NewServiceName(dst, nil), Source: structs.NewServiceName(src, nil)}}, true
	}}
}

// IxnMutationLegacyCreate: create through the legacy API while in config-entry mode (carries a LegacyID).
func IxnMutationLegacyCreate(id, src, dst string, action structs.IntentionAction) world.Op {
	return world.Op{Name: fmt.Sprintf("ixn.mut-legacy-create(%s,%s->%s,%s)", id, src, dst, action), Kind: "ixn/mut-legacy-create", Build: func(w *world.World) (structs.MessageType, any, bool) {
		t := time.Unix(1700000000, 0).UTC()
		return structs.IntentionRequestType, &structs.IntentionRequest{Datacenter: DC, Op: structs.IntentionOpCreate,
			Mutation: &structs.IntentionMutation{ID: IxnIDs[id], Destination: structs.NewServiceName(dst, nil), Source: structs.NewServiceName(src, nil),
				Value: &structs.SourceIntention{Name: src, Action: action, Type: structs.IntentionSourceConsul, LegacyID: IxnIDs[id],
					LegacyCreateTime: &t, LegacyUpdateTime: &t, LegacyMeta: map[string]string{}, EnterpriseMeta: *structs.DefaultEnterpriseMetaInDefaultPartition()}}}, true
	}}
}

// Deprecated ACL request type: always an error result, still a log entry replicas must agree on.
func DeprecatedACL() world.Op {
	return world.Op{Name: "deprecated-acl()", Kind: "deprecated-acl", Build: func(w *world.World) (structs.MessageType, any, bool) {
		return structs.DeprecatedACLRequestType, map[string]string{"Op": "set"}, true
	}}
}
