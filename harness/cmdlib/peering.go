package cmdlib

import (
	"fmt"
	"time"

	"github.com/hashicorp/consul/agent/structs"
	"github.com/hashicorp/consul/internal/verifmc/world"
	"github.com/hashicorp/consul/proto-public/pbresource"
	"github.com/hashicorp/consul/proto/private/pbpeering"
	"github.com/hashicorp/consul/proto/private/pbstorage"
)

var PeerIDs = map[string]string{
	"p1": "55555555-5555-5555-5555-555555555551",
	"p2": "55555555-5555-5555-5555-555555555552",
}

var peerEpoch = time.Unix(1700000000, 0).UTC()

// secretUUID maps a short logical secret name to a UUID (peering secrets are UUIDs; the
// peering-secret-uuids table has a UUID index).
func secretUUID(name string) string {
	if name == "" {
		return ""
	}
	h := uint32(2166136261)
	for i := 0; i < len(name); i++ {
		h = (h ^ uint32(name[i])) * 16777619
	}
	return fmt.Sprintf("5ec0e700-0000-4000-8000-%012x", uint64(h))
}

// PeeringWrite: state one of "", PENDING, ACTIVE, DELETING, TERMINATED; dial=true marks a dialer.
func PeeringWrite(name string, state pbpeering.PeeringState, dial bool, secret string) world.Op {
	n := fmt.Sprintf("peering.write(%s,%s,dial=%v,secret=%s)", name, state, dial, secret)
	return world.Op{Name: n, Kind: "peering/write", Build: func(w *world.World) (structs.MessageType, any, bool) {
		p := &pbpeering.Peering{ID: PeerIDs[name], Name: name, State: state, PeerID: "remote-" + name}
		if dial {
			p.PeerServerAddresses = []string{"10.9.9.9:8502"}
		}
		if state == pbpeering.PeeringState_DELETING {
			p.DeletedAt = structs.TimeToProto(peerEpoch)
		}
		req := &pbpeering.PeeringWriteRequest{Peering: p}
		if secret != "" {
			req.SecretsRequest = &pbpeering.SecretsWriteRequest{PeerID: PeerIDs[name],
				Request: &pbpeering.SecretsWriteRequest_GenerateToken{GenerateToken: &pbpeering.SecretsWriteRequest_GenerateTokenRequest{EstablishmentSecret: secretUUID(secret)}}}
		}
		return structs.PeeringWriteType, req, true
	}}
}

func PeeringDelete(name string) world.Op {
	return world.Op{Name: "peering.delete(" + name + ")", Kind: "peering/delete", Build: func(w *world.World) (structs.MessageType, any, bool) {
		return structs.PeeringDeleteType, &pbpeering.PeeringDeleteRequest{Name: name}, true
	}}
}

func PeeringTerminate(name string) world.Op {
	return world.Op{Name: "peering.terminate(" + name + ")", Kind: "peering/terminate", Build: func(w *world.World) (structs.MessageType, any, bool) {
		return structs.PeeringTerminateByIDType, &pbpeering.PeeringTerminateByIDRequest{ID: PeerIDs[name]}, true
	}}
}

func TrustBundleWrite(peer, domain string, roots ...string) world.Op {
	return world.Op{Name: fmt.Sprintf("peering.bundle-write(%s,%s,%v)", peer, domain, roots), Kind: "peering/bundle-write", Build: func(w *world.World) (structs.MessageType, any, bool) {
		return structs.PeeringTrustBundleWriteType, &pbpeering.PeeringTrustBundleWriteRequest{
			PeeringTrustBundle: &pbpeering.PeeringTrustBundle{TrustDomain: domain, PeerName: peer, RootPEMs: append([]string{}, roots...)}}, true
	}}
}

func TrustBundleDelete(peer string) world.Op {
	return world.Op{Name: "peering.bundle-delete(" + peer + ")", Kind: "peering/bundle-delete", Build: func(w *world.World) (structs.MessageType, any, bool) {
		return structs.PeeringTrustBundleDeleteType, &pbpeering.PeeringTrustBundleDeleteRequest{Name: peer}, true
	}}
}

// SecretsWrite: kind in {exchange, promote, establish}
func SecretsWrite(peer, kind, a, b string) world.Op {
	return world.Op{Name: fmt.Sprintf("peering.secrets(%s,%s,%s,%s)", peer, kind, a, b), Kind: "peering/secrets-" + kind, Build: func(w *world.World) (structs.MessageType, any, bool) {
		req := &pbpeering.SecretsWriteRequest{PeerID: PeerIDs[peer]}
		a, b := secretUUID(a), secretUUID(b)
		switch kind {
		case "generate":
			req.Request = &pbpeering.SecretsWriteRequest_GenerateToken{GenerateToken: &pbpeering.SecretsWriteRequest_GenerateTokenRequest{EstablishmentSecret: a}}
		case "exchange":
			req.Request = &pbpeering.SecretsWriteRequest_ExchangeSecret{ExchangeSecret: &pbpeering.SecretsWriteRequest_ExchangeSecretRequest{EstablishmentSecret: a, PendingStreamSecret: b}}
		case "promote":
			req.Request = &pbpeering.SecretsWriteRequest_PromotePending{PromotePending: &pbpeering.SecretsWriteRequest_PromotePendingRequest{ActiveStreamSecret: a}}
		case "establish":
			req.Request = &pbpeering.SecretsWriteRequest_Establish{Establish: &pbpeering.SecretsWriteRequest_EstablishRequest{ActiveStreamSecret: a}}
		}
		return structs.PeeringSecretsWriteType, req, true
	}}
}

// ---- resources (storage/raft backend) -----------------------------------------------------------

var ResType = &pbresource.Type{Group: "demo", GroupVersion: "v2", Kind: "Artist"}

func ResID(name, uid string) *pbresource.ID {
	return &pbresource.ID{Type: ResType, Tenancy: &pbresource.Tenancy{Partition: "default", Namespace: "default"}, Name: name, Uid: uid}
}

func resCurVersion(w *world.World, name string) (string, string) {
	r, err := w.Backend.VerifStore().Read(ResID(name, ""))
	if err != nil || r == nil {
		return "", ""
	}
	return r.Version, r.Id.Uid
}

// ResourceWrite: vc selects the presented version: zero = "", current, stale ("1"), future ("999999").
func ResourceWrite(name, uid, data string, vc IdxClass) world.Op {
	return world.Op{Name: fmt.Sprintf("resource.write(%s,uid=%s,%s,vsn=%s)", name, uid, data, vc), Kind: "resource/write", Build: func(w *world.World) (structs.MessageType, any, bool) {
		cur, _ := resCurVersion(w, name)
		vsn := ""
		switch vc {
		case IdxCurrent:
			if cur == "" {
				return 0, nil, false
			}
			vsn = cur
		case IdxStale:
			vsn = "1"
		case IdxFuture:
			vsn = "999999"
		}
		res := &pbresource.Resource{Id: ResID(name, uid), Version: vsn, Metadata: map[string]string{"d": data}}
		log := &pbstorage.Log{Type: pbstorage.LogType_LOG_TYPE_WRITE, Request: &pbstorage.Log_Write{Write: &pbstorage.WriteRequest{Resource: res}}}
		b, err := log.MarshalBinary()
		if err != nil {
			panic(err)
		}
		return structs.ResourceOperationType, world.RawLog(b), true
	}}
}

func ResourceDelete(name, uid string, vc IdxClass) world.Op {
	return world.Op{Name: fmt.Sprintf("resource.delete(%s,uid=%s,vsn=%s)", name, uid, vc), Kind: "resource/delete", Build: func(w *world.World) (structs.MessageType, any, bool) {
		cur, _ := resCurVersion(w, name)
		vsn := ""
		switch vc {
		case IdxCurrent:
			if cur == "" {
				return 0, nil, false
			}
			vsn = cur
		case IdxStale:
			vsn = "1"
		case IdxFuture:
			vsn = "999999"
		}
		log := &pbstorage.Log{Type: pbstorage.LogType_LOG_TYPE_DELETE, Request: &pbstorage.Log_Delete{Delete: &pbstorage.DeleteRequest{Id: ResID(name, uid), Version: vsn}}}
		b, err := log.MarshalBinary()
		if err != nil {
			panic(err)
		}
		return structs.ResourceOperationType, world.RawLog(b), true
	}}
}
