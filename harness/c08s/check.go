// Package c08s: the server-level part of C08. Tokens are resolved by a Server value through its own
// resolver backend (state store reads, link fix-ups) and caches, after every step of every short
// history of policy renames / deletions / rule changes (as raft commands and through the ACL.PolicySet
// RPC endpoint with the object a client read earlier). The decision vector of every token must equal
// the one computed from the raw token and policy rows: a pure function of the token's own policies.
package c08s

import (
	"fmt"
	"strings"

	"github.com/hashicorp/consul/acl"
	"github.com/hashicorp/consul/agent/consul"
	"github.com/hashicorp/consul/agent/structs"
	"github.com/hashicorp/consul/internal/verifmc/cmdlib"
	"github.com/hashicorp/consul/internal/verifmc/ev"
	"github.com/hashicorp/consul/internal/verifmc/world"
)

var rules = map[string]string{
	"p1": `node_prefix "" { policy = "read" }`,
	"p2": `key_prefix "" { policy = "write" }`,
	"p3": `service_prefix "" { policy = "write" }`,
}

var altRules = map[string]string{
	"p1": `node_prefix "" { policy = "deny" }`,
	"p2": `key_prefix "" { policy = "deny" }`,
	"p3": `service_prefix "" { policy = "read" }`,
}

const mgmtSecret = "dddddddd-0000-0000-0000-0000000000aa"

func vectorOf(a acl.Authorizer) string {
	if a == nil {
		return "no-authorizer"
	}
	q := []acl.EnforcementDecision{a.NodeRead("n1", nil), a.NodeWrite("n1", nil), a.KeyRead("a/b", nil), a.KeyWrite("a/b", nil),
		a.ServiceRead("web", nil), a.ServiceWrite("web", nil), a.OperatorRead(nil), a.ACLWrite(nil)}
	var out []string
	for _, d := range q {
		out = append(out, d.String())
	}
	return strings.Join(out, ",")
}

// reference: the raw rows, no link fix-up, no cache
func reference(w *world.World, secret string) string {
	st := w.Store()
	var tok *structs.ACLToken
	for _, r := range st.VerifTable("acl-tokens") {
		if t := r.(*structs.ACLToken); t.SecretID == secret {
			tok = t
		}
	}
	if tok == nil {
		return "not-found"
	}
	byID := map[string]*structs.ACLPolicy{}
	for _, r := range st.VerifTable("acl-policies") {
		p := r.(*structs.ACLPolicy)
		byID[p.ID] = p
	}
	var parsed []*acl.Policy
	for _, l := range tok.Policies {
		p := byID[l.ID]
		if p == nil {
			continue // a link to a deleted policy grants nothing
		}
		if p.ID == structs.ACLPolicyGlobalManagementID {
			return vectorOf(acl.ManageAll())
		}
		pp, err := acl.NewPolicyFromSource(p.Rules, nil, nil)
		if err != nil {
			return "unparsable:" + err.Error()
		}
		parsed = append(parsed, pp)
	}
	a, err := acl.NewPolicyAuthorizerWithDefaults(acl.DenyAll(), parsed, nil)
	if err != nil {
		return "error:" + err.Error()
	}
	return vectorOf(a)
}

type action struct {
	name string
	run  func(w *world.World, vs *consul.VerifServer, remembered map[string]*structs.ACLPolicy) error
}

func Run(c *ev.Ctx) {
	tokens := map[string][]string{"t1": {"p1", "p2"}, "t2": {"p2", "p1"}, "t3": {"p1", "p2", "p3"}}
	seed := []world.Op{}
	for _, p := range []string{"p1", "p2", "p3"} {
		seed = append(seed, cmdlib.PolicySet(p, "policy-"+p, rules[p]))
	}
	for _, t := range []string{"t1", "t2", "t3"} {
		seed = append(seed, cmdlib.TokenSet(cmdlib.TokenSpec{ID: t, Policies: tokens[t]}, false, 0, false))
	}
	var actions []action
	for _, p := range []string{"p1", "p2", "p3"} {
		p := p
		actions = append(actions,
			action{"rename " + p, func(w *world.World, _ *consul.VerifServer, _ map[string]*structs.ACLPolicy) error {
				_, cur, _ := w.Store().ACLPolicyGetByID(nil, cmdlib.PolicyIDs[p], nil)
				if cur == nil {
					return nil
				}
				w.Apply(cmdlib.PolicySet(p, cur.Name+"x", cur.Rules))
				return nil
			}},
			action{"delete " + p, func(w *world.World, _ *consul.VerifServer, _ map[string]*structs.ACLPolicy) error {
				w.Apply(cmdlib.PolicyDelete(p))
				return nil
			}},
			action{"new rules for " + p + " (raft command)", func(w *world.World, _ *consul.VerifServer, _ map[string]*structs.ACLPolicy) error {
				_, cur, _ := w.Store().ACLPolicyGetByID(nil, cmdlib.PolicyIDs[p], nil)
				if cur == nil {
					return nil
				}
				w.Apply(cmdlib.PolicySet(p, cur.Name, altRules[p]))
				return nil
			}},
			// a client's read-modify-write: the object it read earlier (with its Hash) goes back with other rules
			action{"read " + p + " (client keeps the object)", func(w *world.World, vs *consul.VerifServer, rem map[string]*structs.ACLPolicy) error {
				var rep structs.ACLPolicyResponse
				if err := vs.ACL().PolicyRead(&structs.ACLPolicyGetRequest{Datacenter: cmdlib.DC, PolicyID: cmdlib.PolicyIDs[p], QueryOptions: structs.QueryOptions{Token: mgmtSecret}}, &rep); err != nil {
					return err
				}
				if rep.Policy != nil {
					rem[p] = rep.Policy.Clone()
				}
				return nil
			}},
			action{"ACL.PolicySet(" + p + ") with the object read earlier and other rules", func(w *world.World, vs *consul.VerifServer, rem map[string]*structs.ACLPolicy) error {
				obj := rem[p]
				if obj == nil {
					return nil
				}
				if _, cur, _ := w.Store().ACLPolicyGetByID(nil, obj.ID, nil); cur == nil {
					return nil
				}
				up := obj.Clone()
				up.Rules = altRules[p]
				if obj.Rules == altRules[p] {
					up.Rules = rules[p]
				}
				var out structs.ACLPolicy
				return vs.ACL().PolicySet(&structs.ACLPolicySetRequest{Datacenter: cmdlib.DC, Policy: *up, WriteRequest: structs.WriteRequest{Token: mgmtSecret}}, &out)
			}},
		)
	}
	depth := 3
	if !c.Quick() {
		depth = 4
	}
	var runs, evals int64
	outcomes := map[string]bool{}
	var rec func(path []int)
	rec = func(path []int) {
		if c.Expired() {
			return
		}
		if len(path) > 0 {
			runs++
			w := world.New()
			w.ApplyAll(seed)
			// a management token for the endpoint calls
			mp := &structs.ACLPolicy{ID: structs.ACLPolicyGlobalManagementID, Name: "global-management", Rules: structs.ACLPolicyGlobalManagementRules}
			mp.SetHash(true)
			w.ApplyReq("seed", structs.ACLPolicySetRequestType, &structs.ACLPolicyBatchSetRequest{Policies: structs.ACLPolicies{mp}})
			mt := &structs.ACLToken{AccessorID: "cccccccc-0000-0000-0000-0000000000aa", SecretID: mgmtSecret, Policies: []structs.ACLTokenPolicyLink{{ID: structs.ACLPolicyGlobalManagementID}}}
			mt.SetHash(true)
			w.ApplyReq("seed", structs.ACLTokenSetRequestType, &structs.ACLTokenBatchSetRequest{Tokens: structs.ACLTokens{mt}})
			vs, err := consul.VerifNewServerACL(w.BoundFSM(), func(buf []byte) interface{} { return w.ApplyEncoded("rpc", buf) })
			if err != nil {
				c.HarnessError("server: " + err.Error())
				return
			}
			defer vs.Close()
			rem := map[string]*structs.ACLPolicy{}
			var hist []string
			check := func() bool {
				for _, t := range []string{"t1", "t2", "t3"} {
					res, err := vs.Srv.ResolveToken(cmdlib.TokenSecrets[t])
					got := ""
					if err != nil {
						got = "error:" + err.Error()
					} else {
						got = vectorOf(res.Authorizer)
					}
					want := reference(w, cmdlib.TokenSecrets[t])
					evals++
					outcomes[want] = true
					if got != want {
						c.Violate("C08:server-decision-differs-from-the-token's-own-policies:last="+strings.SplitN(hist[len(hist)-1], " ", 2)[0],
							fmt.Sprintf("token %s (policies %v): the server decides %s; its policy rows give %s\nhistory: %s", t, tokens[t], got, want, strings.Join(hist, " ; ")),
							map[string]any{"history": hist, "token": t})
						return false
					}
				}
				return true
			}
			hist = append(hist, "resolve-all")
			if !check() { // warms every cache
				return
			}
			for _, i := range path {
				hist = append(hist, actions[i].name)
				if err := actions[i].run(w, vs, rem); err != nil {
					c.Violate("C08:endpoint-call-fails", fmt.Sprintf("%s: %v\nhistory: %s", actions[i].name, err, strings.Join(hist, " ; ")), map[string]any{"history": hist})
					return
				}
				if !check() {
					return
				}
			}
		}
		if len(path) == depth || c.NumViolations() > 10 {
			return
		}
		for i := range actions {
			if c.Quick() && len(path) == depth-1 && i%5 == 3 {
				continue // a read as the last step changes nothing
			}
			rec(append(append([]int{}, path...), i))
		}
	}
	rec(nil)
	c.Set("server_histories", runs)
	c.Set("server_decision_vectors_compared", evals)
	c.Set("server_distinct_reference_vectors", len(outcomes))
}
