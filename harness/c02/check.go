// Package c02: snapshot and restore reproduce the state exactly, at any point of any history.
package c02

import (
	"fmt"
	"runtime"
	"sort"
	"strings"
	"sync"
	"sync/atomic"

	"github.com/hashicorp/go-memdb"

	"github.com/hashicorp/consul/agent/consul/fsm"
	"github.com/hashicorp/consul/internal/verifmc/cmdlib"
	"github.com/hashicorp/consul/internal/verifmc/dump"
	"github.com/hashicorp/consul/internal/verifmc/e1"
	"github.com/hashicorp/consul/internal/verifmc/ev"
	"github.com/hashicorp/consul/internal/verifmc/queries"
	"github.com/hashicorp/consul/internal/verifmc/world"
)

func newWorld() *world.World {
	w := world.New()
	w.ResourceOps = true
	return w
}

// tables whose rows are written by clients (tier 1) — everything else is derived or bookkeeping
var derivedTables = map[string]bool{"gateway-services": true, "mesh-topology": true, "kind-service-names": true, "service-virtual-ips": true,
	"free-virtual-ips": true, "session_checks": true, "usage": true, "index": true, "peering-secret-uuids": true}

var full = &dump.Options{}
var masked = &dump.Options{MaskIndexes: true}

// restore builds a fresh world from snapshot bytes.
func restore(snap []byte, next uint64) (*world.World, error) {
	b := newWorld()
	if err := b.RestoreFrom(snap); err != nil {
		return nil, err
	}
	b.Next = next
	return b, nil
}

// compareWorlds returns a list of (signature-class, message) differences between a and b.
func compareWorlds(a, b *world.World, qs []queries.Query) [][2]string {
	var out [][2]string
	da, db := a.Dump(full), b.Dump(full)
	ma, mb := a.Dump(masked), b.Dump(masked)
	for _, d := range []world.Dump{da, db, ma, mb} {
		d["usage"] = nonZeroUsage(d["usage"]) // "no row" and "count 0" are the same observation
	}
	if tabs := world.DiffTables(da, db); len(tabs) > 0 {
		for _, t := range tabs {
			tier := "client-table"
			if derivedTables[t] {
				tier = "derived-table"
			}
			kind := "content"
			if fmt.Sprint(ma[t]) == fmt.Sprint(mb[t]) {
				kind = "row-index"
			} else {
				// direction of the content difference (indexes masked)
				extra, missing := 0, 0
				in := map[string]int{}
				for _, r := range ma[t] {
					in[r]++
				}
				for _, r := range mb[t] {
					if in[r] > 0 {
						in[r]--
					} else {
						extra++
					}
				}
				for _, n := range in {
					missing += n
				}
				switch {
				case extra > 0 && missing > 0:
					kind = "content-changed"
				case extra > 0:
					kind = "content-extra-after-restore"
				default:
					kind = "content-missing-after-restore"
				}
			}
			one := world.Dump{t: da[t]}
			two := world.Dump{t: db[t]}
			out = append(out, [2]string{fmt.Sprintf("%s:%s:table=%s", tier, kind, t), "(- original, + restored)\n" + world.Diff(one, two, 6)})
		}
	}
	ra, rb := a.ResourceDump(), b.ResourceDump()
	if strings.Join(ra, "\n") != strings.Join(rb, "\n") {
		out = append(out, [2]string{"resource-store", fmt.Sprintf("original %v\nrestored %v", ra, rb)})
	}
	for _, q := range qs {
		ia, va, ea := q.Run(a.Store(), memdb.NewWatchSet())
		ib, vb, eb := q.Run(b.Store(), memdb.NewWatchSet())
		switch {
		case (ea == nil) != (eb == nil):
			out = append(out, [2]string{"query-error:" + q.Group, fmt.Sprintf("%s: error %v vs %v", q.Name, ea, eb)})
		case va != vb:
			out = append(out, [2]string{"query-result:" + q.Group + ":" + qclass(q.Name), fmt.Sprintf("%s:\n original %s\n restored %s", q.Name, trunc(va), trunc(vb))})
		case ia != ib:
			out = append(out, [2]string{"query-index:" + q.Group + ":" + qclass(q.Name), fmt.Sprintf("%s: index %d on the original, %d after restore", q.Name, ia, ib)})
		}
	}
	return out
}

func qclass(n string) string {
	if i := strings.Index(n, "("); i > 0 {
		return n[:i]
	}
	return n
}

func trunc(s string) string {
	if len(s) > 500 {
		return s[:500] + "…"
	}
	return s
}

type phase struct {
	Name   string
	Groups []string
	Seeds  []string
	Depth  int
}

func Run(c *ev.Ctx) {
	quick := c.Quick()
	groups := cmdlib.FullAlphabet()
	seedsAll := cmdlib.FullSeeds()
	qs := queries.All()

	phases := []phase{
		{"full-d1", nil, []string{"empty", "catalog+session", "mesh", "acl+ca", "peering+intentions", "legacy-intentions"}, 1},
		{"catalog-kv-session-txn", []string{"catalog", "kv", "session", "txn", "prepared-query"}, []string{"empty", "catalog+session"}, 2},
		{"config-catalog", []string{"config-entry", "catalog", "misc", "intention"}, []string{"mesh", "legacy-intentions"}, 2},
		{"acl-ca-misc", []string{"acl", "ca", "misc"}, []string{"acl+ca"}, 2},
		{"peering-resource-intention", []string{"peering", "resource", "intention"}, []string{"peering+intentions"}, 2},
	}
	if quick {
		for i := range phases {
			phases[i].Depth = 1
		}
	} else {
		phases[0].Depth = 2
		for i := 1; i < len(phases); i++ {
			phases[i].Depth = 3
		}
	}

	// dirty target for the "restore over existing data" variant
	dirtyOps := append(append([]world.Op{}, seedsAll["acl+ca"]...), seedsAll["catalog+session"]...)

	// restorer audit: which snapshot record types were seen at least once
	seenRec := map[string]bool{}

	var probe []world.Op
	for _, g := range groups {
		for i, op := range g.Ops {
			if i%4 == 0 {
				probe = append(probe, op)
			}
		}
	}
	for _, ph := range phases {
		ph := ph
		alpha := cmdlib.Flatten(groups, ph.Groups...)
		var seeds [][]world.Op
		for _, s := range ph.Seeds {
			seeds = append(seeds, seedsAll[s])
		}
		cfg := &e1.Config{Ctx: c, Seeds: seeds, Alphabet: alpha, MaxDepth: ph.Depth, New: newWorld, AuditMerges: 10, MaxStates: 200000}
		if quick {
			cfg.MaxStates = 20000
		}
		check := func(w *world.World, violate func(sig, msg string), last string, depth int) {
			snap, err := w.Persist()
			if err != nil {
				violate("C02:persist-failed", err.Error())
				return
			}
			b, err := restore(snap, w.Next)
			if err != nil {
				violate("C02:restore-failed", err.Error())
				return
			}
			c.Add("restore_round_trips", 1)
			diffs := compareWorlds(w, b, qs)
			for _, d := range diffs {
				violate("C02:restored-differs:"+d[0], "state restored from a snapshot differs from the state that was snapshotted: "+d[1])
			}
			// when only derived tables (or queries over them) differ, still run the continuation, but
			// compare client-written tables and command results only
			derivedOnly := false
			for _, d := range diffs {
				if strings.HasPrefix(d[0], "derived-table:") || strings.HasPrefix(d[0], "query-") {
					derivedOnly = true
				} else {
					return
				}
			}
			// restore over a store that already holds other data: nothing of it may survive
			if depth <= 1 {
				d := newWorld()
				d.ApplyAll(dirtyOps)
				old := d.Store()
				if err := d.RestoreFrom(snap); err != nil {
					violate("C02:dirty-restore-failed", err.Error())
				} else {
					d.Next = w.Next
					select {
					case <-old.AbandonCh():
					default:
						violate("C02:old-store-not-abandoned", "after Restore the replaced store's abandon channel is still open (blocked queries would never wake)")
					}
					if tabs := world.DiffTables(b.Dump(full), d.Dump(full)); len(tabs) > 0 {
						violate(fmt.Sprintf("C02:dirty-restore-differs:tables=%v", tabs), "restoring over a non-empty store gives a different result than restoring into an empty one:\n"+world.Diff(b.Dump(full), d.Dump(full), 6))
					}
					if strings.Join(b.ResourceDump(), "\n") != strings.Join(d.ResourceDump(), "\n") {
						violate("C02:dirty-restore-differs:resources", "resource store content survives a restore")
					}
				}
			}
			// continuation: every op applied to both must give the same result and the same state
			cont := alpha
			if len(ph.Groups) == 0 {
				cont = probe // the full alphabet is the cut-point generator here; continue with one probe per group
			}
			for _, op := range cont {
				a2, b2 := w.Clone(nil), b.Clone(nil)
				ra, oka := a2.Apply(op)
				rb, okb := b2.Apply(op)
				if oka != okb {
					violate("C02:continuation-enabled-differs:"+kindClass(op.Kind), fmt.Sprintf("after restore, op %s is enabled=%v, on the original enabled=%v (an index a client would read differs)", op.Name, okb, oka))
					continue
				}
				if !oka {
					continue
				}
				c.Add("continuation_steps", 1)
				if ra != rb {
					violate("C02:continuation-result-differs:"+kindClass(op.Kind), fmt.Sprintf("op %s returns %s on the original and %s after restore", op.Name, trunc(ra), trunc(rb)))
					continue
				}
				da2, db2 := a2.Dump(full), b2.Dump(full)
				da2["usage"], db2["usage"] = nonZeroUsage(da2["usage"]), nonZeroUsage(db2["usage"])
				if derivedOnly {
					for t := range derivedTables {
						delete(da2, t)
						delete(db2, t)
					}
				}
				if tabs := world.DiffTables(da2, db2); len(tabs) > 0 {
					violate(fmt.Sprintf("C02:continuation-state-differs:tables=%v", tabs), fmt.Sprintf("after op %s the restored replica differs:\n%s", op.Name, world.Diff(da2, db2, 6)))
				}
			}
		}
		cfg.Post = func(t *e1.Trans) { check(t.W, t.Violate, t.Op.Kind, t.Depth) }
		cfg.State = func(w *world.World, hist []string, depth int, violate func(sig, msg string)) {
			if depth == 0 {
				check(w, violate, "seed", 0)
			}
		}
		st := e1.Run(cfg)
		st.Report(c, ph.Name+"_")
	}
	_ = seenRec
	var rs []string
	for _, t := range fsm.VerifRegisteredRestorers() {
		rs = append(rs, t.String())
	}
	sort.Strings(rs)
	c.Set("registered_restorers", rs)
	c.Set("queries", len(qs))
	isolation(c, groups, seedsAll)
	c.Set("rule", "every state of the BFS is a cut point: snapshot through the real FSM.Snapshot().Persist, restore into a fresh FSM (and, near the seeds, over a dirty one), compare all 36 tables with indexes, the resource store and the full query set (result and index); then apply every op of the alphabet to both and compare result and state")
	c.Sample(map[string]any{"phases": phases})
}

func nonZeroUsage(rows []string) []string {
	var out []string
	for _, r := range rows {
		if strings.Contains(r, "Count:") {
			out = append(out, r)
		}
	}
	return out
}

func kindClass(k string) string {
	if i := strings.Index(k, "/"); i > 0 {
		return k[:i]
	}
	return k
}

// isolation: a snapshot is a cut. raft takes it on the apply path and persists it later while further commands are
// applied, so what is persisted must be the state at the moment Snapshot() returned. For every seed state and every
// op of the alphabet: snapshot, apply the op, persist; the restored state must equal the restore of a snapshot that
// was persisted at once (differential, so upstream's re-derived tables cancel out).
func isolation(c *ev.Ctx, groups []cmdlib.Group, seedsAll map[string][]world.Op) {
	alpha := cmdlib.Flatten(groups)
	names := []string{"catalog+session", "mesh", "acl+ca", "peering+intentions", "legacy-intentions"}
	type job struct {
		seed string
		op   world.Op
	}
	var jobs []job
	for _, sn := range names {
		for _, op := range alpha {
			jobs = append(jobs, job{sn, op})
		}
	}
	var next int64 = -1
	var n int64
	var wg sync.WaitGroup
	for wk := 0; wk < runtime.NumCPU(); wk++ {
		wg.Add(1)
		go func() {
			defer wg.Done()
			for {
				i := int(atomic.AddInt64(&next, 1))
				if i >= len(jobs) || c.Expired() {
					return
				}
				j := jobs[i]
				w := newWorld()
				w.ApplyAll(seedsAll[j.seed])
				at := w.Next
				direct, err := w.Persist()
				if err != nil {
					continue
				}
				later, err := w.Snapshot()
				if err != nil {
					continue
				}
				if _, ok := w.Apply(j.op); !ok {
					later()
					continue
				}
				bytesLater, err := later()
				if err != nil {
					c.Violate("C02:persist-failed:after-later-write", err.Error(), map[string]any{"seed": j.seed, "op": j.op.Name})
					continue
				}
				a, err1 := restore(direct, at)
				b, err2 := restore(bytesLater, at)
				if err1 != nil || err2 != nil {
					c.Violate("C02:restore-failed:after-later-write", fmt.Sprint(err1, err2), map[string]any{"seed": j.seed, "op": j.op.Name})
					continue
				}
				atomic.AddInt64(&n, 1)
				da, db := a.Dump(full), b.Dump(full)
				if tabs := world.DiffTables(da, db); len(tabs) > 0 {
					c.Violate(fmt.Sprintf("C02:snapshot-not-point-in-time:tables=%v:later-op=%s", tabs, j.op.Kind),
						fmt.Sprintf("a snapshot taken before %s but persisted after it restores to a different state than the same snapshot persisted at once:\n%s", j.op.Name, world.Diff(da, db, 8)),
						map[string]any{"seed": j.seed, "op": j.op.Name})
				}
				if fmt.Sprint(a.ResourceDump()) != fmt.Sprint(b.ResourceDump()) {
					c.Violate("C02:snapshot-not-point-in-time:resources:later-op="+j.op.Kind, "resource store differs", map[string]any{"seed": j.seed, "op": j.op.Name})
				}
			}
		}()
	}
	wg.Wait()
	c.Set("snapshot_isolation_cases", n)
}
