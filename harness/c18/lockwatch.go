package c18

import (
	"fmt"
	"strings"
	"time"

	"github.com/hashicorp/consul/internal/storage/inmem"
	"github.com/hashicorp/consul/internal/verifmc/ev"
	"github.com/hashicorp/consul/internal/verifmc/sched"
	"github.com/hashicorp/consul/proto-public/pbresource"
)

// ---- part LW: writers, the publisher loop and watchers as threads, lock / atomic level --------------------------------
//
// The action-level part W treats a whole WriteCAS, a whole publication of one batch, a whole WatchList and a
// whole Next as atomic. Here the same programs run as real goroutines under the cooperative scheduler: every
// lock acquisition and every atomic operation of packages inmem and stream is a scheduling point, so a
// critical section that is too narrow (an event appended outside the publisher lock, a listing read outside
// the subscription set-up, a commit outside the event lock) is interleaved with the other threads. Blocking
// waits (the publisher waiting for a batch, a watcher waiting for an event) are modelled with sched.WaitUntil.
// The oracles are part W's.

type lwScenario struct {
	label    string
	seed     []wstep
	writers  [][]wstep
	watchers []wspec
}

func lwScenarios(quick bool) []*lwScenario {
	wr := func(name, ns, data string) wstep { return wstep{kind: "write", name: name, ns: ns, data: data} }
	del := func(name, ns string) wstep { return wstep{kind: "delete", name: name, ns: ns} }
	seed := []wstep{wr("r1", "default", "s")}
	wDef := wspec{label: "watch(default)", ns: "default"}
	wAll := wspec{label: "watch(*)", ns: "*"}
	out := []*lwScenario{
		{label: "one writer updating r1 twice, one watcher", seed: seed, writers: [][]wstep{{wr("r1", "default", "a"), wr("r1", "default", "b")}}, watchers: []wspec{wDef}},
		{label: "writers on r1 and r3, one watcher", seed: seed, writers: [][]wstep{{wr("r1", "default", "a")}, {wr("r3", "default", "x")}}, watchers: []wspec{wDef}},
		{label: "update then delete, one wildcard watcher", seed: seed, writers: [][]wstep{{wr("r1", "default", "a"), del("r1", "default")}}, watchers: []wspec{wAll}},
		{label: "one writer, two watchers sharing a subject", seed: seed, writers: [][]wstep{{wr("r1", "default", "a")}}, watchers: []wspec{wDef, {label: "watch(default,prefix r1)", ns: "default", prefix: "r1"}}},
		// raft never runs Restore next to Apply, so the restore is one of the writer's own steps; watchers and the publisher run next to it
		{label: "write, restore, write next to a watcher", seed: seed, writers: [][]wstep{{wr("r1", "default", "a"), wstep{kind: "restore"}, wr("r1", "default", "b")}}, watchers: []wspec{wDef}},
	}
	if !quick {
		out = append(out,
			&lwScenario{label: "empty store, creator and deleter, one watcher", writers: [][]wstep{{wr("r1", "default", "a"), del("r1", "default"), wr("r1", "default", "c")}}, watchers: []wspec{wDef}},
			&lwScenario{label: "two writers in two namespaces, wildcard and exact watcher", seed: seed, writers: [][]wstep{{wr("r1", "default", "a")}, {wr("r2", "other", "b")}}, watchers: []wspec{wAll, wDef}},
		)
	}
	return out
}

// runLW executes one schedule. With a wildcard watcher the publisher appends one batch to two topic buffers in the
// order of a Go map walk, so a recorded prefix may not fit the order this execution takes; it is then run again.
func runLW(sc *lwScenario, prefix []int) (*sched.Run, *wexec) {
	for try := 0; ; try++ {
		r, e := runLWOnce(sc, prefix)
		if !r.Diverged || try == 30 {
			return r, e
		}
	}
}

func runLWOnce(sc *lwScenario, prefix []int) (*sched.Run, *wexec) {
	be, err := inmem.NewBackend()
	if err != nil {
		panic(err)
	}
	e := &wexec{sc: &wscenario{label: sc.label}, be: be, cur: map[string]*pbresource.Resource{}, hist: []map[string]string{{}}, lockLevel: true}
	for _, s := range sc.seed {
		e.doStep(s)
	}
	pub := be.VerifStore().VerifPublisher()
	for pub.VerifDrainOne() {
	}
	for i, ws := range sc.watchers {
		ws.label = fmt.Sprintf("%s#%d", ws.label, i+1)
		e.ws = append(e.ws, &watcher{spec: ws})
	}
	r := sched.New(prefix)
	r.Atomics = true
	r.TolerateDivergence = true
	writersLeft := len(sc.writers)
	pubDone := false
	for i, prog := range sc.writers {
		prog := prog
		r.Go(fmt.Sprintf("T%d", i), func() {
			for _, s := range prog {
				sched.Yield()
				e.trace = append(e.trace, fmt.Sprintf("%s(%s/%s)", s.kind, s.ns, s.name))
				e.doStep(s)
			}
			writersLeft--
		})
	}
	r.Go("P", func() {
		// EventPublisher.Run: wait for a batch, publish it
		for {
			sched.WaitUntil(func() bool { return pub.VerifQueued() > 0 || writersLeft == 0 })
			if !pub.VerifDrainOne() {
				break
			}
			e.trace = append(e.trace, "published")
		}
		pubDone = true
	})
	for _, w := range e.ws {
		w := w
		r.Go(w.spec.label, func() {
			sched.Yield()
			e.trace = append(e.trace, w.spec.label+".watch")
			e.open(w)
			for w.opened && !w.closed {
				sched.WaitUntil(func() bool { return w.w.VerifCanProgress() || pubDone })
				if !w.w.VerifCanProgress() {
					break
				}
				e.pumpOne(w)
			}
		})
	}
	r.Execute()
	if r.Hung != "" || r.Deadlock || r.Diverged {
		return r, e
	}
	// quiescence (outside the scheduler): everything published and consumed
	for pub.VerifDrainOne() {
	}
	e.pump()
	e.quiesce()
	return r, e
}

func partLW(c *ev.Ctx) {
	// quick: every schedule with at most one preemption; thorough: two (about 10^5 schedules per scenario)
	bound := 1
	if !c.Quick() {
		bound = 2
	}
	scs := lwScenarios(c.Quick())
	// this part may use a third of what is left of the time budget
	limit := time.Now().Add(time.Until(c.Deadline) / 3)
	var total, deadlocks, capped, unreplayable int64
	outcomes := map[string]bool{}
	maxPoints := 0
	for _, sc := range scs {
		var rec func(prefix []int, used int)
		rec = func(prefix []int, used int) {
			r, e := runLW(sc, prefix)
			total++
			if len(r.Choices) > maxPoints {
				maxPoints = len(r.Choices)
			}
			if r.Hung != "" {
				c.HarnessError("lock-level watch exploration: " + r.Hung)
				return
			}
			if r.Diverged {
				unreplayable++
				return
			}
			rp := map[string]any{"scenario": sc.label, "schedule": r.Trace, "choices": r.Choices}
			if r.Deadlock {
				deadlocks++
				c.Violate("C18:deadlock:writers-publisher-watchers", fmt.Sprintf("scenario %q deadlocks under schedule %v (waiting: %v)", sc.label, r.Trace, r.Waiting()), rp)
				return
			}
			var oc []string
			for _, w := range e.ws {
				oc = append(oc, fmt.Sprint(sortedKV(w.gotInit), w.pos, w.closed))
			}
			outcomes[sc.label+"|"+strings.Join(oc, "|")] = true
			for _, v := range e.viol {
				c.Violate(v[0]+":lock-level", v[1]+"\nscenario: "+sc.label+"\nthread schedule: "+strings.Join(r.Trace, " "), rp)
			}
			for i := len(prefix); i < len(r.Alts); i++ {
				cost := 0
				if r.Preempt[i] {
					cost = 1
				}
				if used+cost > bound {
					continue
				}
				for alt := 1; alt < r.Alts[i]; alt++ {
					if c.Expired() || time.Now().After(limit) {
						capped++
						return
					}
					np := make([]int, i+1)
					copy(np, r.Choices[:i])
					np[i] = alt
					rec(np, used+cost)
				}
			}
		}
		rec(nil, 0)
	}
	c.Set("lock_level_watch_scenarios", len(scs))
	c.Set("lock_level_watch_schedules", total)
	c.Set("lock_level_watch_preemption_bound", bound)
	c.Set("lock_level_watch_max_scheduling_points", maxPoints)
	c.Set("lock_level_watch_distinct_outcomes", len(outcomes))
	c.Set("lock_level_watch_deadlocks", deadlocks)
	c.Set("lock_level_watch_prefixes_not_replayable_in_30_tries", unreplayable)
	if unreplayable > 0 {
		c.Cap("some schedule prefixes could not be replayed (map iteration order inside the publisher)")
	}
	if capped > 0 {
		c.Set("lock_level_watch_capped_by_time_budget", true)
		c.Cap("lock-level watch exploration stopped by the time budget")
	}
}
