// Package c18: resource store - version CAS, stable UIDs, ordered watches.
// Part L (lock level): threads of CAS writers / deleters / readers on the real inmem.Backend under the
// cooperative scheduler, every interleaving of their lock acquisitions, brute-force linearizability
// against the sequential storage contract. Part W (action level): writes, publication of queued
// event batches, watch creation and restore interleaved in every order; watch oracles.
package c18

import (
	"context"
	"errors"
	"fmt"
	"runtime"
	"sort"
	"strings"
	"sync"
	"sync/atomic"

	"github.com/hashicorp/go-hclog"

	"github.com/hashicorp/consul/acl"
	"github.com/hashicorp/consul/acl/resolver"
	svcresource "github.com/hashicorp/consul/agent/grpc-external/services/resource"
	"github.com/hashicorp/consul/agent/structs"
	"github.com/hashicorp/consul/internal/resource"
	"github.com/hashicorp/consul/internal/resource/demo"
	"github.com/hashicorp/consul/internal/storage"
	"github.com/hashicorp/consul/internal/storage/inmem"
	"github.com/hashicorp/consul/internal/verifmc/ev"
	"github.com/hashicorp/consul/internal/verifmc/sched"
	"github.com/hashicorp/consul/internal/verifmc/vtime"
	"github.com/hashicorp/consul/proto-public/pbresource"
)

var (
	resType = &pbresource.Type{Group: "demo", GroupVersion: "v2", Kind: "Artist"}
	ctx     = context.Background()
)

func rid(name, ns, uid string) *pbresource.ID {
	return &pbresource.ID{Type: resType, Tenancy: &pbresource.Tenancy{Partition: "default", Namespace: ns}, Name: name, Uid: uid}
}

// ---- sequential contract (reference model) ------------------------------------------------------------------

type mres struct {
	uid, vtok, data string // vtok: the token identifying the stored version (the op that wrote it)
}

type model map[string]*mres // key: ns/name

func (m model) clone() model {
	n := model{}
	for k, v := range m {
		c := *v
		n[k] = &c
	}
	return n
}

type opKind int

const (
	kWrite opKind = iota
	kDelete
	kRead
)

// op is one call in a history. Versions are symbolic: "" (none), "cur:<tok>" is resolved when the
// op is issued (the version the thread last learned), or a literal stale/future token.
type op struct {
	kind       opKind
	name, ns   string
	uid        string
	vtok       string // version token presented (write/delete)
	data       string
	call, ret  int
	result     string // "ok", "cas", "wronguid", "notfound", "ok:<vtok>/<uid>" for reads
	wroteToken string // token of the version this op stored (writes that succeeded)
	label      string
}

func key(ns, name string) string { return ns + "/" + name }

// apply runs op o on model m and returns the expected result.
func (m model) apply(o *op) string {
	k := key(o.ns, o.name)
	ex := m[k]
	switch o.kind {
	case kWrite:
		if ex == nil {
			if o.vtok != "" {
				return "cas"
			}
			m[k] = &mres{uid: o.uid, vtok: o.wroteToken, data: o.data}
			return "ok"
		}
		if ex.uid != o.uid {
			return "wronguid"
		}
		if ex.vtok != o.vtok {
			return "cas"
		}
		m[k] = &mres{uid: o.uid, vtok: o.wroteToken, data: o.data}
		return "ok"
	case kDelete:
		if ex == nil || ex.uid != o.uid {
			return "ok"
		}
		if ex.vtok != o.vtok {
			return "cas"
		}
		delete(m, k)
		return "ok"
	default:
		if ex == nil || (o.uid != "" && ex.uid != o.uid) {
			return "notfound"
		}
		return "ok:" + ex.vtok + "/" + ex.uid
	}
}

// linearizable: is there a total order of ops consistent with real time (a.ret < b.call => a before b)
// under which every op returns what it returned?
func linearizable(init model, ops []*op) bool {
	n := len(ops)
	used := make([]bool, n)
	var rec func(m model, done int) bool
	rec = func(m model, done int) bool {
		if done == n {
			return true
		}
		for i, o := range ops {
			if used[i] {
				continue
			}
			// o may come next only if no unused op returned before o was called
			ok := true
			for j, p := range ops {
				if !used[j] && j != i && p.ret < o.call {
					ok = false
					break
				}
			}
			if !ok {
				continue
			}
			m2 := m.clone()
			if m2.apply(o) != o.result {
				continue
			}
			used[i] = true
			if rec(m2, done+1) {
				return true
			}
			used[i] = false
		}
		return false
	}
	return rec(init, 0)
}

// ---- part L: lock-level exploration ---------------------------------------------------------------------------

type threadSpec struct {
	name string
	ops  []op // templates; vtok "@cur" = the version stored by the seed, "@stale" = an old token
}

type lscenario struct {
	label     string
	present   bool // r1 exists (uid u1) before the threads start
	recreated bool // r1 existed as u0, was deleted and re-created as u1 before the threads start
	threads   []threadSpec
}

type lresult struct {
	ops      []*op
	init     model
	final    map[string]string
	trace    []string
	deadlock bool
}

func classifyErr(err error) string {
	switch {
	case err == nil:
		return "ok"
	case errors.Is(err, storage.ErrCASFailure):
		return "cas"
	case errors.Is(err, storage.ErrWrongUid):
		return "wronguid"
	case errors.Is(err, storage.ErrNotFound):
		return "notfound"
	}
	return "err:" + err.Error()
}

func runL(sc *lscenario, prefix []int) (*sched.Run, *lresult) {
	be, err := inmem.NewBackend()
	if err != nil {
		panic(err)
	}
	res := &lresult{init: model{}}
	cur := ""
	staleTok := "never-stored"
	if sc.recreated {
		r0, err := be.WriteCAS(ctx, &pbresource.Resource{Id: rid("r1", "default", "u0"), Metadata: map[string]string{"d": "old"}})
		if err != nil {
			panic(err)
		}
		staleTok = r0.Version
		if err := be.DeleteCAS(ctx, r0.Id, r0.Version); err != nil {
			panic(err)
		}
	}
	if sc.present || sc.recreated {
		r1, err := be.WriteCAS(ctx, &pbresource.Resource{Id: rid("r1", "default", "u1"), Metadata: map[string]string{"d": "seed"}})
		if err != nil {
			panic(err)
		}
		cur = r1.Version
		res.init[key("default", "r1")] = &mres{uid: "u1", vtok: cur, data: "seed"}
	}
	clock := 0
	r := sched.New(prefix)
	for _, ts := range sc.threads {
		ts := ts
		var mine []*op
		for i := range ts.ops {
			o := ts.ops[i]
			switch o.vtok {
			case "@cur":
				o.vtok = cur
			case "@stale":
				o.vtok = staleTok
			}
			o.label = fmt.Sprintf("%s:%s", ts.name, o.label)
			mine = append(mine, &o)
			res.ops = append(res.ops, &o)
		}
		r.Go(ts.name, func() {
			for _, o := range mine {
				sched.Yield()
				clock++
				o.call = clock
				switch o.kind {
				case kWrite:
					out, err := be.WriteCAS(ctx, &pbresource.Resource{Id: rid(o.name, o.ns, o.uid), Version: o.vtok, Metadata: map[string]string{"d": o.data}})
					o.result = classifyErr(err)
					if err == nil {
						o.wroteToken = out.Version
					}
				case kDelete:
					o.result = classifyErr(be.DeleteCAS(ctx, rid(o.name, o.ns, o.uid), o.vtok))
				case kRead:
					got, err := be.Read(ctx, storage.StrongConsistency, rid(o.name, o.ns, o.uid))
					o.result = classifyErr(err)
					if err == nil {
						o.result = "ok:" + got.Version + "/" + got.Id.Uid
					}
				}
				clock++
				o.ret = clock
			}
		})
	}
	r.Execute()
	res.trace = r.Trace
	res.deadlock = r.Deadlock
	res.final = map[string]string{}
	for _, x := range be.VerifStore().VerifAll() {
		rr := x.(*pbresource.Resource)
		res.final[key(rr.Id.Tenancy.Namespace, rr.Id.Name)] = rr.Version + "/" + rr.Id.Uid
	}
	return r, res
}

func lscenarios() []*lscenario {
	w := func(uid, v, data string) op {
		return op{kind: kWrite, name: "r1", ns: "default", uid: uid, vtok: v, data: data, label: fmt.Sprintf("write(uid=%s,version=%s,%s)", uid, v, data)}
	}
	d := func(uid, v string) op {
		return op{kind: kDelete, name: "r1", ns: "default", uid: uid, vtok: v, label: fmt.Sprintf("delete(uid=%s,version=%s)", uid, v)}
	}
	rd := func(uid string) op {
		return op{kind: kRead, name: "r1", ns: "default", uid: uid, label: fmt.Sprintf("read(uid=%s)", uid)}
	}
	T := func(name string, ops ...op) threadSpec { return threadSpec{name, ops} }
	return []*lscenario{
		{label: "two writers presenting the same current version", present: true, threads: []threadSpec{T("A", w("u1", "@cur", "a")), T("B", w("u1", "@cur", "b"))}},
		{label: "three writers presenting the same current version", present: true, threads: []threadSpec{T("A", w("u1", "@cur", "a")), T("B", w("u1", "@cur", "b")), T("C", w("u1", "@cur", "c"))}},
		{label: "two creators (different uids)", threads: []threadSpec{T("A", w("u1", "", "a")), T("B", w("u2", "", "b"))}},
		{label: "two creators (same uid) and a reader", threads: []threadSpec{T("A", w("u1", "", "a")), T("B", w("u1", "", "b")), T("R", rd(""), rd("u1"))}},
		{label: "writer vs deleter on the same version", present: true, threads: []threadSpec{T("A", w("u1", "@cur", "a")), T("D", d("u1", "@cur"))}},
		{label: "writer vs deleter vs reader", present: true, threads: []threadSpec{T("A", w("u1", "@cur", "a")), T("D", d("u1", "@cur")), T("R", rd("u1"), rd(""))}},
		{label: "delete+re-create vs stale writer", present: true, threads: []threadSpec{T("A", d("u1", "@cur"), w("u2", "", "new")), T("B", w("u1", "@cur", "stale"))}},
		{label: "delete+re-create vs stale deleter", present: true, threads: []threadSpec{T("A", d("u1", "@cur"), w("u2", "", "new")), T("B", d("u1", "@cur"))}},
		{label: "re-created resource: previous lifetime's writer, deleter and reader", recreated: true, threads: []threadSpec{T("A", w("u0", "@stale", "ghost")), T("B", d("u0", "@stale")), T("R", rd("u0"), rd("u1"))}},
		{label: "re-created resource: current writer vs previous lifetime's writer", recreated: true, threads: []threadSpec{T("A", w("u1", "@cur", "a")), T("B", w("u0", "@stale", "ghost")), T("C", w("u1", "@stale", "wrong-version"))}},
		{label: "two writers chained", present: true, threads: []threadSpec{T("A", w("u1", "@cur", "a1"), w("u1", "@cur", "a2")), T("B", w("u1", "@cur", "b1"))}},
		{label: "writer with the wrong uid vs deleter", present: true, threads: []threadSpec{T("A", w("u9", "@cur", "intruder")), T("D", d("u1", "@cur")), T("B", w("u9", "", "after-delete"))}},
	}
}

func partL(c *ev.Ctx) {
	scs := lscenarios()
	var total, dl int64
	outcomes := map[string]bool{}
	var mu sync.Mutex
	// the scheduler owns process-global state (one exploration at a time): scenarios run sequentially,
	// which is cheap (tens of thousands of schedules per second)
	for _, sc := range scs {
		// explicit DFS so that the system is rebuilt per execution
		var rec func(prefix []int)
		rec = func(prefix []int) {
			r, res := runL(sc, prefix)
			total++
			if r.Hung != "" {
				c.HarnessError("lock-level exploration: " + r.Hung)
				return
			}
			if res.deadlock {
				dl++
				c.Violate("C18:deadlock", fmt.Sprintf("scenario %q deadlocks under schedule %v", sc.label, res.trace), map[string]any{"scenario": sc.label, "schedule": res.trace})
			}
			check := func() {
				var rs []string
				for _, o := range res.ops {
					rs = append(rs, o.label+"="+o.result)
				}
				mu.Lock()
				outcomes[sc.label+" :: "+strings.Join(rs, " ")] = true
				mu.Unlock()
				desc := fmt.Sprintf("scenario %q, schedule %v: %s; final %v", sc.label, res.trace, strings.Join(rs, " ; "), res.final)
				rp := map[string]any{"scenario": sc.label, "schedule": res.trace, "choices": r.Choices}
				// of the writes presenting the same version at most one succeeds
				winners := map[string][]string{}
				for _, o := range res.ops {
					if o.kind == kWrite && o.result == "ok" {
						winners[key(o.ns, o.name)+"@"+o.vtok] = append(winners[key(o.ns, o.name)+"@"+o.vtok], o.label)
					}
					if strings.HasPrefix(o.result, "err:") {
						c.Violate("C18:unexpected-error", desc, rp)
					}
				}
				for k, ws := range winners {
					if len(ws) > 1 {
						c.Violate("C18:two-writes-with-the-same-version-both-succeeded", fmt.Sprintf("%v all succeeded presenting %s\n%s", ws, k, desc), rp)
					}
				}
				// a previous lifetime's uid never changes or reads the current resource
				if sc.recreated {
					for _, o := range res.ops {
						if o.uid == "u0" && ((o.kind == kWrite && o.result == "ok") || (o.kind == kRead && strings.HasPrefix(o.result, "ok"))) {
							c.Violate("C18:previous-lifetime-uid-touched-current-resource", desc, rp)
						}
					}
					if f, ok := res.final[key("default", "r1")]; ok && !strings.HasSuffix(f, "/u1") {
						c.Violate("C18:uid-changed-within-a-lifetime", desc, rp)
					}
				}
				if !linearizable(res.init, res.ops) {
					c.Violate("C18:history-not-linearizable", desc, rp)
				}
			}
			check()
			for i := len(prefix); i < len(r.Alts); i++ {
				for alt := 1; alt < r.Alts[i]; alt++ {
					np := make([]int, i+1)
					copy(np, r.Choices[:i])
					np[i] = alt
					rec(np)
				}
			}
		}
		rec(nil)
	}
	c.Set("lock_level_scenarios", len(scs))
	c.Set("lock_level_schedules", total)
	c.Set("lock_level_distinct_outcomes", len(outcomes))
	c.Set("lock_level_deadlocks", dl)
}

// ---- part D: restore against watch creation and writes at lock level (deadlock freedom) ---------------------------

func partD(c *ev.Ctx) {
	var total, deadlocks int64
	build := func(prefix []int) *sched.Run {
		be, err := inmem.NewBackend()
		if err != nil {
			panic(err)
		}
		st := be.VerifStore()
		if _, err := be.WriteCAS(ctx, &pbresource.Resource{Id: rid("r1", "default", "u1"), Metadata: map[string]string{"d": "seed"}}); err != nil {
			panic(err)
		}
		r := sched.New(prefix)
		r.Go("restore", func() {
			sched.Yield()
			snap, err := st.Snapshot()
			if err != nil {
				panic(err)
			}
			rest, err := st.Restore()
			if err != nil {
				panic(err)
			}
			for x := snap.Next(); x != nil; x = snap.Next() {
				if err := rest.Apply(x); err != nil {
					panic(err)
				}
			}
			rest.Commit()
		})
		r.Go("watch", func() {
			sched.Yield()
			w, err := st.WatchList(storage.UnversionedTypeFrom(resType), &pbresource.Tenancy{Partition: "default", Namespace: "default"}, "")
			if err == nil {
				w.Close()
			}
		})
		r.Go("write", func() {
			sched.Yield()
			_, _ = be.WriteCAS(ctx, &pbresource.Resource{Id: rid("r2", "default", "u2"), Metadata: map[string]string{"d": "x"}})
		})
		return r
	}
	// deviation-bounded: every schedule with at most `bound` preemptions (a switch away from a thread that could go on)
	bound := 2
	if !c.Quick() {
		bound = 3
	}
	var rec func(prefix []int, used int)
	rec = func(prefix []int, used int) {
		r := build(prefix)
		r.Execute()
		total++
		if r.Hung != "" {
			c.HarnessError("lock-level exploration: " + r.Hung)
			return
		}
		if r.Deadlock {
			deadlocks++
			c.Violate("C18:deadlock:restore-vs-watch", fmt.Sprintf("restore commit, watch creation and a write deadlock under schedule %v (waiting: %v)", r.Trace, r.Waiting()),
				map[string]any{"schedule": r.Trace, "choices": r.Choices})
			if deadlocks > 3 {
				return
			}
		}
		for i := len(prefix); i < len(r.Alts); i++ {
			cost := 0
			if r.Preempt[i] {
				cost = 1
			}
			if used+cost > bound {
				continue
			}
			for alt := 1; alt < r.Alts[i]; alt++ {
				if deadlocks > 3 || c.Expired() {
					return
				}
				np := make([]int, i+1)
				copy(np, r.Choices[:i])
				np[i] = alt
				rec(np, used+cost)
			}
		}
	}
	rec(nil, 0)
	c.Set("restore_watch_write_preemption_bound", bound)
	c.Set("restore_watch_write_schedules", total)
	c.Set("restore_watch_write_deadlocks", deadlocks)
}

// ---- part W: watches, action level ------------------------------------------------------------------------------

type wstep struct {
	kind     string // write, delete, restore
	name, ns string
	data     string
}

type wspec struct {
	label string
	ns    string // "default", "other", "*" (wildcard tenancy)
	// prefix: name prefix of the listing ("" = all names)
	prefix string
	when   int // created by this thread as its only step
}

type wscenario struct {
	label    string
	seed     []wstep
	writers  [][]wstep
	watchers []wspec
}

type commit struct {
	key     string
	deleted bool
	version string
	seq     int
	pseudo  bool // marks a restore: the state may jump, nothing is published for it
}

type watcher struct {
	spec         wspec
	w            *inmem.Watch
	opened       bool
	closed       bool
	snapDone     bool
	initial      map[string]string // key -> version expected in the initial listing
	gotInit      map[string]string
	after        int            // commits with seq > after are to be delivered live
	pos          map[string]int // per resource: seq of the last delivered live event
	log          []string
	afterRestore bool

	created   int   // commits at creation
	notBefore int   // a cached listing cannot predate this point (last restore)
	cands     []int // listing points T0 still consistent with what was received
	minCand   int
	got       map[int]bool // commits delivered as live events
}

type wexec struct {
	sc       *wscenario
	be       *inmem.Backend
	commits  []commit
	cur      map[string]*pbresource.Resource
	pcs      []int
	ws       []*watcher
	trace    []string
	viol     [][2]string
	restored bool

	pending     *inmem.Restoration
	pendingCur  map[string]*pbresource.Resource
	hist        []map[string]string
	lastRestore int
	lockLevel   bool
}

// snapshotState remembers key -> version after the latest commit (hist[n] = state after n commits).
func (e *wexec) snapshotState() {
	if len(e.hist) == 0 {
		e.hist = append(e.hist, map[string]string{})
	}
	m := map[string]string{}
	for k, r := range e.cur {
		m[k] = r.Version
	}
	e.hist = append(e.hist, m)
}

func (e *wexec) violate(sig, msg string) {
	e.viol = append(e.viol, [2]string{sig, msg + "\nschedule: " + strings.Join(e.trace, " ; ")})
}

func (e *wexec) doStep(s wstep) {
	st := e.be.VerifStore()
	k := key(s.ns, s.name)
	switch s.kind {
	case "write":
		r := &pbresource.Resource{Id: rid(s.name, s.ns, "uid-"+s.name), Metadata: map[string]string{"d": s.data}}
		if c := e.cur[k]; c != nil {
			r.Version = c.Version
			r.Id.Uid = c.Id.Uid
		}
		out, err := e.be.WriteCAS(ctx, r)
		if err != nil {
			e.violate("C18:sequential-write-failed", fmt.Sprintf("write %s: %v", k, err))
			return
		}
		e.cur[k] = out
		e.commits = append(e.commits, commit{key: k, version: out.Version, seq: len(e.commits) + 1})
		e.snapshotState()
	case "delete":
		c := e.cur[k]
		if c == nil {
			return
		}
		if err := e.be.DeleteCAS(ctx, c.Id, c.Version); err != nil {
			e.violate("C18:sequential-delete-failed", fmt.Sprintf("delete %s: %v", k, err))
			return
		}
		delete(e.cur, k)
		e.commits = append(e.commits, commit{key: k, deleted: true, version: c.Version, seq: len(e.commits) + 1})
		e.snapshotState()
	case "restore-begin":
		// the first half of a restore: the snapshot is loaded into a new database that is not live yet
		snap, err := st.Snapshot()
		if err != nil {
			panic(err)
		}
		rest, err := st.Restore()
		if err != nil {
			panic(err)
		}
		for r := snap.Next(); r != nil; r = snap.Next() {
			if err := rest.Apply(r); err != nil {
				panic(err)
			}
		}
		e.pending = rest
		e.pendingCur = map[string]*pbresource.Resource{}
		for k, v := range e.cur {
			e.pendingCur[k] = v
		}
	case "restore-commit":
		if e.pending == nil {
			return
		}
		e.pending.Commit()
		e.pending = nil
		e.cur = e.pendingCur // writes that landed in between went to the database that was replaced
		e.restored = true
		e.commits = append(e.commits, commit{pseudo: true, seq: len(e.commits) + 1})
		e.snapshotState()
		e.lastRestore = len(e.commits)
		e.pump()
		for _, w := range e.ws {
			if w.opened && !w.closed && !w.afterRestore {
				e.violate("C18:watch-survives-restore", fmt.Sprintf("watch %s is still open after the store was restored", w.spec.label))
			}
		}
	case "restore":
		snap, err := st.Snapshot()
		if err != nil {
			panic(err)
		}
		rest, err := st.Restore()
		if err != nil {
			panic(err)
		}
		for r := snap.Next(); r != nil; r = snap.Next() {
			if err := rest.Apply(r); err != nil {
				panic(err)
			}
		}
		rest.Commit()
		e.restored = true
		e.commits = append(e.commits, commit{pseudo: true, seq: len(e.commits) + 1})
		e.snapshotState()
		e.lastRestore = len(e.commits)
		if e.lockLevel {
			return // the watcher threads consume themselves; checked at quiescence
		}
		e.pump()
		for _, w := range e.ws {
			if w.opened && !w.closed {
				e.violate("C18:watch-survives-restore", fmt.Sprintf("watch %s is still open after the store was restored", w.spec.label))
			}
		}
	}
}

func matches(sp wspec, k string) bool {
	name := k[strings.IndexByte(k, '/')+1:]
	return (sp.ns == "*" || strings.HasPrefix(k, sp.ns+"/")) && strings.HasPrefix(name, sp.prefix)
}

func (e *wexec) open(w *watcher) {
	ten := &pbresource.Tenancy{Partition: "default", Namespace: w.spec.ns}
	if w.spec.ns == "*" {
		ten = &pbresource.Tenancy{Partition: storage.Wildcard, Namespace: storage.Wildcard}
	}
	ww, err := e.be.VerifStore().WatchList(storage.UnversionedTypeFrom(resType), ten, w.spec.prefix)
	if err != nil {
		e.violate("C18:watch-fails", err.Error())
		return
	}
	w.w, w.opened = ww, true
	w.afterRestore = e.restored
	w.initial, w.gotInit, w.pos = map[string]string{}, map[string]string{}, map[string]int{}
	for k, r := range e.cur {
		if matches(w.spec, k) {
			w.initial[k] = r.Version
		}
	}
	w.after = len(e.commits)
	w.created = len(e.commits)
	w.notBefore = e.lastRestore
}

// seqOf finds the commit a delivered event corresponds to.
func (e *wexec) seqOf(k, version string, deleted bool) int {
	for _, c := range e.commits {
		if !c.pseudo && c.key == k && c.version == version && c.deleted == deleted {
			return c.seq
		}
	}
	return -1
}

func (e *wexec) pump() {
	for _, w := range e.ws {
		e.pumpOne(w)
	}
}

// pumpOne lets one watcher consume whatever is deliverable to it now.
func (e *wexec) pumpOne(w *watcher) {
	{
		for w.opened && !w.closed {
			evt, err, ok := w.w.VerifNextNoBlock()
			if !ok {
				break
			}
			if err != nil {
				if errors.Is(err, storage.ErrWatchClosed) {
					w.closed = true
					e.trace = append(e.trace, w.spec.label+".closed")
					if !e.restored || w.afterRestore {
						e.violate("C18:watch-closed-without-restore", w.spec.label)
					}
					break
				}
				e.violate("C18:watch-error", fmt.Sprintf("%s: %v", w.spec.label, err))
				w.closed = true
				break
			}
			switch {
			case evt.GetEndOfSnapshot() != nil:
				w.snapDone = true
				e.trace = append(e.trace, fmt.Sprintf("%s.end-of-listing%v", w.spec.label, sortedKV(w.gotInit)))
				// The listing must be the matching resources after some commit T0 not later than the watch's
				// creation: normally the creation itself, earlier when the publisher serves the snapshot it
				// cached for an earlier watch on the same subject (never older than the last restore, which
				// evicts the cache). Every such T0 stays a candidate; live events then narrow them down.
				for t := w.created; t >= w.notBefore && t < len(e.hist); t-- {
					m := map[string]string{}
					for k, v := range e.hist[t] {
						if matches(w.spec, k) {
							m[k] = v
						}
					}
					if fmt.Sprint(sortedKV(m)) == fmt.Sprint(sortedKV(w.gotInit)) {
						w.cands = append(w.cands, t)
					}
				}
				if len(w.cands) == 0 {
					cls := "incomplete"
					if len(w.gotInit) > len(w.initial) {
						cls = "extra"
					} else if len(w.gotInit) == len(w.initial) {
						cls = "wrong-versions"
					}
					e.violate("C18:initial-listing-"+cls, fmt.Sprintf("watch %s: listing %v; resources matching when the watch was created %v; no state of the store since the last restore matches the listing", w.spec.label, sortedKV(w.gotInit), sortedKV(w.initial)))
					w.cands = []int{w.created}
				}
				w.minCand = w.cands[len(w.cands)-1]
			case evt.GetUpsert() != nil || evt.GetDelete() != nil:
				var r *pbresource.Resource
				del := evt.GetDelete() != nil
				if del {
					r = evt.GetDelete().GetResource()
				} else {
					r = evt.GetUpsert().GetResource()
				}
				k := key(r.Id.Tenancy.Namespace, r.Id.Name)
				if !matches(w.spec, k) {
					e.violate("C18:event-outside-watched-tenancy", fmt.Sprintf("watch %s received %s", w.spec.label, k))
				}
				if !w.snapDone {
					if del {
						e.violate("C18:delete-in-initial-listing", k)
					}
					w.gotInit[k] = r.Version
					continue
				}
				seq := e.seqOf(k, r.Version, del)
				e.trace = append(e.trace, fmt.Sprintf("%s.event(%s v%s del=%v)", w.spec.label, k, r.Version, del))
				if seq < 0 {
					e.violate("C18:event-for-unknown-commit", fmt.Sprintf("watch %s: %s v%s", w.spec.label, k, r.Version))
					continue
				}
				// which listing points are still consistent with receiving this commit now?
				var keep []int
				for _, t := range w.cands {
					ok := seq > t
					for _, c := range e.commits {
						if ok && c.key == k && !c.pseudo && c.seq > t && c.seq < seq && !w.got[c.seq] {
							ok = false
						}
					}
					if ok {
						keep = append(keep, t)
					}
				}
				switch {
				case len(keep) > 0:
					w.cands = keep
				case seq <= w.minCand:
					e.violate("C18:event-older-than-listing", fmt.Sprintf("watch %s received %s v%s (commit %d) after a listing that already reflects commit %d", w.spec.label, k, r.Version, seq, w.minCand))
				case seq <= w.pos[k]:
					e.violate("C18:events-out-of-commit-order", fmt.Sprintf("watch %s: %s commit %d delivered after commit %d", w.spec.label, k, seq, w.pos[k]))
				default:
					e.violate("C18:event-skipped", fmt.Sprintf("watch %s: %s commit %d delivered although an earlier commit of it since the listing never was (listing points still possible: %v)", w.spec.label, k, seq, w.cands))
				}
				if w.got == nil {
					w.got = map[int]bool{}
				}
				w.got[seq] = true
				if seq > w.pos[k] {
					w.pos[k] = seq
				}
				// a read made after receiving an event never returns older data
				got, err := e.be.Read(ctx, storage.StrongConsistency, rid(r.Id.Name, r.Id.Tenancy.Namespace, ""))
				latest := -1
				for _, c := range e.commits {
					if c.key == k && !c.pseudo {
						latest = c.seq
					}
				}
				if err == nil {
					if s := e.seqOf(k, got.Version, false); s < seq {
						e.violate("C18:read-after-event-returns-older-data", fmt.Sprintf("%s: event commit %d, read returns v%s (commit %d)", k, seq, got.Version, s))
					}
				} else if !errors.Is(err, storage.ErrNotFound) || (seq == latest && !del) {
					e.violate("C18:read-after-event-returns-older-data", fmt.Sprintf("%s: event commit %d, read returns %v", k, seq, err))
				}
			}
		}
	}
}

func sortedKV(m map[string]string) []string {
	var out []string
	for k, v := range m {
		out = append(out, k+"@"+v)
	}
	sort.Strings(out)
	return out
}

func (e *wexec) enabled() []string {
	var out []string
	for i, prog := range e.sc.writers {
		if e.pcs[i] < len(prog) {
			out = append(out, fmt.Sprintf("T%d", i))
		}
	}
	if e.be.VerifStore().VerifPublisher().VerifQueued() > 0 {
		out = append(out, "P")
	}
	for i, w := range e.ws {
		if !w.opened {
			out = append(out, fmt.Sprintf("W%d", i))
		}
	}
	return out
}

func (e *wexec) step(a string) {
	var i int
	switch a[0] {
	case 'T':
		fmt.Sscanf(a, "T%d", &i)
		s := e.sc.writers[i][e.pcs[i]]
		e.pcs[i]++
		e.trace = append(e.trace, fmt.Sprintf("%s(%s/%s)", s.kind, s.ns, s.name))
		e.doStep(s)
	case 'P':
		e.trace = append(e.trace, "publish")
		e.be.VerifStore().VerifPublisher().VerifDrainOne()
	case 'W':
		fmt.Sscanf(a, "W%d", &i)
		e.trace = append(e.trace, e.ws[i].spec.label+".watch")
		e.open(e.ws[i])
	}
	e.pump()
}

func runW(sc *wscenario, prefix []int) (*wexec, []int, []int) {
	be, err := inmem.NewBackend()
	if err != nil {
		panic(err)
	}
	e := &wexec{sc: sc, be: be, cur: map[string]*pbresource.Resource{}, pcs: make([]int, len(sc.writers)), hist: []map[string]string{{}}}
	for _, s := range sc.seed {
		e.doStep(s)
	}
	for be.VerifStore().VerifPublisher().VerifDrainOne() {
	}
	for i, ws := range sc.watchers {
		ws.label = fmt.Sprintf("%s#%d", ws.label, i+1)
		e.ws = append(e.ws, &watcher{spec: ws})
	}
	var alts, choices []int
	for pos := 0; ; pos++ {
		en := e.enabled()
		if len(en) == 0 {
			break
		}
		c := 0
		if pos < len(prefix) {
			c = prefix[pos]
			if c >= len(en) {
				panic(fmt.Sprintf("replay divergence: %v", e.trace))
			}
		}
		alts = append(alts, len(en))
		choices = append(choices, c)
		e.step(en[c])
	}
	e.quiesce()
	return e, alts, choices
}

// quiesce: every open watch has seen its listing and every later commit of its tenancy
func (e *wexec) quiesce() {
	for _, w := range e.ws {
		if !w.opened || w.closed {
			continue
		}
		if !w.snapDone {
			e.violate("C18:initial-listing-never-completed", w.spec.label)
			continue
		}
		// some listing point must explain everything: every later commit of the tenancy was delivered
		okAny := false
		var missing string
		for _, t := range w.cands {
			ok := true
			for _, c := range e.commits {
				if !c.pseudo && c.seq > t && matches(w.spec, c.key) && !w.got[c.seq] {
					ok = false
					if missing == "" {
						missing = fmt.Sprintf("%s commit %d (v%s del=%v) for listing point %d", c.key, c.seq, c.version, c.deleted, t)
					}
					break
				}
			}
			if ok {
				okAny = true
				break
			}
		}
		if !okAny {
			e.violate("C18:event-missing-at-quiescence", fmt.Sprintf("watch %s: everything is published and consumed but it never received %s", w.spec.label, missing))
		}
		w.w.Close()
	}
}

func wscenarios(quick bool) []*wscenario {
	wr := func(name, ns, data string) wstep { return wstep{kind: "write", name: name, ns: ns, data: data} }
	del := func(name, ns string) wstep { return wstep{kind: "delete", name: name, ns: ns} }
	restore := wstep{kind: "restore"}
	seed := []wstep{wr("r1", "default", "s"), wr("r2", "other", "s")}
	wDef, wOther, wAll := wspec{label: "watch(default)", ns: "default"}, wspec{label: "watch(other)", ns: "other"}, wspec{label: "watch(*)", ns: "*"}
	var out []*wscenario
	add := func(label string, seed []wstep, writers [][]wstep, watchers ...wspec) {
		out = append(out, &wscenario{label: label, seed: seed, writers: writers, watchers: watchers})
	}
	progs := map[string][][]wstep{
		"update r1 twice":                  {{wr("r1", "default", "a"), wr("r1", "default", "b")}},
		"update r1, delete r1, re-create":  {{wr("r1", "default", "a"), del("r1", "default"), wr("r1", "default", "c")}},
		"two writers on r1 and r3":         {{wr("r1", "default", "a"), wr("r1", "default", "b")}, {wr("r3", "default", "x"), del("r3", "default")}},
		"writers in two namespaces":        {{wr("r1", "default", "a")}, {wr("r2", "other", "b"), wr("r4", "other", "c")}},
		"restore in the middle":            {{wr("r1", "default", "a"), restore, wr("r1", "default", "b")}},
		"write while a restore is loading": {{wr("r1", "default", "a"), wstep{kind: "restore-begin"}, wr("r5", "default", "lost"), wstep{kind: "restore-commit"}, wr("r1", "default", "b")}},
	}
	var names []string
	for n := range progs {
		names = append(names, n)
	}
	sort.Strings(names)
	for _, n := range names {
		for _, sd := range [][]wstep{nil, seed} {
			sl := "empty"
			if sd != nil {
				sl = "seeded"
			}
			add(n+" / "+sl+" / one watcher (default)", sd, progs[n], wDef)
			add(n+" / "+sl+" / one watcher (wildcard)", sd, progs[n], wAll)
			add(n+" / "+sl+" / watchers on sibling namespaces", sd, progs[n], wDef, wOther)
			// two listings of one tenancy with different name prefixes: they share the cached snapshot of that subject
			add(n+" / "+sl+" / a name-prefix watcher next to a full one", sd, progs[n], wspec{label: "watch(default,prefix r1)", ns: "default", prefix: "r1"}, wDef)
			if !quick {
				add(n+" / "+sl+" / two watchers on one tenancy + wildcard", sd, progs[n], wDef, wDef, wAll)
			}
		}
	}
	return out
}

func partW(c *ev.Ctx) {
	scs := wscenarios(c.Quick())
	var total, events int64
	var next int64 = -1
	var wg sync.WaitGroup
	outcomes := sync.Map{}
	for wk := 0; wk < runtime.NumCPU(); wk++ {
		wg.Add(1)
		go func() {
			defer wg.Done()
			for {
				i := int(atomic.AddInt64(&next, 1))
				if i >= len(scs) || c.Expired() {
					return
				}
				sc := scs[i]
				var rec func(prefix []int)
				rec = func(prefix []int) {
					e, alts, choices := runW(sc, prefix)
					atomic.AddInt64(&total, 1)
					n := 0
					for _, w := range e.ws {
						n += len(w.pos) + len(w.gotInit)
					}
					atomic.AddInt64(&events, int64(n))
					var oc []string
					for _, w := range e.ws {
						oc = append(oc, fmt.Sprint(sortedKV(w.gotInit), w.pos, w.closed))
					}
					outcomes.Store(strings.Join(oc, "|"), true)
					for _, v := range e.viol {
						c.Violate(v[0], v[1]+"\nscenario: "+sc.label, map[string]any{"scenario": sc.label, "schedule": e.trace, "choices": choices})
					}
					for p := len(prefix); p < len(alts); p++ {
						for alt := 1; alt < alts[p]; alt++ {
							np := make([]int, p+1)
							copy(np, choices[:p])
							np[p] = alt
							rec(np)
						}
					}
				}
				rec(nil)
			}
		}()
	}
	wg.Wait()
	nOut := 0
	outcomes.Range(func(k, v any) bool { nOut++; return true })
	c.Set("watch_scenarios", len(scs))
	c.Set("watch_schedules", total)
	c.Set("watch_events_checked", events)
	c.Set("watch_distinct_outcomes", nOut)
}

func Run(c *ev.Ctx) {
	vtime.ParkTimers(true)
	defer vtime.ParkTimers(false)
	partL(c)
	partD(c)
	partLW(c)
	partW(c)
	partS(c)
	var l, w int64
	if v, ok := c.Cov["lock_level_schedules"].(int64); ok {
		l = v
	}
	if v, ok := c.Cov["watch_schedules"].(int64); ok {
		w = v
	}
	c.Set("schedules", l+w)
	c.Set("states", l+w)
	c.Set("transitions", l+w)
	c.Set("traces_validated_against_impl", l+w)
	c.Set("rule", "lock level: 12 scenarios of 2-3 threads (CAS writers with current/stale/empty versions and current/previous/foreign uids, CAS deleters, readers) on the real inmem.Backend, every interleaving of their lock acquisitions (sync.Mutex/RWMutex of package inmem are scheduling points), each history checked for linearizability against the sequential storage contract plus the one-winner-per-version and uid-lifetime rules; action level: every interleaving of writes/deletes/restore, publication of one queued event batch and watch creation (1-3 watchers: exact tenancy, sibling namespace, wildcard) with eager consumption, watch oracles on every delivery")
	c.Sample(map[string]any{"lock_level_example": lscenarios()[6].label, "watch_example": wscenarios(true)[3].label})
	c.Assume("go-memdb admits one write transaction at a time, so a check and an insert inside one write transaction are atomic; scheduling points are the lock acquisitions of package inmem and the boundaries of harness operations")
	c.Assume("unsynchronised memory accesses are outside what a cooperative scheduler can see")
}

// ---- part S: the resource service on top of the backend (uid lifetimes, version CAS) --------------------------------

type svcACL struct{}

func (svcACL) ResolveTokenAndDefaultMeta(_ string, entMeta *acl.EnterpriseMeta, authzContext *acl.AuthorizerContext) (resolver.Result, error) {
	if entMeta != nil {
		entMeta.Merge(structs.DefaultEnterpriseMetaInDefaultPartition())
	}
	return resolver.Result{Authorizer: acl.ManageAll()}, nil
}

type svcTenancy struct{}

func (svcTenancy) PartitionExists(string) (bool, error)                      { return true, nil }
func (svcTenancy) IsPartitionMarkedForDeletion(string) (bool, error)         { return false, nil }
func (svcTenancy) NamespaceExists(string, string) (bool, error)              { return true, nil }
func (svcTenancy) IsNamespaceMarkedForDeletion(string, string) (bool, error) { return false, nil }

func partS(c *ev.Ctx) {
	type lifetime struct{ uid, version string }
	mk := func() (*svcresource.Server, *inmem.Backend) {
		be, err := inmem.NewBackend()
		if err != nil {
			panic(err)
		}
		reg := resource.NewRegistry()
		demo.RegisterTypes(reg)
		return svcresource.NewServer(svcresource.Config{Logger: hclog.NewNullLogger(), Registry: reg, Backend: be, ACLResolver: svcACL{}, TenancyBridge: svcTenancy{}}), be
	}
	artist := func(uid, version, genre string) *pbresource.Resource {
		r, err := demo.GenerateV2Artist()
		if err != nil {
			panic(err)
		}
		r.Id.Name = "band"
		r.Id.Uid = uid
		r.Version = version
		r.Metadata = map[string]string{"genre": genre}
		return r
	}
	read := func(be *inmem.Backend) *pbresource.Resource {
		r, err := be.Read(ctx, storage.StrongConsistency, &pbresource.ID{Type: demo.TypeV2Artist, Tenancy: resource.DefaultNamespacedTenancy(), Name: "band"})
		if err != nil {
			return nil
		}
		return r
	}
	var cells, applied int64
	for _, state := range []string{"absent", "present", "re-created", "deleted-after-two-lifetimes"} {
		for _, kind := range []string{"delete", "write"} {
			for _, uidSel := range []string{"none", "current", "previous"} {
				for _, verSel := range []string{"none", "current", "older-of-this-lifetime", "previous-lifetime"} {
					srv, be := mk()
					var prev, cur, older lifetime
					past := map[string]bool{} // the UID of every lifetime so far
					create := func() lifetime {
						rsp, err := srv.Write(ctx, &pbresource.WriteRequest{Resource: artist("", "", "seed")})
						if err != nil {
							panic(err)
						}
						past[rsp.Resource.Id.Uid] = true
						return lifetime{rsp.Resource.Id.Uid, rsp.Resource.Version}
					}
					update := func(l lifetime) lifetime {
						rsp, err := srv.Write(ctx, &pbresource.WriteRequest{Resource: artist(l.uid, l.version, "updated")})
						if err != nil {
							panic(err)
						}
						return lifetime{rsp.Resource.Id.Uid, rsp.Resource.Version}
					}
					drop := func() {
						if _, err := srv.Delete(ctx, &pbresource.DeleteRequest{Id: &pbresource.ID{Type: demo.TypeV2Artist, Tenancy: resource.DefaultNamespacedTenancy(), Name: "band"}}); err != nil {
							panic(err)
						}
					}
					exists := false
					switch state {
					case "present":
						older = create()
						cur = update(older)
						exists = true
					case "re-created":
						prev = update(create())
						drop()
						older = create()
						cur = update(older)
						exists = true
					case "deleted-after-two-lifetimes":
						prev = update(create())
						drop()
						older = create()
						cur = update(older)
						drop()
						prev, cur, older = cur, lifetime{}, lifetime{}
					}
					uid := map[string]string{"none": "", "current": cur.uid, "previous": prev.uid}[uidSel]
					ver := map[string]string{"none": "", "current": cur.version, "older-of-this-lifetime": older.version, "previous-lifetime": prev.version}[verSel]
					if (uidSel != "none" && uid == "") || (verSel != "none" && ver == "") {
						continue // that selector does not exist in this state
					}
					before := read(be)
					var err error
					if kind == "delete" {
						_, err = srv.Delete(ctx, &pbresource.DeleteRequest{Id: &pbresource.ID{Type: demo.TypeV2Artist, Tenancy: resource.DefaultNamespacedTenancy(), Name: "band", Uid: uid}, Version: ver})
					} else {
						_, err = srv.Write(ctx, &pbresource.WriteRequest{Resource: artist(uid, ver, "request")})
					}
					after := read(be)
					changed := (before == nil) != (after == nil) || (before != nil && after != nil && (before.Version != after.Version || before.Id.Uid != after.Id.Uid))
					cells++
					if changed {
						applied++
					}
					// allowed: the request addresses the current lifetime (or none in particular) and, if it
					// presents a version, that version is the current one
					allowed := (uidSel == "none" || uidSel == "current") && (verSel == "none" || verSel == "current")
					if !exists {
						allowed = kind == "write" && verSel == "none" // creation; deleting nothing changes nothing
					}
					desc := fmt.Sprintf("state %s, %s(uid=%s, version=%s): err=%v, resource %s -> %s", state, kind, uidSel, verSel, err, resLabel(before), resLabel(after))
					rp := map[string]any{"state": state, "request": kind, "uid": uidSel, "version": verSel}
					switch {
					case changed && !allowed:
						why := "stale-version"
						if uidSel == "previous" {
							why = "previous-lifetime-uid"
						}
						c.Violate(fmt.Sprintf("C18:service-%s-with-%s-changed-the-resource:uid=%s", kind, why, uidSel), desc, rp)
					case !changed && allowed && err != nil:
						c.Violate(fmt.Sprintf("C18:service-%s-refused-although-current", kind), desc, rp)
					case !changed && !allowed && err == nil && exists && verSel != "none" && uidSel != "previous":
						c.Violate(fmt.Sprintf("C18:service-%s-with-stale-version-reports-success", kind), desc, rp)
					}
					if before == nil && after != nil && past[after.Id.Uid] {
						c.Violate("C18:service-write-recreated-the-resource-under-the-uid-of-an-earlier-lifetime:uid="+uidSel, desc, rp)
					}
					if after != nil && before != nil && after.Id.Uid != before.Id.Uid && kind == "write" {
						c.Violate("C18:service-write-changed-uid-within-a-lifetime", desc, rp)
					}
				}
			}
		}
	}
	c.Set("service_cells", cells)
	c.Set("service_cells_applied", applied)
}

func resLabel(r *pbresource.Resource) string {
	if r == nil {
		return "<absent>"
	}
	return fmt.Sprintf("{uid %s version %s}", r.Id.Uid[len(r.Id.Uid)-4:], r.Version)
}
