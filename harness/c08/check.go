// Package c08: ACL decisions follow rule semantics and depend only on the token's own policies.
package c08

import (
	"fmt"
	"runtime"
	"sort"
	"strings"
	"sync"
	"sync/atomic"

	"github.com/hashicorp/consul/acl"
	"github.com/hashicorp/consul/agent/structs"
	"github.com/hashicorp/consul/internal/verifmc/ev"
)

// ---- reference semantics ------------------------------------------------------------------------

type level int

const (
	none level = iota
	deny
	read
	list
	write
)

var levelName = map[level]string{deny: "deny", read: "read", list: "list", write: "write"}

// stronger: deny overrides write overrides list overrides read
func stronger(a, b level) level {
	rank := func(l level) int {
		switch l {
		case deny:
			return 4
		case write:
			return 3
		case list:
			return 2
		case read:
			return 1
		}
		return 0
	}
	if rank(a) >= rank(b) {
		return a
	}
	return b
}

type rule struct {
	name   string
	prefix bool
	lvl    level
}

// decide: exact rule wins, else longest matching prefix rule, else default.
// returns 1 allow, 0 deny, -1 default
func decide(rules []rule, name string, want level) int {
	merged := map[string]level{}
	for _, r := range rules {
		if r.lvl == none {
			continue
		}
		k := fmt.Sprintf("%v|%s", r.prefix, r.name)
		merged[k] = stronger(merged[k], r.lvl)
	}
	var eff level
	if l, ok := merged["false|"+name]; ok {
		eff = l
	} else {
		best := -1
		for k, l := range merged {
			if !strings.HasPrefix(k, "true|") {
				continue
			}
			p := strings.TrimPrefix(k, "true|")
			if strings.HasPrefix(name, p) && len(p) > best {
				best = len(p)
				eff = l
			}
		}
		if best < 0 {
			return -1
		}
	}
	switch eff {
	case deny:
		return 0
	case write:
		return 1
	case list:
		if want == list || want == read {
			return 1
		}
		return 0
	case read:
		if want == read {
			return 1
		}
		return 0
	}
	return -1
}

func final(d int, dflt bool) bool {
	if d == 1 {
		return true
	}
	if d == 0 {
		return false
	}
	return dflt
}

// ---- kinds ----------------------------------------------------------------------------------------

type kind struct {
	name    string // HCL block name; prefix block is name+"_prefix"
	hasList bool
	read    func(a acl.Authorizer, n string) acl.EnforcementDecision
	write   func(a acl.Authorizer, n string) acl.EnforcementDecision
	listFn  func(a acl.Authorizer, n string) acl.EnforcementDecision
}

var kinds = []kind{
	{"agent", false, func(a acl.Authorizer, n string) acl.EnforcementDecision { return a.AgentRead(n, nil) }, func(a acl.Authorizer, n string) acl.EnforcementDecision { return a.AgentWrite(n, nil) }, nil},
	{"event", false, func(a acl.Authorizer, n string) acl.EnforcementDecision { return a.EventRead(n, nil) }, func(a acl.Authorizer, n string) acl.EnforcementDecision { return a.EventWrite(n, nil) }, nil},
	{"key", true, func(a acl.Authorizer, n string) acl.EnforcementDecision { return a.KeyRead(n, nil) }, func(a acl.Authorizer, n string) acl.EnforcementDecision { return a.KeyWrite(n, nil) }, func(a acl.Authorizer, n string) acl.EnforcementDecision { return a.KeyList(n, nil) }},
	{"node", false, func(a acl.Authorizer, n string) acl.EnforcementDecision { return a.NodeRead(n, nil) }, func(a acl.Authorizer, n string) acl.EnforcementDecision { return a.NodeWrite(n, nil) }, nil},
	{"query", false, func(a acl.Authorizer, n string) acl.EnforcementDecision { return a.PreparedQueryRead(n, nil) }, func(a acl.Authorizer, n string) acl.EnforcementDecision { return a.PreparedQueryWrite(n, nil) }, nil},
	{"service", false, func(a acl.Authorizer, n string) acl.EnforcementDecision { return a.ServiceRead(n, nil) }, func(a acl.Authorizer, n string) acl.EnforcementDecision { return a.ServiceWrite(n, nil) }, nil},
	{"session", false, func(a acl.Authorizer, n string) acl.EnforcementDecision { return a.SessionRead(n, nil) }, func(a acl.Authorizer, n string) acl.EnforcementDecision { return a.SessionWrite(n, nil) }, nil},
}

func hcl(k kind, rules []rule) string {
	var sb strings.Builder
	for _, r := range rules {
		if r.lvl == none {
			continue
		}
		b := k.name
		if r.prefix {
			b += "_prefix"
		}
		fmt.Fprintf(&sb, "%s %q { policy = %q }\n", b, r.name, levelName[r.lvl])
	}
	return sb.String()
}

func compile(sources []string) (acl.Authorizer, error) {
	var pols []*acl.Policy
	for _, s := range sources {
		p, err := acl.NewPolicyFromSource(s, nil, nil)
		if err != nil {
			return nil, err
		}
		pols = append(pols, p)
	}
	return acl.NewPolicyAuthorizer(pols, nil)
}

var queryNames = []string{"", "a", "ab", "abc", "b"}

func allowed(d acl.EnforcementDecision, dflt bool) bool {
	switch d {
	case acl.Allow:
		return true
	case acl.Deny:
		return false
	}
	return dflt
}

type counter struct {
	mu       sync.Mutex
	evals    int64
	vectors  map[string]bool
	policies int64
}

// checkNamed compares every decision of authz for kind k with the reference over rules.
func checkNamed(c *ev.Ctx, cnt *counter, k kind, policies [][]rule, authz acl.Authorizer, what string) {
	var all []rule
	for _, p := range policies {
		all = append(all, p...)
	}
	var vec strings.Builder
	n := int64(0)
	for _, name := range queryNames {
		for _, dflt := range []bool{false, true} {
			chain := acl.NewChainedAuthorizer([]acl.Authorizer{authz, root(dflt)})
			type q struct {
				what string
				want level
				fn   func(a acl.Authorizer, n string) acl.EnforcementDecision
			}
			qs := []q{{"read", read, k.read}, {"write", write, k.write}}
			if k.hasList {
				qs = append(qs, q{"list", list, k.listFn})
			}
			for _, qq := range qs {
				n++
				got := allowed(qq.fn(chain, name), dflt)
				want := final(decide(all, name, qq.want), dflt)
				if got {
					vec.WriteByte('1')
				} else {
					vec.WriteByte('0')
				}
				if got != want {
					var src []string
					for _, p := range policies {
						src = append(src, strings.TrimSpace(strings.ReplaceAll(hcl(k, p), "\n", "; ")))
					}
					c.Violate(fmt.Sprintf("C08:decision-differs-from-rule-semantics:%s:%s:%s", what, k.name, qq.what),
						fmt.Sprintf("%s %s on %q (default allow=%v): authorizer says %v, documented semantics say %v\npolicies: %s", k.name, qq.what, name, dflt, got, want, strings.Join(src, " || ")),
						map[string]any{"kind": k.name, "policies": src, "name": name, "access": qq.what, "default_allow": dflt})
				}
			}
		}
	}
	cnt.mu.Lock()
	cnt.evals += n
	cnt.vectors[k.name+":"+vec.String()] = true
	cnt.mu.Unlock()
}

func root(allow bool) acl.Authorizer {
	if allow {
		return acl.AllowAll()
	}
	return acl.DenyAll()
}

func slotsFor(quick bool) []rule {
	s := []rule{{"a", false, 0}, {"ab", false, 0}, {"", true, 0}, {"a", true, 0}, {"ab", true, 0}}
	if !quick {
		s = append(s, rule{"", false, 0})
	}
	return s
}

func levelsFor(k kind) []level {
	if k.hasList {
		return []level{none, deny, read, list, write}
	}
	return []level{none, deny, read, write}
}

// enumerate all assignments of levels to slots
func assignments(slots []rule, lv []level, fn func([]rule)) {
	cur := make([]rule, len(slots))
	copy(cur, slots)
	var rec func(i int)
	rec = func(i int) {
		if i == len(slots) {
			fn(append([]rule{}, cur...))
			return
		}
		for _, l := range lv {
			cur[i].lvl = l
			rec(i + 1)
		}
	}
	rec(0)
}

func parallel(n int, fn func(i int)) {
	var next int64 = -1
	var wg sync.WaitGroup
	for w := 0; w < runtime.NumCPU(); w++ {
		wg.Add(1)
		go func() {
			defer wg.Done()
			for {
				i := int(atomic.AddInt64(&next, 1))
				if i >= n {
					return
				}
				fn(i)
			}
		}()
	}
	wg.Wait()
}

func Run(c *ev.Ctx) {
	quick := c.Quick()
	cnt := &counter{vectors: map[string]bool{}}

	// (a1) single policy, every rule set over the slot grid, every kind
	for _, k := range kinds {
		k := k
		var sets [][]rule
		assignments(slotsFor(quick), levelsFor(k), func(r []rule) { sets = append(sets, r) })
		parallel(len(sets), func(i int) {
			if c.Expired() {
				return
			}
			a, err := compile([]string{hcl(k, sets[i])})
			if err != nil {
				c.Violate("C08:policy-rejected:"+k.name, err.Error()+"\n"+hcl(k, sets[i]), nil)
				return
			}
			atomic.AddInt64(&cnt.policies, 1)
			checkNamed(c, cnt, k, [][]rule{sets[i]}, a, "single-policy")
		})
	}

	// (a2) two policies over 3 slots each, both orders; (a3) three policies over 2 slots (service, key)
	two := []rule{{"a", false, 0}, {"", true, 0}, {"a", true, 0}}
	for _, k := range kinds {
		k := k
		var sets [][]rule
		assignments(two, levelsFor(k), func(r []rule) { sets = append(sets, r) })
		type pair struct{ i, j int }
		var pairs []pair
		for i := range sets {
			for j := range sets {
				if quick && (i+j)%3 != 0 && k.name != "service" && k.name != "key" {
					continue
				}
				pairs = append(pairs, pair{i, j})
			}
		}
		parallel(len(pairs), func(n int) {
			if c.Expired() {
				return
			}
			p := pairs[n]
			a, err := compile([]string{hcl(k, sets[p.i]), hcl(k, sets[p.j])})
			if err != nil {
				return
			}
			atomic.AddInt64(&cnt.policies, 2)
			checkNamed(c, cnt, k, [][]rule{sets[p.i], sets[p.j]}, a, "two-policies")
		})
	}
	three := []rule{{"a", false, 0}, {"a", true, 0}}
	for _, k := range []kind{kinds[5], kinds[2], kinds[3]} {
		k := k
		var sets [][]rule
		assignments(three, levelsFor(k), func(r []rule) { sets = append(sets, r) })
		n := len(sets)
		parallel(n*n*n, func(x int) {
			if c.Expired() {
				return
			}
			i, j, l := x/(n*n), (x/n)%n, x%n
			a, err := compile([]string{hcl(k, sets[i]), hcl(k, sets[j]), hcl(k, sets[l])})
			if err != nil {
				return
			}
			atomic.AddInt64(&cnt.policies, 3)
			checkNamed(c, cnt, k, [][]rule{sets[i], sets[j], sets[l]}, a, "three-policies")
		})
	}

	// (a4) scalar rules: acl, keyring, operator, mesh, peering (mesh and peering fall back to operator)
	scalars := []string{"acl", "keyring", "operator", "mesh", "peering"}
	slv := []level{none, deny, read, write}
	type sp [5]level
	var sset []sp
	var recS func(i int, cur sp)
	recS = func(i int, cur sp) {
		if i == 5 {
			sset = append(sset, cur)
			return
		}
		for _, l := range slv {
			cur[i] = l
			recS(i+1, cur)
		}
	}
	recS(0, sp{})
	shcl := func(p sp) string {
		var sb strings.Builder
		for i, s := range scalars {
			if p[i] != none {
				fmt.Fprintf(&sb, "%s = %q\n", s, levelName[p[i]])
			}
		}
		return sb.String()
	}
	checkScalar := func(ps []sp, a acl.Authorizer, what string) {
		var m sp
		for _, p := range ps {
			for i := range m {
				m[i] = stronger(m[i], p[i])
			}
		}
		eff := m
		if eff[3] == none {
			eff[3] = m[2]
		}
		if eff[4] == none {
			eff[4] = m[2]
		}
		fns := []struct {
			name string
			idx  int
			want level
			fn   func(a acl.Authorizer) acl.EnforcementDecision
		}{
			{"acl read", 0, read, func(a acl.Authorizer) acl.EnforcementDecision { return a.ACLRead(nil) }},
			{"acl write", 0, write, func(a acl.Authorizer) acl.EnforcementDecision { return a.ACLWrite(nil) }},
			{"keyring read", 1, read, func(a acl.Authorizer) acl.EnforcementDecision { return a.KeyringRead(nil) }},
			{"keyring write", 1, write, func(a acl.Authorizer) acl.EnforcementDecision { return a.KeyringWrite(nil) }},
			{"operator read", 2, read, func(a acl.Authorizer) acl.EnforcementDecision { return a.OperatorRead(nil) }},
			{"operator write", 2, write, func(a acl.Authorizer) acl.EnforcementDecision { return a.OperatorWrite(nil) }},
			{"mesh read", 3, read, func(a acl.Authorizer) acl.EnforcementDecision { return a.MeshRead(nil) }},
			{"mesh write", 3, write, func(a acl.Authorizer) acl.EnforcementDecision { return a.MeshWrite(nil) }},
			{"peering read", 4, read, func(a acl.Authorizer) acl.EnforcementDecision { return a.PeeringRead(nil) }},
			{"peering write", 4, write, func(a acl.Authorizer) acl.EnforcementDecision { return a.PeeringWrite(nil) }},
		}
		var vec strings.Builder
		for _, dflt := range []bool{false, true} {
			chain := acl.NewChainedAuthorizer([]acl.Authorizer{a, root(dflt)})
			for _, f := range fns {
				got := allowed(f.fn(chain), dflt)
				d := -1
				switch eff[f.idx] {
				case deny:
					d = 0
				case write:
					d = 1
				case read:
					if f.want == read {
						d = 1
					} else {
						d = 0
					}
				}
				want := final(d, dflt)
				if f.idx == 0 && d == -1 {
					want = false // ACL management is never granted by the default policy
				}
				if got {
					vec.WriteByte('1')
				} else {
					vec.WriteByte('0')
				}
				if got != want {
					var src []string
					for _, p := range ps {
						src = append(src, strings.TrimSpace(strings.ReplaceAll(shcl(p), "\n", "; ")))
					}
					c.Violate("C08:scalar-decision-differs:"+what+":"+strings.ReplaceAll(f.name, " ", "-"),
						fmt.Sprintf("%s (default allow=%v): authorizer says %v, documented semantics say %v\npolicies: %s", f.name, dflt, got, want, strings.Join(src, " || ")), map[string]any{"policies": src})
				}
			}
		}
		cnt.mu.Lock()
		cnt.evals += 20
		cnt.vectors["scalar:"+vec.String()] = true
		cnt.mu.Unlock()
	}
	parallel(len(sset), func(i int) {
		a, err := compile([]string{shcl(sset[i])})
		if err == nil {
			checkScalar([]sp{sset[i]}, a, "single-policy")
		}
	})
	// two policies over operator/mesh/peering (+ acl, keyring fixed none)
	var tri []sp
	for _, o := range slv {
		for _, m := range slv {
			for _, p := range slv {
				tri = append(tri, sp{none, none, o, m, p})
			}
		}
	}
	parallel(len(tri)*len(tri), func(x int) {
		i, j := x/len(tri), x%len(tri)
		a, err := compile([]string{shcl(tri[i]), shcl(tri[j])})
		if err == nil {
			checkScalar([]sp{tri[i], tri[j]}, a, "two-policies")
		}
	})
	for _, x := range slv {
		for _, y := range slv {
			a, err := compile([]string{shcl(sp{x, y, none, none, none}), shcl(sp{y, x, none, none, none})})
			if err == nil {
				checkScalar([]sp{{x, y, none, none, none}, {y, x, none, none, none}}, a, "two-policies")
			}
		}
	}

	// (b) cache interference: tokens sharing policies compiled through one set of caches
	cacheHistories(c, cnt, quick)

	c.Set("evaluations", cnt.evals)
	c.Set("distinct_nontrivial", len(cnt.vectors))
	c.Set("policies_compiled", cnt.policies)
	c.Set("rule", "named resource kinds: every assignment of {none,deny,read,(list),write} to the slot grid {exact a, exact ab, prefix '', prefix a, prefix ab(, exact '')} as one policy; two policies over 3 slots in both orders; three policies over 2 slots; scalar rules exhaustive; every query name in {'',a,ab,abc,b} x every access x both defaults, compared with a 60-line evaluator of the documented semantics. distinct_nontrivial = number of distinct decision vectors observed. Cache part: every sequence (depth<=k) of compilations of ordered policy subsets through shared ACLCaches, then every subset compared with a cold compilation")
	var vs []string
	for v := range cnt.vectors {
		vs = append(vs, v)
	}
	sort.Strings(vs)
	if len(vs) > 6 {
		vs = vs[:6]
	}
	c.Sample(map[string]any{"decision_vectors": vs, "example_policy": hcl(kinds[5], []rule{{"a", false, read}, {"", true, deny}, {"a", true, write}})})
}

// ---- (b) shared caches -------------------------------------------------------------------------

var cachePolicies = []struct{ id, name, rules string }{
	{"aaaaaaaa-0000-0000-0000-000000000001", "p1", `service "web" { policy = "read" } key_prefix "a" { policy = "read" } node "n1" { policy = "read" } service_prefix "" { policy = "read" intentions = "read" }`},
	{"aaaaaaaa-0000-0000-0000-000000000002", "p2", `service "web" { policy = "write" } key_prefix "a" { policy = "write" } node "n1" { policy = "write" } service_prefix "" { policy = "write" intentions = "write" }`},
	{"aaaaaaaa-0000-0000-0000-000000000003", "p3", `service "web" { policy = "deny" } key_prefix "a" { policy = "deny" } node "n1" { policy = "deny" } service_prefix "" { policy = "deny" intentions = "deny" }`},
}

// mkPolicies builds the policy objects of one token. ver is a bit mask: policy i in its second version has the rules
// of policy i+1 and a larger ModifyIndex - one that stays below the index of the next policy, so an updated policy
// is not necessarily the most recently modified one of its set.
func mkPolicies(idx []int, ver int) structs.ACLPolicies {
	var out structs.ACLPolicies
	for _, i := range idx {
		p := cachePolicies[i]
		pol := &structs.ACLPolicy{ID: p.id, Name: p.name, Rules: p.rules}
		pol.ModifyIndex = uint64(10 * (i + 1))
		if ver&(1<<i) != 0 {
			pol.Rules = cachePolicies[(i+1)%len(cachePolicies)].rules
			pol.ModifyIndex += 5
		}
		pol.SetHash(true)
		out = append(out, pol)
	}
	return out
}

func vector(a acl.Authorizer) string {
	var sb strings.Builder
	w := func(d acl.EnforcementDecision) { sb.WriteString(d.String()[:1]) }
	for _, n := range []string{"web", "webx", "db"} {
		w(a.ServiceRead(n, nil))
		w(a.ServiceWrite(n, nil))
		w(a.IntentionRead(n, nil))
		w(a.IntentionWrite(n, nil))
	}
	for _, n := range []string{"a", "ab", "b"} {
		w(a.KeyRead(n, nil))
		w(a.KeyWrite(n, nil))
		w(a.KeyList(n, nil))
	}
	for _, n := range []string{"n1", "n2"} {
		w(a.NodeRead(n, nil))
		w(a.NodeWrite(n, nil))
	}
	w(a.ServiceReadAll(nil))
	w(a.ServiceWriteAny(nil))
	w(a.NodeReadAll(nil))
	w(a.KeyWritePrefix("a", nil))
	return sb.String()
}

func newCaches() *structs.ACLCaches {
	cc, err := structs.NewACLCaches(&structs.ACLCachesConfig{Identities: 16, Policies: 16, ParsedPolicies: 16, Authorizers: 16, Roles: 16})
	if err != nil {
		panic(err)
	}
	return cc
}

type polSet struct {
	idx []int
	ver int
}

func (p polSet) String() string { return fmt.Sprintf("%v/versions=%03b", p.idx, p.ver) }

func cacheHistories(c *ev.Ctx, cnt *counter, quick bool) {
	// alphabet: every non-empty ordered subset of {p1,p2,p3}, each policy in its first or second version
	var alpha []polSet
	versions := func(s []int) []int {
		out := []int{0}
		for _, i := range s {
			for _, v := range append([]int{}, out...) {
				out = append(out, v|1<<i)
			}
		}
		return out
	}
	for _, s := range [][]int{{0}, {1}, {2}, {0, 1}, {1, 0}, {0, 2}, {2, 0}, {1, 2}, {2, 1}, {0, 1, 2}, {2, 1, 0}, {1, 0, 2}} {
		for _, v := range versions(s) {
			if len(s) == 3 && v != 0 && v != 1 && v != 2 && v != 7 {
				continue
			}
			alpha = append(alpha, polSet{s, v})
		}
	}
	var subsets []polSet
	for _, s := range [][]int{{0}, {1}, {2}, {0, 1}, {0, 2}, {1, 2}, {0, 1, 2}} {
		for _, v := range versions(s) {
			subsets = append(subsets, polSet{s, v})
		}
	}
	cold := map[string]string{}
	for _, s := range subsets {
		a, err := mkPolicies(s.idx, s.ver).Compile(newCaches(), nil)
		if err != nil {
			c.HarnessError("cold compile failed: " + err.Error())
			return
		}
		cold[s.String()] = vector(a)
	}
	depth := 2
	if !quick {
		depth = 3
	}
	var hist [][]int
	var rec func(cur []int)
	rec = func(cur []int) {
		if len(cur) > 0 {
			hist = append(hist, append([]int{}, cur...))
		}
		if len(cur) == depth {
			return
		}
		for i := range alpha {
			rec(append(cur, i))
		}
	}
	rec(nil)
	var n int64
	parallel(len(hist), func(hi int) {
		h := hist[hi]
		caches := newCaches()
		var names []string
		for _, ai := range h {
			mkPolicies(alpha[ai].idx, alpha[ai].ver).Compile(caches, nil)
			names = append(names, alpha[ai].String())
		}
		for _, s := range subsets {
			a, err := mkPolicies(s.idx, s.ver).Compile(caches, nil)
			if err != nil {
				continue
			}
			atomic.AddInt64(&n, 1)
			if got := vector(a); got != cold[s.String()] {
				c.Violate("C08:decisions-depend-on-previously-resolved-tokens",
					fmt.Sprintf("a token with policies %v decides %s after tokens with policy lists %v were resolved through the same caches; a cold resolver decides %s (A=allow D=deny, positions: service web/webx/db r,w,ixn-r,ixn-w; keys; nodes; aggregates)", s, got, names, cold[s.String()]),
					map[string]any{"resolved_before": names, "token_policies": s.String()})
			}
		}
	})
	cnt.mu.Lock()
	cnt.evals += n * 40
	cnt.mu.Unlock()
	c.Set("cache_histories", len(hist))
	c.Set("cache_history_depth", depth)
}
