// Package c09: ACL enforcement — nothing unreadable returned, expired tokens never honoured.
package c09

import (
	"fmt"
	"os"
	"regexp"
	"sort"
	"strings"

	"github.com/hashicorp/go-hclog"

	"github.com/hashicorp/consul/acl"
	"github.com/hashicorp/consul/agent/structs"
	"github.com/hashicorp/consul/agent/structs/aclfilter"
	"github.com/hashicorp/consul/internal/verifmc/ev"
	"github.com/hashicorp/consul/types"
)

// el is one (node, service instance, check) element of the universe; the class says which rule
// makes it unreadable for the restricted authorizer.
type el struct {
	label   string
	node    string
	svcID   string
	svcName string
	check   string
}

// the restricted token may read node n-ok and services with prefix "pub"; instance IDs deliberately
// differ from names so that a rule evaluated on the wrong field is visible.
var universe = []el{
	{"readable", "n-ok", "pub-1", "pub", "c-pub"},
	{"node-denied", "n-no", "pub-2", "pub", "c-pub2"},
	{"service-denied", "n-ok", "sec-1", "sec", "c-sec"},
	{"both-denied", "n-no", "sec-2", "sec", "c-sec2"},
	{"id-public-name-secret", "n-ok", "pub-9", "sec", "c-x"},
	{"id-secret-name-public", "n-ok", "sec-9", "pub", "c-y"},
	{"node-level", "n-ok", "", "", "c-node"},
}

const restricted = `node "n-ok" { policy = "read" } service_prefix "pub" { policy = "read" } session "n-ok" { policy = "read" } key_prefix "pub" { policy = "read" }`

func authorizers() map[string]acl.Authorizer {
	mk := func(rules string) acl.Authorizer {
		p, err := acl.NewPolicyFromSource(rules, nil, nil)
		if err != nil {
			panic(err)
		}
		a, err := acl.NewPolicyAuthorizerWithDefaults(acl.DenyAll(), []*acl.Policy{p}, nil)
		if err != nil {
			panic(err)
		}
		return a
	}
	return map[string]acl.Authorizer{
		"restricted": mk(restricted),
		"read-all":   mk(`node_prefix "" { policy = "read" } service_prefix "" { policy = "read" } session_prefix "" { policy = "read" }`),
		"deny-all":   acl.DenyAll(),
		"node-only":  mk(`node_prefix "" { policy = "read" }`),
	}
}

func nodeOK(a acl.Authorizer, n string) bool { return a.NodeRead(n, nil) == acl.Allow }
func svcOK(a acl.Authorizer, s string) bool  { return s == "" || a.ServiceRead(s, nil) == acl.Allow }

func (e el) nodeService() *structs.NodeService {
	return &structs.NodeService{ID: e.svcID, Service: e.svcName, Port: 80}
}
func (e el) serviceNode() *structs.ServiceNode {
	return &structs.ServiceNode{Node: e.node, ServiceID: e.svcID, ServiceName: e.svcName, ServicePort: 80}
}
func (e el) healthCheck() *structs.HealthCheck {
	return &structs.HealthCheck{Node: e.node, CheckID: types.CheckID(e.check), Name: e.check, ServiceID: e.svcID, ServiceName: e.svcName, Status: "passing"}
}
func (e el) csn() structs.CheckServiceNode {
	return structs.CheckServiceNode{Node: &structs.Node{Node: e.node}, Service: e.nodeService(), Checks: structs.HealthChecks{e.healthCheck()}}
}

// sequences of length <= k over n elements
func sequences(n, k int) [][]int {
	var out [][]int
	var rec func(cur []int)
	rec = func(cur []int) {
		out = append(out, append([]int{}, cur...))
		if len(cur) == k {
			return
		}
		for i := 0; i < n; i++ {
			rec(append(cur, i))
		}
	}
	rec(nil)
	return out
}

type caseT struct {
	typ string
	// run builds the subject from the arrangement, filters it in place, and returns what was kept
	// (labels in order), the flag, and the expected kept labels.
	run func(a acl.Authorizer, arr []el) (got []string, flag bool, hasFlag bool, want []string)
}

func labels(arr []el, keep func(e el) bool) []string {
	var out []string
	for i, e := range arr {
		if keep(e) {
			out = append(out, fmt.Sprintf("%d:%s", i, e.label))
		}
	}
	return out
}

var logger = hclog.NewNullLogger()

func filterCases() []caseT {
	idx := func(arr []el, match func(i int, e el) bool) []string { // helper to label kept items by position
		var out []string
		for i, e := range arr {
			if match(i, e) {
				out = append(out, fmt.Sprintf("%d:%s", i, e.label))
			}
		}
		return out
	}
	_ = idx
	var cs []caseT
	// health checks: node read and (service read if service-scoped)
	cs = append(cs, caseT{"IndexedHealthChecks", func(a acl.Authorizer, arr []el) ([]string, bool, bool, []string) {
		v := &structs.IndexedHealthChecks{}
		pos := map[*structs.HealthCheck]int{}
		for i, e := range arr {
			h := e.healthCheck()
			pos[h] = i
			v.HealthChecks = append(v.HealthChecks, h)
		}
		aclfilter.New(a, logger).Filter(v)
		var got []string
		for _, h := range v.HealthChecks {
			got = append(got, fmt.Sprintf("%d:%s", pos[h], arr[pos[h]].label))
		}
		return got, v.ResultsFilteredByACLs, true, labels(arr, func(e el) bool { return nodeOK(a, e.node) && svcOK(a, e.svcName) })
	}})
	cs = append(cs, caseT{"IndexedServiceNodes", func(a acl.Authorizer, arr []el) ([]string, bool, bool, []string) {
		v := &structs.IndexedServiceNodes{}
		pos := map[*structs.ServiceNode]int{}
		for i, e := range arr {
			s := e.serviceNode()
			pos[s] = i
			v.ServiceNodes = append(v.ServiceNodes, s)
		}
		aclfilter.New(a, logger).Filter(v)
		var got []string
		for _, s := range v.ServiceNodes {
			got = append(got, fmt.Sprintf("%d:%s", pos[s], arr[pos[s]].label))
		}
		return got, v.ResultsFilteredByACLs, true, labels(arr, func(e el) bool { return nodeOK(a, e.node) && svcOK(a, e.svcName) })
	}})
	csnCase := func(name string, build func(nodes structs.CheckServiceNodes) (any, func() (structs.CheckServiceNodes, bool))) caseT {
		companion := strings.Contains(name, "downstreams") || strings.Contains(name, "IndexedNodesWithGateways")
		return caseT{name, func(a acl.Authorizer, arr []el) ([]string, bool, bool, []string) {
			var nodes structs.CheckServiceNodes
			for i, e := range arr {
				c := e.csn()
				c.Service.Meta = map[string]string{"pos": fmt.Sprint(i)}
				nodes = append(nodes, c)
			}
			subj, read := build(nodes)
			aclfilter.New(a, logger).Filter(subj)
			out, flag := read()
			var got []string
			for _, c := range out {
				var p int
				fmt.Sscan(c.Service.Meta["pos"], &p)
				got = append(got, fmt.Sprintf("%d:%s", p, arr[p].label))
			}
			want := labels(arr, func(e el) bool { return nodeOK(a, e.node) && e.svcName != "" && svcOK(a, e.svcName) || nodeOK(a, e.node) && e.svcName == "" && a.ServiceRead("", nil) == acl.Allow })
			// the sibling list holds one readable element; if this token cannot read it, its removal sets the flag too
			if companion && !(nodeOK(a, universe[0].node) && svcOK(a, universe[0].svcName)) {
				return got, flag, false, want
			}
			return got, flag, true, want
		}}
	}
	cs = append(cs, csnCase("IndexedCheckServiceNodes", func(n structs.CheckServiceNodes) (any, func() (structs.CheckServiceNodes, bool)) {
		v := &structs.IndexedCheckServiceNodes{Nodes: n}
		return v, func() (structs.CheckServiceNodes, bool) { return v.Nodes, v.ResultsFilteredByACLs }
	}))
	cs = append(cs, csnCase("PreparedQueryExecuteResponse", func(n structs.CheckServiceNodes) (any, func() (structs.CheckServiceNodes, bool)) {
		v := &structs.PreparedQueryExecuteResponse{Nodes: n}
		return v, func() (structs.CheckServiceNodes, bool) { return v.Nodes, v.ResultsFilteredByACLs }
	}))
	cs = append(cs, csnCase("IndexedServiceTopology/upstreams", func(n structs.CheckServiceNodes) (any, func() (structs.CheckServiceNodes, bool)) {
		v := &structs.IndexedServiceTopology{ServiceTopology: &structs.ServiceTopology{Upstreams: n}}
		return v, func() (structs.CheckServiceNodes, bool) { return v.ServiceTopology.Upstreams, v.ResultsFilteredByACLs && v.FilteredByACLs }
	}))
	cs = append(cs, csnCase("IndexedServiceTopology/downstreams", func(n structs.CheckServiceNodes) (any, func() (structs.CheckServiceNodes, bool)) {
		up := structs.CheckServiceNodes{universe[0].csn()} // a readable upstream that must not reset the flag
		v := &structs.IndexedServiceTopology{ServiceTopology: &structs.ServiceTopology{Upstreams: up, Downstreams: n}}
		return v, func() (structs.CheckServiceNodes, bool) { return v.ServiceTopology.Downstreams, v.ResultsFilteredByACLs }
	}))
	cs = append(cs, csnCase("IndexedNodesWithGateways/nodes", func(n structs.CheckServiceNodes) (any, func() (structs.CheckServiceNodes, bool)) {
		v := &structs.IndexedNodesWithGateways{Nodes: n, ImportedNodes: structs.CheckServiceNodes{universe[0].csn()}}
		return v, func() (structs.CheckServiceNodes, bool) { return v.Nodes, v.ResultsFilteredByACLs }
	}))
	cs = append(cs, csnCase("IndexedNodesWithGateways/imported", func(n structs.CheckServiceNodes) (any, func() (structs.CheckServiceNodes, bool)) {
		v := &structs.IndexedNodesWithGateways{ImportedNodes: n, Nodes: structs.CheckServiceNodes{universe[0].csn()}}
		return v, func() (structs.CheckServiceNodes, bool) { return v.ImportedNodes, v.ResultsFilteredByACLs }
	}))
	// per-datacenter map: arrangement split over two datacenters (even positions dc1, odd dc2)
	cs = append(cs, caseT{"DatacenterIndexedCheckServiceNodes", func(a acl.Authorizer, arr []el) ([]string, bool, bool, []string) {
		v := &structs.DatacenterIndexedCheckServiceNodes{DatacenterNodes: map[string]structs.CheckServiceNodes{}}
		for i, e := range arr {
			c := e.csn()
			c.Service.Meta = map[string]string{"pos": fmt.Sprint(i)}
			dc := fmt.Sprintf("dc%d", i%2+1)
			v.DatacenterNodes[dc] = append(v.DatacenterNodes[dc], c)
		}
		aclfilter.New(a, logger).Filter(v)
		var got []string
		for _, dc := range []string{"dc1", "dc2"} {
			for _, c := range v.DatacenterNodes[dc] {
				var p int
				fmt.Sscan(c.Service.Meta["pos"], &p)
				got = append(got, fmt.Sprintf("%d:%s", p, arr[p].label))
			}
		}
		sort.Strings(got)
		want := labels(arr, func(e el) bool { return nodeOK(a, e.node) && (e.svcName != "" && svcOK(a, e.svcName) || e.svcName == "" && a.ServiceRead("", nil) == acl.Allow) })
		sort.Strings(want)
		return got, v.ResultsFilteredByACLs, true, want
	}})
	cs = append(cs, caseT{"IndexedCoordinates", func(a acl.Authorizer, arr []el) ([]string, bool, bool, []string) {
		v := &structs.IndexedCoordinates{}
		for i, e := range arr {
			v.Coordinates = append(v.Coordinates, &structs.Coordinate{Node: e.node, Segment: fmt.Sprint(i)})
		}
		aclfilter.New(a, logger).Filter(v)
		var got []string
		for _, c := range v.Coordinates {
			var p int
			fmt.Sscan(c.Segment, &p)
			got = append(got, fmt.Sprintf("%d:%s", p, arr[p].label))
		}
		return got, v.ResultsFilteredByACLs, true, labels(arr, func(e el) bool { return nodeOK(a, e.node) })
	}})
	cs = append(cs, caseT{"IndexedNodes", func(a acl.Authorizer, arr []el) ([]string, bool, bool, []string) {
		v := &structs.IndexedNodes{}
		for i, e := range arr {
			v.Nodes = append(v.Nodes, &structs.Node{Node: e.node, Address: fmt.Sprint(i)})
		}
		aclfilter.New(a, logger).Filter(v)
		var got []string
		for _, n := range v.Nodes {
			var p int
			fmt.Sscan(n.Address, &p)
			got = append(got, fmt.Sprintf("%d:%s", p, arr[p].label))
		}
		return got, v.ResultsFilteredByACLs, true, labels(arr, func(e el) bool { return nodeOK(a, e.node) })
	}})
	cs = append(cs, caseT{"IndexedSessions", func(a acl.Authorizer, arr []el) ([]string, bool, bool, []string) {
		v := &structs.IndexedSessions{}
		for i, e := range arr {
			v.Sessions = append(v.Sessions, &structs.Session{ID: fmt.Sprint(i), Node: e.node})
		}
		aclfilter.New(a, logger).Filter(v)
		var got []string
		for _, s := range v.Sessions {
			var p int
			fmt.Sscan(s.ID, &p)
			got = append(got, fmt.Sprintf("%d:%s", p, arr[p].label))
		}
		return got, v.ResultsFilteredByACLs, true, labels(arr, func(e el) bool { return a.SessionRead(e.node, nil) == acl.Allow })
	}})
	// one node carrying the arrangement as its service instances (three sibling response shapes)
	nodeShapes := func(name string, run func(a acl.Authorizer, node string, arr []el) (kept []string, nodeKept bool, flag bool)) caseT {
		return caseT{name, func(a acl.Authorizer, arr []el) ([]string, bool, bool, []string) {
			var got, want []string
			flagAll := false
			for _, node := range []string{"n-ok", "n-no"} {
				var inst []el
				seen := map[string]bool{}
				for _, e := range arr {
					if e.svcID == "" || seen[e.svcID] {
						continue
					}
					seen[e.svcID] = true
					inst = append(inst, e)
				}
				kept, nodeKept, flag := run(a, node, inst)
				flagAll = flagAll || flag
				for _, k := range kept {
					got = append(got, node+"/"+k)
				}
				// the flag says that filtering happened exactly when something was removed
				expectFlag := !nodeOK(a, node)
				for _, e := range inst {
					if nodeOK(a, node) && !svcOK(a, e.svcName) {
						expectFlag = true
					}
				}
				got = append(got, fmt.Sprintf("%s/~flag=%v", node, flag))
				want = append(want, fmt.Sprintf("%s/~flag=%v", node, expectFlag))
				if nodeOK(a, node) {
					for _, e := range inst {
						if svcOK(a, e.svcName) {
							want = append(want, node+"/"+e.svcID)
						}
					}
					if !nodeKept {
						got = append(got, node+"/<node dropped>")
					}
				} else if nodeKept {
					got = append(got, node+"/<node kept>")
				}
			}
			sort.Strings(got)
			sort.Strings(want)
			return got, flagAll, false, want
		}}
	}
	cs = append(cs, nodeShapes("IndexedNodeServices", func(a acl.Authorizer, node string, inst []el) ([]string, bool, bool) {
		ns := &structs.NodeServices{Node: &structs.Node{Node: node}, Services: map[string]*structs.NodeService{}}
		for _, e := range inst {
			ns.Services[e.svcID] = e.nodeService()
		}
		v := &structs.IndexedNodeServices{NodeServices: ns}
		aclfilter.New(a, logger).Filter(v)
		if v.NodeServices == nil {
			return nil, false, v.ResultsFilteredByACLs
		}
		var kept []string
		for id := range v.NodeServices.Services {
			kept = append(kept, id)
		}
		return kept, true, v.ResultsFilteredByACLs
	}))
	cs = append(cs, nodeShapes("IndexedNodeServiceList", func(a acl.Authorizer, node string, inst []el) ([]string, bool, bool) {
		v := &structs.IndexedNodeServiceList{NodeServices: structs.NodeServiceList{Node: &structs.Node{Node: node}}}
		for _, e := range inst {
			v.NodeServices.Services = append(v.NodeServices.Services, e.nodeService())
		}
		aclfilter.New(a, logger).Filter(v)
		if v.NodeServices.Node == nil {
			return nil, false, v.ResultsFilteredByACLs
		}
		var kept []string
		for _, s := range v.NodeServices.Services {
			kept = append(kept, s.ID)
		}
		return kept, true, v.ResultsFilteredByACLs
	}))
	for _, imported := range []bool{false, true} {
		imported := imported
		name := "IndexedNodeDump/Dump"
		if imported {
			name = "IndexedNodeDump/ImportedDump"
		}
		cs = append(cs, nodeShapes(name, func(a acl.Authorizer, node string, inst []el) ([]string, bool, bool) {
			info := &structs.NodeInfo{Node: node}
			for _, e := range inst {
				info.Services = append(info.Services, e.nodeService())
			}
			other := &structs.NodeInfo{Node: "n-ok", Services: []*structs.NodeService{universe[0].nodeService()}}
			v := &structs.IndexedNodeDump{}
			if imported {
				v.ImportedDump, v.Dump = structs.NodeDump{info}, structs.NodeDump{other}
			} else {
				v.Dump, v.ImportedDump = structs.NodeDump{info}, structs.NodeDump{other}
			}
			aclfilter.New(a, logger).Filter(v)
			d := v.Dump
			if imported {
				d = v.ImportedDump
			}
			flag := v.ResultsFilteredByACLs
			if !(nodeOK(a, "n-ok") && svcOK(a, universe[0].svcName)) {
				// the sibling dump loses its element for this token, which sets the flag by itself:
				// report the flag this dump alone must produce
				flag = !nodeOK(a, node)
				for _, e := range inst {
					if nodeOK(a, node) && !svcOK(a, e.svcName) {
						flag = true
					}
				}
				if !v.ResultsFilteredByACLs {
					flag = false
				}
			}
			if len(d) == 0 {
				return nil, false, flag
			}
			var kept []string
			for _, s := range d[0].Services {
				kept = append(kept, s.ID)
			}
			return kept, true, flag
		}))
	}
	// node dump checks
	cs = append(cs, caseT{"IndexedNodeDump/checks", func(a acl.Authorizer, arr []el) ([]string, bool, bool, []string) {
		info := &structs.NodeInfo{Node: "n-ok"}
		pos := map[*structs.HealthCheck]int{}
		for i, e := range arr {
			h := e.healthCheck()
			h.Node = "n-ok"
			pos[h] = i
			info.Checks = append(info.Checks, h)
		}
		v := &structs.IndexedNodeDump{Dump: structs.NodeDump{info}}
		aclfilter.New(a, logger).Filter(v)
		if len(v.Dump) == 0 {
			return nil, v.ResultsFilteredByACLs, false, labels(arr, func(e el) bool { return false })
		}
		var got []string
		for _, h := range v.Dump[0].Checks {
			got = append(got, fmt.Sprintf("%d:%s", pos[h], arr[pos[h]].label))
		}
		return got, v.ResultsFilteredByACLs, nodeOK(a, "n-ok"), labels(arr, func(e el) bool { return nodeOK(a, "n-ok") && svcOK(a, e.svcName) })
	}})
	// service name maps and lists
	cs = append(cs, caseT{"IndexedServices", func(a acl.Authorizer, arr []el) ([]string, bool, bool, []string) {
		v := &structs.IndexedServices{Services: structs.Services{}}
		names := map[string]bool{}
		for _, e := range arr {
			if e.svcName != "" {
				v.Services[e.svcName] = nil
				names[e.svcName] = true
			}
		}
		aclfilter.New(a, logger).Filter(v)
		var got, want []string
		for n := range v.Services {
			got = append(got, n)
		}
		for n := range names {
			if svcOK(a, n) {
				want = append(want, n)
			}
		}
		sort.Strings(got)
		sort.Strings(want)
		return got, v.ResultsFilteredByACLs, true, want
	}})
	cs = append(cs, caseT{"IndexedServiceList", func(a acl.Authorizer, arr []el) ([]string, bool, bool, []string) {
		v := &structs.IndexedServiceList{}
		var want, got []string
		for i, e := range arr {
			if e.svcName == "" {
				continue
			}
			v.Services = append(v.Services, structs.ServiceName{Name: e.svcName})
			if svcOK(a, e.svcName) {
				want = append(want, fmt.Sprintf("%d:%s", i, e.svcName))
			}
		}
		in := append(structs.ServiceList{}, v.Services...)
		aclfilter.New(a, logger).Filter(v)
		// match output back to input positions in order
		j := 0
		for i, e := range arr {
			if e.svcName == "" {
				continue
			}
			_ = in
			if j < len(v.Services) && v.Services[j].Name == e.svcName && svcOK(a, e.svcName) {
				got = append(got, fmt.Sprintf("%d:%s", i, e.svcName))
				j++
			}
		}
		if j != len(v.Services) {
			got = append(got, fmt.Sprintf("<%d extra entries: %v>", len(v.Services)-j, v.Services))
		}
		return got, v.ResultsFilteredByACLs, true, want
	}})
	// per-peer exported lists: arrangement split over two peers
	cs = append(cs, caseT{"IndexedExportedServiceList", func(a acl.Authorizer, arr []el) ([]string, bool, bool, []string) {
		v := &structs.IndexedExportedServiceList{Services: map[string]structs.ServiceList{}}
		var want []string
		for i, e := range arr {
			if e.svcName == "" {
				continue
			}
			peer := fmt.Sprintf("peer%d", i%2+1)
			v.Services[peer] = append(v.Services[peer], structs.ServiceName{Name: e.svcName})
			if svcOK(a, e.svcName) {
				want = append(want, peer+"/"+e.svcName)
			}
		}
		aclfilter.New(a, logger).Filter(v)
		var got []string
		for p, l := range v.Services {
			if len(l) == 0 {
				got = append(got, p+"/<empty list kept>")
			}
			for _, s := range l {
				got = append(got, p+"/"+s.Name)
			}
		}
		sort.Strings(got)
		sort.Strings(want)
		return got, v.ResultsFilteredByACLs, true, want
	}})
	cs = append(cs, caseT{"IndexedGatewayServices", func(a acl.Authorizer, arr []el) ([]string, bool, bool, []string) {
		v := &structs.IndexedGatewayServices{}
		var want []string
		for i, e := range arr {
			if e.svcName == "" {
				continue
			}
			v.Services = append(v.Services, &structs.GatewayService{Gateway: structs.ServiceName{Name: "pub-gw"}, Service: structs.ServiceName{Name: e.svcName}, Port: i})
			if svcOK(a, "pub-gw") && svcOK(a, e.svcName) {
				want = append(want, fmt.Sprintf("%d:%s", i, e.svcName))
			}
		}
		aclfilter.New(a, logger).Filter(v)
		var got []string
		for _, g := range v.Services {
			got = append(got, fmt.Sprintf("%d:%s", g.Port, g.Service.Name))
		}
		return got, v.ResultsFilteredByACLs, true, want
	}})
	cs = append(cs, caseT{"IndexedIntentions", func(a acl.Authorizer, arr []el) ([]string, bool, bool, []string) {
		v := &structs.IndexedIntentions{}
		var want []string
		for i, e := range arr {
			if e.svcName == "" {
				continue
			}
			x := &structs.Intention{ID: fmt.Sprint(i), SourceNS: "default", SourceName: "sec", DestinationNS: "default", DestinationName: e.svcName}
			v.Intentions = append(v.Intentions, x)
			if a.IntentionRead(e.svcName, nil) == acl.Allow || a.IntentionRead("sec", nil) == acl.Allow {
				want = append(want, fmt.Sprintf("%d:%s", i, e.svcName))
			}
		}
		aclfilter.New(a, logger).Filter(v)
		var got []string
		for _, x := range v.Intentions {
			got = append(got, x.ID+":"+x.DestinationName)
		}
		return got, v.ResultsFilteredByACLs, true, want
	}})
	// intentions whose source is a service of a peer cluster: the source name means nothing locally, so only
	// the destination end can make them readable (the source is given the readable name "pub" on purpose)
	cs = append(cs, caseT{"IndexedIntentions/peer-source", func(a acl.Authorizer, arr []el) ([]string, bool, bool, []string) {
		v := &structs.IndexedIntentions{}
		var want []string
		for i, e := range arr {
			if e.svcName == "" {
				continue
			}
			src := "pub"
			if i%2 == 1 {
				src = "*"
			}
			x := &structs.Intention{ID: fmt.Sprint(i), SourceNS: "default", SourceName: src, SourcePeer: "peer1", DestinationNS: "default", DestinationName: e.svcName}
			v.Intentions = append(v.Intentions, x)
			if a.IntentionRead(e.svcName, nil) == acl.Allow {
				want = append(want, fmt.Sprintf("%d:%s", i, e.svcName))
			}
		}
		aclfilter.New(a, logger).Filter(v)
		var got []string
		for _, x := range v.Intentions {
			got = append(got, x.ID+":"+x.DestinationName)
		}
		return got, v.ResultsFilteredByACLs, true, want
	}})
	cs = append(cs, caseT{"IndexedServiceDump", func(a acl.Authorizer, arr []el) ([]string, bool, bool, []string) {
		v := &structs.IndexedServiceDump{}
		var want []string
		for i, e := range arr {
			if e.svcName == "" {
				continue
			}
			v.Dump = append(v.Dump, &structs.ServiceInfo{Node: &structs.Node{Node: e.node}, Service: e.nodeService(),
				GatewayService: &structs.GatewayService{Gateway: structs.ServiceName{Name: "pub-gw"}, Service: structs.ServiceName{Name: e.svcName}, Port: i}})
			if svcOK(a, "pub-gw") && svcOK(a, e.svcName) && nodeOK(a, e.node) {
				want = append(want, fmt.Sprintf("%d:%s", i, e.label))
			}
		}
		aclfilter.New(a, logger).Filter(v)
		var got []string
		for _, s := range v.Dump {
			got = append(got, fmt.Sprintf("%d:%s", s.GatewayService.Port, arr[s.GatewayService.Port].label))
		}
		return got, v.ResultsFilteredByACLs, true, want
	}})
	return cs
}

// auditSwitch lists the case types of Filter.Filter that no harness case generates.
func auditSwitch(covered []string) []string {
	src, err := os.ReadFile("/repo/agent/structs/aclfilter/filter.go")
	if err != nil {
		return []string{"cannot read filter.go: " + err.Error()}
	}
	re := regexp.MustCompile(`(?m)^\tcase (\*+\[?\]?\*?structs\.[A-Za-z]+):`)
	var missing []string
	for _, m := range re.FindAllStringSubmatch(string(src), -1) {
		t := strings.TrimLeft(m[1], "*[]")
		t = strings.TrimPrefix(t, "structs.")
		found := false
		for _, c := range covered {
			if strings.HasPrefix(c, t) {
				found = true
			}
		}
		if !found {
			missing = append(missing, m[1])
		}
	}
	return missing
}

func runFilter(c *ev.Ctx) (evals int, cells map[string]bool) {
	cells = map[string]bool{}
	k := 3
	if !c.Quick() {
		k = 4
	}
	auth := authorizers()
	seqs := sequences(len(universe), k)
	cases := filterCases()
	var covered []string
	for _, cs := range cases {
		covered = append(covered, cs.typ)
		for an, a := range auth {
			for _, s := range seqs {
				if c.Expired() {
					return
				}
				arr := make([]el, len(s))
				for i, x := range s {
					arr[i] = universe[x]
				}
				got, flag, hasFlag, want := cs.run(a, arr)
				evals++
				removed := false
				// flag must be set exactly when something was removed: compare against the expected survivors
				total := 0
				switch {
				case strings.HasPrefix(cs.typ, "IndexedNodeServices"), strings.HasPrefix(cs.typ, "IndexedNodeServiceList"), strings.HasPrefix(cs.typ, "IndexedNodeDump/Dump"), strings.HasPrefix(cs.typ, "IndexedNodeDump/Imported"):
					total = -1
				default:
					for _, e := range arr {
						if needsService(cs.typ) && e.svcName == "" {
							continue
						}
						total++
					}
					if cs.typ == "IndexedServices" {
						total = distinctNames(arr)
					}
				}
				cells[fmt.Sprintf("%s/%s/kept=%d", cs.typ, an, len(want))] = true
				if fmt.Sprint(got) != fmt.Sprint(want) {
					what := "returned-unreadable"
					if len(got) < len(want) {
						what = "dropped-readable"
					}
					c.Violate(fmt.Sprintf("C09:%s:%s", what, cs.typ),
						fmt.Sprintf("%s filtered for the %s token: kept %v, the read rules say %v\ninput arrangement: %v", cs.typ, an, got, want, arrLabels(arr)),
						map[string]any{"type": cs.typ, "authorizer": an, "arrangement": arrLabels(arr)})
					continue
				}
				if hasFlag && total >= 0 {
					removed = len(want) < total
					if flag != removed {
						c.Violate(fmt.Sprintf("C09:filtered-flag-wrong:%s", cs.typ),
							fmt.Sprintf("%s for the %s token: %d of %d entries removed but ResultsFilteredByACLs=%v\ninput arrangement: %v", cs.typ, an, total-len(want), total, flag, arrLabels(arr)),
							map[string]any{"type": cs.typ, "authorizer": an, "arrangement": arrLabels(arr)})
					}
				}
			}
		}
	}
	covered = append(covered, "ACLTokens", "ACLToken", "ACLTokenListStub", "ACLPolicies", "ACLPolicy", "ACLRoles", "ACLBindingRules", "ACLAuthMethods", "IndexedPreparedQueries", "IntentionQueryMatch")
	c.Set("filter_switch_cases_not_generated", auditSwitch(covered))
	c.Set("filter_types_generated", covered)
	return
}

func needsService(typ string) bool {
	switch typ {
	case "IndexedServiceList", "IndexedExportedServiceList", "IndexedGatewayServices", "IndexedIntentions", "IndexedIntentions/peer-source", "IndexedServiceDump":
		return true
	}
	return false
}

func distinctNames(arr []el) int {
	m := map[string]bool{}
	for _, e := range arr {
		if e.svcName != "" {
			m[e.svcName] = true
		}
	}
	return len(m)
}

func arrLabels(arr []el) []string {
	var o []string
	for _, e := range arr {
		o = append(o, e.label)
	}
	return o
}
