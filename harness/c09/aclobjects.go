package c09

import (
	"fmt"

	"github.com/hashicorp/consul/acl"
	"github.com/hashicorp/consul/agent/consul"
	"github.com/hashicorp/consul/agent/structs"
	"github.com/hashicorp/consul/agent/structs/aclfilter"
	"github.com/hashicorp/consul/internal/verifmc/ev"
)

// runACLObjects: the filters for ACL objects (tokens incl. secret redaction, token stubs, policies,
// roles, binding rules, auth methods), prepared queries (pruning by query prefix, unnamed queries,
// token redaction) and intention match requests. Every arrangement (length <= k) of the element
// menu x every authorizer; expectations are computed per element from the documented rule.
func runACLObjects(c *ev.Ctx) (evals int, cells map[string]bool) {
	cells = map[string]bool{}
	mk := func(rules string) acl.Authorizer {
		p, err := acl.NewPolicyFromSource(rules, nil, nil)
		if err != nil {
			panic(err)
		}
		a, err := acl.NewPolicyAuthorizerWithDefaults(acl.DenyAll(), []*acl.Policy{p}, nil)
		if err != nil {
			panic(err)
		}
		return a
	}
	type authT struct {
		name        string
		a           acl.Authorizer
		read, write bool            // acl read / acl write
		query       func(string) bool // prepared query read on a name
		ixn         func(string) bool // intention read on a destination
	}
	auths := []authT{
		{"acl-write", mk(`acl = "write"`), true, true, func(string) bool { return true }, func(string) bool { return false }},
		{"acl-read", mk(`acl = "read"`), true, false, func(string) bool { return false }, func(string) bool { return false }},
		{"query-prefix-pub + service pub intentions", mk(`query_prefix "pub" { policy = "read" } service_prefix "pub" { policy = "read" intentions = "read" }`), false, false,
			func(n string) bool { return len(n) >= 3 && n[:3] == "pub" }, func(n string) bool { return len(n) >= 3 && n[:3] == "pub" }},
		{"deny-all", acl.DenyAll(), false, false, func(string) bool { return false }, func(string) bool { return false }},
		{"manage-all", acl.ManageAll(), true, true, func(string) bool { return true }, func(string) bool { return true }},
	}
	k := 3
	if !c.Quick() {
		k = 4
	}
	report := func(typ, an, what, msg string, arr any) {
		c.Violate(fmt.Sprintf("C09:%s:%s", what, typ), fmt.Sprintf("%s filtered for the %s token: %s\ninput: %v", typ, an, msg, arr),
			map[string]any{"type": typ, "authorizer": an, "arrangement": fmt.Sprint(arr)})
	}
	// ---- ACL objects: a list of n objects, each identified by its position
	for _, au := range auths {
		for n := 0; n <= k; n++ {
			ids := make([]string, n)
			for i := range ids {
				ids[i] = fmt.Sprintf("obj-%d", i)
			}
			// tokens
			toks := structs.ACLTokens{}
			stubs := []*structs.ACLTokenListStub{}
			pols, roles, rules, methods := structs.ACLPolicies{}, structs.ACLRoles{}, structs.ACLBindingRules{}, structs.ACLAuthMethods{}
			for _, id := range ids {
				toks = append(toks, &structs.ACLToken{AccessorID: id, SecretID: "secret-" + id})
				stubs = append(stubs, &structs.ACLTokenListStub{AccessorID: id, SecretID: "secret-" + id})
				pols = append(pols, &structs.ACLPolicy{ID: id, Name: id})
				roles = append(roles, &structs.ACLRole{ID: id, Name: id})
				rules = append(rules, &structs.ACLBindingRule{ID: id})
				methods = append(methods, &structs.ACLAuthMethod{Name: id})
			}
			orig := append(structs.ACLTokens{}, toks...)
			f := aclfilter.New(au.a, logger)
			f.Filter(&toks)
			f.Filter(&stubs)
			f.Filter(&pols)
			f.Filter(&roles)
			f.Filter(&rules)
			f.Filter(&methods)
			evals += 6
			want := 0
			if au.read {
				want = n
			}
			cells[fmt.Sprintf("acl-objects/%s/kept=%d", au.name, want)] = true
			for typ, got := range map[string]int{"ACLTokens": len(toks), "ACLTokenListStubs": len(stubs), "ACLPolicies": len(pols), "ACLRoles": len(roles), "ACLBindingRules": len(rules), "ACLAuthMethods": len(methods)} {
				if got != want {
					what := "returned-unreadable"
					if got < want {
						what = "dropped-readable"
					}
					report(typ, au.name, what, fmt.Sprintf("kept %d of %d, acl read=%v", got, n, au.read), ids)
				}
			}
			for i, t := range toks {
				wantSecret := "secret-" + t.AccessorID
				if !au.write {
					wantSecret = aclfilter.RedactedToken
				}
				if t.SecretID != wantSecret {
					report("ACLTokens", au.name, "secret-not-redacted", fmt.Sprintf("token %d carries secret %q, acl write=%v", i, t.SecretID, au.write), ids)
				}
			}
			for i, t := range stubs {
				wantSecret := "secret-" + t.AccessorID
				if !au.write {
					wantSecret = aclfilter.RedactedToken
				}
				if t.SecretID != wantSecret {
					report("ACLTokenListStubs", au.name, "secret-not-redacted", fmt.Sprintf("stub %d carries secret %q, acl write=%v", i, t.SecretID, au.write), ids)
				}
			}
			// the filter must not write through to the objects it was handed (they may be state store rows)
			for i, t := range orig {
				if t.SecretID != "secret-"+t.AccessorID {
					report("ACLTokens", au.name, "input-object-modified", fmt.Sprintf("the caller's token %d was modified in place", i), ids)
				}
			}
			// single-object forms
			for _, id := range ids {
				tok := &structs.ACLToken{AccessorID: id, SecretID: "s"}
				f.Filter(&tok)
				pol := &structs.ACLPolicy{ID: id}
				f.Filter(&pol)
				evals += 2
				if (tok != nil) != au.read || (pol != nil) != au.read {
					report("ACLToken/ACLPolicy (single)", au.name, "single-object-visibility", fmt.Sprintf("token kept=%v policy kept=%v, acl read=%v", tok != nil, pol != nil, au.read), id)
				}
				if tok != nil && (tok.SecretID == "s") != au.write {
					report("ACLToken (single)", au.name, "secret-not-redacted", fmt.Sprintf("secret %q, acl write=%v", tok.SecretID, au.write), id)
				}
			}
		}
	}
	// ---- prepared queries
	type pq struct {
		label, name, token string
	}
	menu := []pq{{"named pub", "pub-q", ""}, {"named pub with token", "pub-q2", "tok"}, {"named sec", "sec-q", "tok"}, {"unnamed", "", ""}, {"unnamed with token", "", "tok"}}
	for _, au := range auths {
		for _, seq := range sequences(len(menu), k) {
			v := &structs.IndexedPreparedQueries{}
			var labels []string
			for i, x := range seq {
				m := menu[x]
				v.Queries = append(v.Queries, &structs.PreparedQuery{ID: fmt.Sprintf("%d", i), Name: m.name, Token: m.token})
				labels = append(labels, m.label)
			}
			in := append(structs.PreparedQueries{}, v.Queries...)
			aclfilter.New(au.a, logger).Filter(v)
			evals++
			var want []string
			namedRemoved := false
			for i, x := range seq {
				m := menu[x]
				switch {
				case au.write: // management: everything, nothing redacted
					want = append(want, fmt.Sprintf("%d:%s", i, m.token))
				case m.name == "":
					// unnamed queries can only be listed by a management token (not counted as filtered)
				case au.query(m.name):
					t := m.token
					if t != "" {
						t = aclfilter.RedactedToken
					}
					want = append(want, fmt.Sprintf("%d:%s", i, t))
				default:
					namedRemoved = true
				}
			}
			var got []string
			for _, q := range v.Queries {
				got = append(got, q.ID+":"+q.Token)
			}
			cells[fmt.Sprintf("prepared-queries/%s/kept=%d", au.name, len(want))] = true
			if fmt.Sprint(got) != fmt.Sprint(want) {
				report("IndexedPreparedQueries", au.name, "prepared-queries-differ", fmt.Sprintf("kept (id:token) %v, the rules say %v", got, want), labels)
			} else if v.ResultsFilteredByACLs != namedRemoved {
				report("IndexedPreparedQueries", au.name, "filtered-flag-wrong", fmt.Sprintf("named queries removed=%v but ResultsFilteredByACLs=%v", namedRemoved, v.ResultsFilteredByACLs), labels)
			}
			for i, q := range in {
				if q.Token != menu[seq[i]].token {
					report("IndexedPreparedQueries", au.name, "input-object-modified", fmt.Sprintf("the caller's query %d had its token overwritten", i), labels)
				}
			}
		}
	}
	// ---- intention match: all entries or none
	names := []string{"pub-a", "sec-b", "pub-c", ""}
	for _, au := range auths {
		for _, seq := range sequences(len(names), k) {
			m := &structs.IntentionQueryMatch{Type: structs.IntentionMatchDestination}
			allOK := true
			var labels []string
			for _, x := range seq {
				m.Entries = append(m.Entries, structs.IntentionMatchEntry{Namespace: "default", Name: names[x]})
				labels = append(labels, names[x])
				if names[x] != "" && !au.ixn(names[x]) && !(au.name == "manage-all") {
					allOK = false
				}
			}
			n := len(m.Entries)
			aclfilter.New(au.a, logger).Filter(m)
			evals++
			want := n
			if !allOK {
				want = 0
			}
			cells[fmt.Sprintf("intention-match/%s/kept=%d", au.name, want)] = true
			if len(m.Entries) != want {
				report("IntentionQueryMatch", au.name, "intention-match-entries", fmt.Sprintf("%d entries kept, expected %d (all readable=%v)", len(m.Entries), want, allOK), labels)
			}
		}
	}
	// ---- KV listings and transaction results (agent/consul FilterDirEnt / FilterKeys / FilterTxnResults): in-place
	// compaction of a slice; every arrangement of readable and unreadable entries incl. runs of denied ones
	kvAuth := []struct {
		name string
		a    acl.Authorizer
	}{
		{"key_prefix pub + node n-ok + service pub", mk(`key_prefix "pub" { policy = "read" } node "n-ok" { policy = "read" } service_prefix "pub" { policy = "read" }`)},
		{"deny-all", acl.DenyAll()}, {"manage-all", acl.ManageAll()},
	}
	type item struct {
		label string
		res   func(i int) *structs.TxnResult
		key   string
		ok    func(a acl.Authorizer) bool
	}
	items := []item{
		{"kv pub/a", func(i int) *structs.TxnResult { return &structs.TxnResult{KV: &structs.DirEntry{Key: "pub/a", Flags: uint64(i)}} }, "pub/a", func(a acl.Authorizer) bool { return a.KeyRead("pub/a", nil) == acl.Allow }},
		{"kv sec/b", func(i int) *structs.TxnResult { return &structs.TxnResult{KV: &structs.DirEntry{Key: "sec/b", Flags: uint64(i)}} }, "sec/b", func(a acl.Authorizer) bool { return a.KeyRead("sec/b", nil) == acl.Allow }},
		{"kv sec/c", func(i int) *structs.TxnResult { return &structs.TxnResult{KV: &structs.DirEntry{Key: "sec/c", Flags: uint64(i)}} }, "sec/c", func(a acl.Authorizer) bool { return a.KeyRead("sec/c", nil) == acl.Allow }},
		{"node n-no", func(i int) *structs.TxnResult { return &structs.TxnResult{Node: &structs.Node{Node: "n-no", Meta: map[string]string{"pos": fmt.Sprint(i)}}} }, "", func(a acl.Authorizer) bool { return a.NodeRead("n-no", nil) == acl.Allow }},
		{"service sec on n-ok", func(i int) *structs.TxnResult { return &structs.TxnResult{Service: &structs.NodeService{ID: "sec-1", Service: "sec", Port: i}} }, "", func(a acl.Authorizer) bool { return a.ServiceRead("sec", nil) == acl.Allow }},
		{"check of pub", func(i int) *structs.TxnResult { return &structs.TxnResult{Check: &structs.HealthCheck{Node: "n-no", CheckID: "c", ServiceName: "pub", Notes: fmt.Sprint(i)}} }, "", func(a acl.Authorizer) bool { return a.ServiceRead("pub", nil) == acl.Allow }},
	}
	kk := k + 1
	for _, au := range kvAuth {
		for _, seq := range sequences(len(items), kk) {
			var results structs.TxnResults
			var ents structs.DirEntries
			var wantR, wantE, labels []string
			for i, x := range seq {
				it := items[x]
				labels = append(labels, it.label)
				results = append(results, it.res(i))
				if it.ok(au.a) {
					wantR = append(wantR, fmt.Sprintf("%d:%s", i, it.label))
				}
				if it.key != "" {
					ents = append(ents, &structs.DirEntry{Key: it.key, Flags: uint64(i)})
					if it.ok(au.a) {
						wantE = append(wantE, fmt.Sprintf("%d:%s", i, it.key))
					}
				}
			}
			evals += 2
			pos := map[*structs.TxnResult]int{}
			for i, r := range results {
				pos[r] = i
			}
			var gotR []string
			for _, r := range consul.FilterTxnResults(au.a, results) {
				gotR = append(gotR, fmt.Sprintf("%d:%s", pos[r], items[seq[pos[r]]].label))
			}
			cells[fmt.Sprintf("txn-results/%s/kept=%d", au.name, len(wantR))] = true
			if fmt.Sprint(gotR) != fmt.Sprint(wantR) {
				report("TxnResults", au.name, "kv-txn-filter-differs", fmt.Sprintf("kept %v, the read rules say %v", gotR, wantR), labels)
			}
			var gotE []string
			for _, e := range consul.FilterDirEnt(au.a, ents) {
				gotE = append(gotE, fmt.Sprintf("%d:%s", e.Flags, e.Key))
			}
			if fmt.Sprint(gotE) != fmt.Sprint(wantE) {
				report("DirEntries", au.name, "kv-txn-filter-differs", fmt.Sprintf("kept %v, the read rules say %v", gotE, wantE), labels)
			}
		}
	}
	return
}
