package c09

import (
	"fmt"
	"sort"
	"strings"
	"time"

	"github.com/hashicorp/consul/agent/consul"
	"github.com/hashicorp/consul/agent/structs"
	"github.com/hashicorp/consul/api"
	"github.com/hashicorp/consul/internal/verifmc/cmdlib"
	"github.com/hashicorp/consul/internal/verifmc/ev"
	"github.com/hashicorp/consul/internal/verifmc/world"
)

// runBlockingFlags: the read endpoints themselves, with ACLs on, while a query is blocked. An endpoint
// re-evaluates its query into the same reply object every time it wakes; what it returns after the
// last unreadable element has gone (or the first one has appeared) must be filtered and flagged like
// a fresh query. The Server value resolves the token from the state through its own resolver.

const restrictedRules = `key_prefix "pub" { policy = "read" } node "n-ok" { policy = "read" } service_prefix "pub" { policy = "read" } session "n-ok" { policy = "read" }`

type blkReply struct {
	idx      uint64
	filtered bool
	data     string
}

type blkCase struct {
	name string
	// both: readable and unreadable elements present; only: readable elements only
	both []world.Op
	only []world.Op
	// removeHidden / addHidden move between the two
	removeHidden, addHidden world.Op
	call                    func(vs *consul.VerifServer, token string, minIndex uint64) (blkReply, error)
}

func qopts(token string, min uint64) structs.QueryOptions {
	return structs.QueryOptions{Token: token, MinQueryIndex: min, MaxQueryTime: 60 * time.Second}
}

func blockingCases() []blkCase {
	kvPub := cmdlib.KVSpec{Verb: api.KVSet, Key: "pub/a", Val: "x"}.Op()
	kvSec := cmdlib.KVSpec{Verb: api.KVSet, Key: "sec/x", Val: "y"}.Op()
	kvSecDel := cmdlib.KVSpec{Verb: api.KVDelete, Key: "sec/x"}.Op()
	nOK := cmdlib.NodeSpec{Node: "n-ok", Addr: "10.0.0.1"}
	nNo := cmdlib.NodeSpec{Node: "n-secret", Addr: "10.0.0.2"}
	pub := cmdlib.SvcSpec{Name: "pub-web", Port: 80}
	var cs []blkCase
	cs = append(cs,
		blkCase{name: "KVS.List", both: []world.Op{kvPub, kvSec}, only: []world.Op{kvPub}, removeHidden: kvSecDel, addHidden: kvSec,
			call: func(vs *consul.VerifServer, token string, min uint64) (blkReply, error) {
				var rep structs.IndexedDirEntries
				err := vs.KVS().List(&structs.KeyRequest{Datacenter: cmdlib.DC, Key: "", QueryOptions: qopts(token, min)}, &rep)
				var ks []string
				for _, e := range rep.Entries {
					ks = append(ks, e.Key)
				}
				return blkReply{rep.Index, rep.ResultsFilteredByACLs, strings.Join(ks, ",")}, err
			}},
		blkCase{name: "KVS.ListKeys", both: []world.Op{kvPub, kvSec}, only: []world.Op{kvPub}, removeHidden: kvSecDel, addHidden: kvSec,
			call: func(vs *consul.VerifServer, token string, min uint64) (blkReply, error) {
				var rep structs.IndexedKeyList
				err := vs.KVS().ListKeys(&structs.KeyListRequest{Datacenter: cmdlib.DC, Prefix: "", QueryOptions: qopts(token, min)}, &rep)
				return blkReply{rep.Index, rep.ResultsFilteredByACLs, strings.Join(rep.Keys, ",")}, err
			}},
		blkCase{name: "Catalog.ListNodes", both: []world.Op{cmdlib.RegNode(nOK), cmdlib.RegNode(nNo)}, only: []world.Op{cmdlib.RegNode(nOK)},
			removeHidden: cmdlib.DeregNode("n-secret", ""), addHidden: cmdlib.RegNode(nNo),
			call: func(vs *consul.VerifServer, token string, min uint64) (blkReply, error) {
				var rep structs.IndexedNodes
				err := vs.Catalog().ListNodes(&structs.DCSpecificRequest{Datacenter: cmdlib.DC, QueryOptions: qopts(token, min)}, &rep)
				var ks []string
				for _, n := range rep.Nodes {
					ks = append(ks, n.Node)
				}
				return blkReply{rep.Index, rep.ResultsFilteredByACLs, strings.Join(ks, ",")}, err
			}},
		blkCase{name: "Catalog.ServiceNodes", both: []world.Op{cmdlib.RegService(nOK, pub), cmdlib.RegService(nNo, pub)}, only: []world.Op{cmdlib.RegService(nOK, pub)},
			removeHidden: cmdlib.DeregNode("n-secret", ""), addHidden: cmdlib.RegService(nNo, pub),
			call: func(vs *consul.VerifServer, token string, min uint64) (blkReply, error) {
				var rep structs.IndexedServiceNodes
				err := vs.Catalog().ServiceNodes(&structs.ServiceSpecificRequest{Datacenter: cmdlib.DC, ServiceName: "pub-web", QueryOptions: qopts(token, min)}, &rep)
				var ks []string
				for _, n := range rep.ServiceNodes {
					ks = append(ks, n.Node)
				}
				return blkReply{rep.Index, rep.ResultsFilteredByACLs, strings.Join(ks, ",")}, err
			}},
		blkCase{name: "Health.ServiceNodes", both: []world.Op{cmdlib.RegService(nOK, pub), cmdlib.RegService(nNo, pub)}, only: []world.Op{cmdlib.RegService(nOK, pub)},
			removeHidden: cmdlib.DeregNode("n-secret", ""), addHidden: cmdlib.RegService(nNo, pub),
			call: func(vs *consul.VerifServer, token string, min uint64) (blkReply, error) {
				var rep structs.IndexedCheckServiceNodes
				err := vs.Health().ServiceNodes(&structs.ServiceSpecificRequest{Datacenter: cmdlib.DC, ServiceName: "pub-web", QueryOptions: qopts(token, min)}, &rep)
				var ks []string
				for _, n := range rep.Nodes {
					ks = append(ks, n.Node.Node)
				}
				return blkReply{rep.Index, rep.ResultsFilteredByACLs, strings.Join(ks, ",")}, err
			}},
		blkCase{name: "Internal.NodeDump", both: []world.Op{cmdlib.RegNode(nOK), cmdlib.RegNode(nNo)}, only: []world.Op{cmdlib.RegNode(nOK)},
			removeHidden: cmdlib.DeregNode("n-secret", ""), addHidden: cmdlib.RegNode(nNo),
			call: func(vs *consul.VerifServer, token string, min uint64) (blkReply, error) {
				var rep structs.IndexedNodeDump
				err := vs.Internal().NodeDump(&structs.DCSpecificRequest{Datacenter: cmdlib.DC, QueryOptions: qopts(token, min)}, &rep)
				var ks []string
				for _, n := range rep.Dump {
					ks = append(ks, n.Node)
				}
				return blkReply{rep.Index, rep.ResultsFilteredByACLs, strings.Join(ks, ",")}, err
			}},
		blkCase{name: "Internal.ServiceDump", both: []world.Op{cmdlib.RegService(nOK, pub), cmdlib.RegService(nNo, pub)}, only: []world.Op{cmdlib.RegService(nOK, pub)},
			removeHidden: cmdlib.DeregNode("n-secret", ""), addHidden: cmdlib.RegService(nNo, pub),
			call: func(vs *consul.VerifServer, token string, min uint64) (blkReply, error) {
				var rep structs.IndexedNodesWithGateways
				err := vs.Internal().ServiceDump(&structs.ServiceDumpRequest{Datacenter: cmdlib.DC, QueryOptions: qopts(token, min)}, &rep)
				var ks []string
				for _, n := range rep.Nodes {
					ks = append(ks, n.Node.Node)
				}
				return blkReply{rep.Index, rep.ResultsFilteredByACLs, strings.Join(ks, ",")}, err
			}},
	)
	return cs
}

func runBlockingFlags(c *ev.Ctx) int {
	n := 0
	tokenSeed := []world.Op{cmdlib.PolicySet("p1", "restricted", restrictedRules), cmdlib.TokenSet(cmdlib.TokenSpec{ID: "t1", Policies: []string{"p1"}}, false, 0, false)}
	token := cmdlib.TokenSecrets["t1"]
	for _, bc := range blockingCases() {
		for _, dir := range []string{"last-unreadable-element-goes", "first-unreadable-element-appears"} {
			if c.Expired() {
				return n
			}
			w := world.New()
			w.ApplyAll(tokenSeed)
			start, change := bc.both, bc.removeHidden
			if dir == "first-unreadable-element-appears" {
				start, change = bc.only, bc.addHidden
			}
			w.ApplyAll(start)
			vs, err := consul.VerifNewServerACL(w.BoundFSM(), nil)
			if err != nil {
				c.HarnessError("server: " + err.Error())
				return n
			}
			first, err := bc.call(vs, token, 0)
			if err != nil {
				c.Violate("C09:blocking:endpoint-error:"+bc.name, err.Error(), nil)
				vs.Close()
				continue
			}
			wantFirst := dir == "last-unreadable-element-goes"
			if first.filtered != wantFirst {
				c.Violate(fmt.Sprintf("C09:filtered-flag-wrong:%s:fresh-query", bc.name), fmt.Sprintf("%s (%s): fresh query returns %q with filtered=%v, expected filtered=%v", bc.name, dir, first.data, first.filtered, wantFirst), nil)
			}
			type res struct {
				r   blkReply
				err error
			}
			ch := make(chan res, 1)
			go func() {
				r, err := bc.call(vs, token, first.idx)
				ch <- res{r, err}
			}()
			// the query parks on its watch set; the write below is what wakes it (if the write lands first the query simply
			// sees the new index at once - either way it returns the state after the write)
			time.Sleep(20 * time.Millisecond)
			w.Apply(change)
			var got res
			select {
			case got = <-ch:
			case <-time.After(50 * time.Second):
				c.HarnessError(bc.name + ": blocked query did not return within 50 s of the write")
				vs.Close()
				return n
			}
			n++
			// a fresh server and a fresh query on the same state are the reference
			vs2, _ := consul.VerifNewServerACL(w.BoundFSM(), nil)
			ref, rerr := bc.call(vs2, token, 0)
			vs2.Close()
			vs.Close()
			if got.err != nil || rerr != nil {
				c.Violate("C09:blocking:endpoint-error:"+bc.name, fmt.Sprintf("blocked: %v fresh: %v", got.err, rerr), nil)
				continue
			}
			sortCSV := func(s string) string { p := strings.Split(s, ","); sort.Strings(p); return strings.Join(p, ",") }
			if sortCSV(got.r.data) != sortCSV(ref.data) || got.r.filtered != ref.filtered {
				c.Violate(fmt.Sprintf("C09:woken-blocking-query-differs-from-a-fresh-one:%s:filtered=%v-vs-%v", bc.name, got.r.filtered, ref.filtered),
					fmt.Sprintf("%s, %s: the query that was blocked on index %d returns %q with filtered=%v; a fresh query on the same state returns %q with filtered=%v",
						bc.name, dir, first.idx, got.r.data, got.r.filtered, ref.data, ref.filtered), map[string]any{"endpoint": bc.name, "direction": dir})
			}
		}
	}
	return n
}
