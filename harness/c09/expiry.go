package c09

import (
	"context"
	"fmt"
	"strings"
	"time"

	"github.com/hashicorp/go-hclog"

	"github.com/hashicorp/consul/acl"
	"github.com/hashicorp/consul/agent/consul"
	"github.com/hashicorp/consul/agent/structs"
	"github.com/hashicorp/consul/agent/token"
	"github.com/hashicorp/consul/internal/verifmc/ev"
	"github.com/hashicorp/consul/internal/verifmc/vtime"
)

// backend is a table-driven ACLResolverBackend: identities resolve either locally (server path) or
// through the ACL.TokenRead RPC (client / secondary path); RPCs can be made to fail.
type backend struct {
	local   bool
	rpcFail bool
	token   *structs.ACLToken
	policy  *structs.ACLPolicy
	rpcs    int
}

func (b *backend) ACLDatacenter() string { return "dc1" }
func (b *backend) ResolveIdentityFromToken(secret string) (bool, structs.ACLIdentity, error) {
	if !b.local {
		return false, nil, nil
	}
	if secret == b.token.SecretID {
		return true, b.token, nil // worst case for the resolver: the backend hands back the token whatever its expiry
	}
	return true, nil, acl.ErrNotFound
}
func (b *backend) ResolvePolicyFromID(id string) (bool, *structs.ACLPolicy, error) {
	if !b.local {
		return false, nil, nil
	}
	if id == b.policy.ID {
		return true, b.policy, nil
	}
	return true, nil, acl.ErrNotFound
}
func (b *backend) ResolveRoleFromID(string) (bool, *structs.ACLRole, error) { return b.local, nil, nil }
func (b *backend) IsServerManagementToken(string) bool                      { return false }
func (b *backend) RPC(ctx context.Context, method string, args interface{}, reply interface{}) error {
	b.rpcs++
	if b.rpcFail {
		return fmt.Errorf("rpc error: no servers available")
	}
	switch method {
	case "ACL.TokenRead":
		req := args.(*structs.ACLTokenGetRequest)
		resp := reply.(*structs.ACLTokenResponse)
		if req.TokenID == b.token.SecretID {
			resp.Token = b.token
		}
		return nil
	case "ACL.PolicyResolve":
		resp := reply.(*structs.ACLPolicyBatchResponse)
		resp.Policies = structs.ACLPolicies{b.policy}
		return nil
	case "ACL.RoleResolve":
		return nil
	}
	return fmt.Errorf("unexpected rpc %s", method)
}

func runExpiry(c *ev.Ctx) (evals int, cells map[string]bool) {
	cells = map[string]bool{}
	steps := []time.Duration{0, 5 * time.Second, 15 * time.Second, 40 * time.Second}
	// all non-decreasing sequences of <=3 resolve instants
	var seqs [][]time.Duration
	var rec func(cur []time.Duration, from int)
	rec = func(cur []time.Duration, from int) {
		if len(cur) > 0 {
			seqs = append(seqs, append([]time.Duration{}, cur...))
		}
		if len(cur) == 3 {
			return
		}
		for i := from; i < len(steps); i++ {
			rec(append(cur, steps[i]), i)
		}
	}
	rec(nil, 0)
	defer vtime.SetOffset(0)
	for _, hasExpiry := range []bool{true, false} {
		for _, local := range []bool{false, true} {
			for _, down := range []string{"deny", "allow", "extend-cache", "async-cache"} {
				for _, failAfterFirst := range []bool{false, true} {
					for _, seq := range seqs {
						if c.Expired() {
							return
						}
						vtime.SetOffset(0)
						t0 := vtime.Now()
						tok := &structs.ACLToken{AccessorID: "cccccccc-0000-0000-0000-000000000001", SecretID: "dddddddd-0000-0000-0000-000000000001",
							Policies: []structs.ACLTokenPolicyLink{{ID: "aaaaaaaa-0000-0000-0000-000000000001"}}}
						if hasExpiry {
							e := t0.Add(10 * time.Second)
							tok.ExpirationTime = &e
						}
						tok.SetHash(true)
						pol := &structs.ACLPolicy{ID: "aaaaaaaa-0000-0000-0000-000000000001", Name: "p", Rules: `service "web" { policy = "write" }`}
						pol.SetHash(true)
						be := &backend{local: local, token: tok, policy: pol}
						r, err := consul.NewACLResolver(&consul.ACLResolverConfig{
							Config: consul.ACLResolverSettings{ACLsEnabled: true, Datacenter: "dc1", NodeName: "node1", ACLPolicyTTL: 30 * time.Second, ACLTokenTTL: 30 * time.Second, ACLRoleTTL: 30 * time.Second,
								ACLDownPolicy: down, ACLDefaultPolicy: "deny"},
							Logger: hclog.NewNullLogger(), CacheConfig: &structs.ACLCachesConfig{Identities: 8, Policies: 8, ParsedPolicies: 8, Authorizers: 8, Roles: 8},
							Backend: be, Tokens: new(token.Store)})
						if err != nil {
							c.HarnessError("cannot build resolver: " + err.Error())
							return
						}
						var trace []string
						for i, at := range seq {
							vtime.SetOffset(at)
							be.rpcFail = failAfterFirst && i > 0
							res, err := r.ResolveToken(tok.SecretID)
							evals++
							granted := err == nil && res.Authorizer != nil && res.Authorizer.ServiceWrite("web", nil) == acl.Allow
							expired := hasExpiry && at > 10*time.Second
							trace = append(trace, fmt.Sprintf("t+%s:granted=%v(err=%v)", at, granted, err))
							cells[fmt.Sprintf("expiry=%v,local=%v,down=%s,rpcfail=%v,expired=%v,granted=%v", hasExpiry, local, down, be.rpcFail, expired, granted)] = true
							downAllows := down == "allow" && be.rpcFail // everything is allowed while the primary is unreachable, whatever the token
							if expired && granted && !downAllows {
								c.Violate(fmt.Sprintf("C09:expired-token-honoured:local=%v:down=%s:rpc-failing=%v", local, down, be.rpcFail),
									fmt.Sprintf("token expired at t+10s but at t+%s it still authorizes service:write (resolution path local=%v, down policy %s, rpc failing=%v, cache TTL 30s)\nresolves: %s",
										at, local, down, be.rpcFail, strings.Join(trace, " ; ")),
									map[string]any{"resolves": trace, "local": local, "down_policy": down, "rpc_fail_after_first": failAfterFirst})
							}
							if !expired && !granted && !be.rpcFail {
								c.Violate(fmt.Sprintf("C09:valid-token-refused:local=%v:down=%s", local, down),
									fmt.Sprintf("token is not expired at t+%s and the servers are reachable, yet it is not honoured\nresolves: %s", at, strings.Join(trace, " ; ")),
									map[string]any{"resolves": trace})
							}
						}
					}
				}
			}
		}
	}
	return
}

func Run(c *ev.Ctx) {
	e1, cells1 := runFilter(c)
	e2, cells2 := runExpiry(c)
	e3, cells3 := runACLObjects(c)
	c.Set("blocked_queries_woken_by_a_write", runBlockingFlags(c))
	c.Set("evaluations", e1+e2+e3)
	c.Set("filter_evaluations", e1)
	c.Set("expiry_resolutions", e2)
	c.Set("acl_object_query_match_evaluations", e3)
	c.Set("distinct_nontrivial", len(cells1)+len(cells2)+len(cells3))
	c.Set("rule", "filtering: for every generated response type, every arrangement (with repetition, length<=k) of {readable, node-denied, service-denied, both-denied, id-public/name-secret, id-secret/name-public, node-level} elements x 4 real policy authorizers; the in-place filter result must equal the out-of-place filter by the type's read rule, and the filtered flag must be set exactly when something was removed. expiry: token expiry {none, t+10s} x resolution path {RPC+cache, server-local} x down policy x RPC health x every non-decreasing sequence of <=3 resolve instants from {0,5s,15s,40s} under a shifted clock. ACL objects / prepared queries / intention match: every list length or arrangement (<=k) x 5 authorizers (acl write, acl read, query+intention prefix, deny, manage) against the documented per-element rule incl. secret redaction, unnamed queries and the no-write-through rule. distinct_nontrivial = distinct (type, authorizer, kept count) and (expiry grid cell, outcome) cells. blocking: for KVS.List/ListKeys, Catalog.ListNodes/ServiceNodes, Health.ServiceNodes, Internal.NodeDump on a Server value with ACLs on: a query blocked on the current index is woken by the write that removes the last unreadable element (or adds the first one) and must answer like a fresh query (data and filtered flag)")
	c.Sample(map[string]any{"universe": universe, "restricted_policy": restricted})
	c.Assume("the clock seen by package consul and agent/structs is shifted through the vtime import rewrite; async-cache refreshes run in background goroutines and are not scheduled by the harness")
}
