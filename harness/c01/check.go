// Package c01: replicas that apply the same committed log hold the same state.
package c01

import (
	"bufio"
	"crypto/sha256"
	"encoding/hex"
	"encoding/json"
	"fmt"
	"os"
	"os/exec"
	"sort"
	"strings"
	"sync"
	"time"

	"github.com/hashicorp/consul/agent/consul/fsm"
	"github.com/hashicorp/consul/agent/structs"
	"github.com/hashicorp/consul/api"
	"github.com/hashicorp/consul/internal/verifmc/cmdlib"
	"github.com/hashicorp/consul/internal/verifmc/e1"
	"github.com/hashicorp/consul/internal/verifmc/ev"
	"github.com/hashicorp/consul/internal/verifmc/vtime"
	"github.com/hashicorp/consul/internal/verifmc/world"
)

func newWorld() *world.World {
	w := world.New()
	w.ResourceOps = true
	return w
}

// observation of one replica after one transition: the command result and all replicated data
func digest(w *world.World, res string) (string, string) {
	full := res + "\n" + w.Dump(nil).String() + "== resources\n" + strings.Join(w.ResourceDump(), "\n")
	h := sha256.Sum256([]byte(full))
	return hex.EncodeToString(h[:12]), full
}

type rec struct {
	K string `json:"k"`
	D string `json:"d"`
}

type phase struct {
	name   string
	groups []string
	seeds  []string
	depth  int
}

func Run(c *ev.Ctx) {
	quick := c.Quick()
	child := os.Getenv("VERIF_C01_CHILD")
	if os.Getenv("VERIF_EPOCH") == "" {
		os.Setenv("VERIF_EPOCH", fmt.Sprint(time.Now().Unix())) // one instant for this process and its child replica
	}
	groups := cmdlib.FullAlphabet()
	seedsAll := cmdlib.FullSeeds()

	// coverage audit: every registered command type has at least one op in the alphabet
	covered := map[string]bool{}
	{
		w := newWorld()
		w.ApplyAll(seedsAll["catalog+session"])
		for _, op := range cmdlib.Flatten(groups) {
			if t, _, ok := op.Build(w); ok {
				covered[fmt.Sprint(uint8(t))] = true
			}
		}
	}
	var uncovered []string
	for _, t := range fsm.VerifRegisteredCommands() {
		if !covered[fmt.Sprint(uint8(t))] {
			uncovered = append(uncovered, t.String())
		}
	}
	c.Set("registered_command_types", len(fsm.VerifRegisteredCommands()))
	c.Set("command_types_without_alphabet_member", uncovered)

	phases := []phase{
		{"full-d1", nil, []string{"empty", "catalog+session", "mesh", "acl+ca", "peering+intentions", "legacy-intentions"}, 1},
		{"catalog-kv-session-txn", []string{"catalog", "kv", "session", "txn", "prepared-query"}, []string{"empty", "catalog+session"}, 2},
		{"config-catalog", []string{"config-entry", "catalog", "misc", "intention"}, []string{"mesh", "mesh+mutual-chains", "legacy-intentions"}, 2},
		{"acl-ca-misc", []string{"acl", "ca", "misc"}, []string{"empty", "acl+ca"}, 2},
		{"peering-resource-intention", []string{"peering", "resource", "intention"}, []string{"empty", "peering+intentions"}, 2},
	}
	if !quick {
		phases[0].depth = 2
		for i := 1; i < len(phases); i++ {
			phases[i].depth = 3
		}
	}
	replicas := 2
	if !quick {
		replicas = 3
	}

	var mu sync.Mutex
	digests := map[string]string{}
	hists := map[string][]string{}
	var childFile *os.File
	var cmd *exec.Cmd
	childOut := ""
	if child == "" {
		// replica in a second OS process, with its clock 1000 hours ahead
		f, err := os.CreateTemp("/verif/build", "c01-child-*.jsonl")
		if err == nil {
			childOut = f.Name()
			f.Close()
			cmd = exec.Command(os.Args[0], "-id", "C01", "-tier", c.Tier)
			cmd.Env = append(os.Environ(), "VERIF_C01_CHILD="+childOut, "VERIF_CLOCK_OFFSET=1000h", "VERIF_CLOCK_STEP=1h", "VERIF_NO_EVIDENCE=1", "VERIF_EPOCH="+os.Getenv("VERIF_EPOCH"))
			cmd.Stdout, cmd.Stderr = nil, os.Stderr
			if err := cmd.Start(); err != nil {
				cmd = nil
			}
		}
	} else {
		childFile, _ = os.Create(child)
		defer childFile.Close()
	}

	for pi, ph := range phases {
		alpha := cmdlib.Flatten(groups, ph.groups...)
		switch ph.name {
		case "acl-ca-misc", "full-d1":
			// a token written by replication that expires 500 h from now: in the future for this replica, in
			// the past for the one whose clock runs 1000 h ahead
			alpha = append(alpha, cmdlib.TokenSetReplicated("t3", 500*time.Hour), cmdlib.TokenSetReplicated("t1", 24*time.Hour))
		}
		if ph.name == "catalog-kv-session-txn" {
			// a lock whose holder had a lock delay: after the holder ends, acquiring the key again is refused for a while
			// by the leader's endpoint only; the delay table is wall-clock and never replicated, so no committed command
			// may consult it (the second-process replica applies every entry one hour after the previous one)
			alpha = append(alpha, cmdlib.SessionDestroy("s9"),
				cmdlib.KVSpec{Verb: api.KVLock, Key: "ld", Val: "x", Sess: "s1"}.Op(),
				cmdlib.Txn(cmdlib.KVSpec{Verb: api.KVLock, Key: "ld", Val: "x", Sess: "s1"}.TxnOp()),
				cmdlib.Txn(cmdlib.TxnSessionDelete("s9"), cmdlib.KVSpec{Verb: api.KVLock, Key: "ld", Val: "x", Sess: "s1"}.TxnOp()))
		}
		if ph.name == "catalog-kv-session-txn" || ph.name == "full-d1" {
			// one batch that names the same node twice, in different case
			alpha = append(alpha, cmdlib.CoordinateBatch([]string{"n1", "N1"}, []float64{0.25, 0.75}), cmdlib.CoordinateBatch([]string{"N1", "n1", "n2"}, []float64{0.5, 0.125, 1}))
		}
		if ph.name == "config-catalog" {
			// a resolver with several cross-datacenter failover entries, for a service that gets peer-exported
			alpha = append(alpha, cmdlib.Resolver("web", cmdlib.ResolverOpt{Subsets: []string{"v1", "v2", "v3"}, FailoverBySubset: map[string][]string{"v1": {"dc2"}, "v2": {"dc3"}, "v3": {"dc4"}}}).Upsert())
		}
		var seeds [][]world.Op
		for _, s := range ph.seeds {
			seeds = append(seeds, seedsAll[s])
		}
		if ph.name == "catalog-kv-session-txn" {
			ld := append(append([]world.Op{}, seedsAll["catalog+session"]...),
				cmdlib.SessionSpec{Name: "s9", Node: "n1", Behavior: structs.SessionKeysRelease, LockDelay: 15}.Create(),
				cmdlib.KVSpec{Verb: api.KVLock, Key: "ld", Val: "x", Sess: "s9"}.Op())
			seeds = append(seeds, ld)
		}
		cfg := &e1.Config{Ctx: c, Seeds: seeds, Alphabet: alpha, MaxDepth: ph.depth, New: newWorld, AuditMerges: 20, MaxStates: 400000}
		if quick {
			cfg.MaxStates = 60000
		}
		cfg.Post = func(t *e1.Trans) {
			d, full := digest(t.W, t.Result)
			key := fmt.Sprintf("%d/%d/%v/%d", pi, t.Node.Seed, t.Node.Path, t.OpIdx)
			mu.Lock()
			digests[key] = d
			if child == "" {
				hists[key] = t.Hist
			}
			mu.Unlock()
			if child != "" {
				return
			}
			// in-process replicas: fresh replays at a later instant (fresh map iteration order)
			for r := 1; r < replicas; r++ {
				w := newWorld()
				w.ApplyAll(cfg.Ops(t.Node))
				// this replica is a busy server: right before the last entry it writes a snapshot of its state (raft does
				// that whenever it likes), which serialises every stored object; nothing replicated may depend on that
				if _, err := w.Persist(); err != nil {
					t.Violate("C01:snapshot-fails", err.Error())
					return
				}
				res, _ := w.Apply(t.Op)
				d2, full2 := digest(w, res)
				if d2 != d {
					t.Violate("C01:replicas-diverge:"+diffClass(full, full2)+":last="+t.Op.Kind,
						"two replicas that applied the same log differ:\n"+firstDiff(full, full2))
					return
				}
			}
		}
		st := e1.Run(cfg)
		st.Report(c, ph.name+"_")
	}

	if child != "" {
		w := bufio.NewWriter(childFile)
		for k, d := range digests {
			b, _ := json.Marshal(rec{k, d})
			w.Write(b)
			w.WriteByte('\n')
		}
		w.Flush()
		return
	}

	// compare with the replica that ran in the other process
	compared, missing := 0, 0
	if cmd != nil {
		err := cmd.Wait()
		if err != nil {
			c.HarnessError("second-process replica failed: " + err.Error())
		} else {
			f, _ := os.Open(childOut)
			sc := bufio.NewScanner(f)
			sc.Buffer(make([]byte, 1<<20), 1<<20)
			other := map[string]string{}
			for sc.Scan() {
				var r rec
				if json.Unmarshal(sc.Bytes(), &r) == nil {
					other[r.K] = r.D
				}
			}
			f.Close()
			var keys []string
			for k := range digests {
				keys = append(keys, k)
			}
			sort.Slice(keys, func(i, j int) bool {
				return len(keys[i]) < len(keys[j]) || (len(keys[i]) == len(keys[j]) && keys[i] < keys[j])
			})
			for _, k := range keys {
				o, ok := other[k]
				if !ok {
					missing++
					continue
				}
				compared++
				if o != digests[k] {
					h := hists[k]
					last := ""
					if len(h) > 0 {
						last = h[len(h)-1]
					}
					c.Violate("C01:replica-in-other-process-diverges:last="+opKind(last),
						fmt.Sprintf("a replica in a second process with its clock %s ahead differs after the same log\nhistory: %s", "1000h", strings.Join(h, " ; ")),
						map[string]any{"ops": h, "clock_offset": "1000h"})
				}
			}
		}
		os.Remove(childOut)
	}
	if missing > 0 && !c.Capped() {
		c.Violate("C01:state-graphs-differ-between-processes", fmt.Sprintf("%d transitions explored here were not reached by the replica process (its state graph differs)", missing), nil)
	}
	c.Set("in_process_replicas", replicas)
	c.Set("cross_process_transitions_compared", compared)
	c.Set("cross_process_transitions_missing", missing)
	c.Set("clock_offset_of_second_process", "1000h")
	c.Set("rule", "BFS over every registered command type (accepted and rejected variants); after every transition the command result and the full 36-table dump plus resource store of N in-process replicas (fresh replays that write a snapshot right before the last entry) and one replica in a second OS process whose clock runs 1000h ahead and which applies every entry one hour after the previous one must be byte-identical")
	c.Sample(map[string]any{"phases": phases, "alphabet_size": len(cmdlib.Flatten(groups))})
	c.Assume("Go map iteration order cannot be enumerated; it is sampled by the N replicas of every transition (this part is amplification, not coverage)")
	c.Assume("the lock-delay map is deliberately not replicated and is not part of the comparison")
	_ = vtime.Offset
}

func opKind(name string) string {
	if i := strings.IndexAny(name, "(["); i > 0 {
		return name[:i]
	}
	return name
}

func firstDiff(a, b string) string {
	la, lb := strings.Split(a, "\n"), strings.Split(b, "\n")
	for i := 0; i < len(la) && i < len(lb); i++ {
		if la[i] != lb[i] {
			return "replica 1: " + trunc(la[i]) + "\nreplica 2: " + trunc(lb[i])
		}
	}
	return fmt.Sprintf("lengths differ: %d vs %d lines", len(la), len(lb))
}

func trunc(s string) string {
	if len(s) > 400 {
		return s[:400] + "…"
	}
	return s
}

func diffClass(a, b string) string {
	la, lb := strings.Split(a, "\n"), strings.Split(b, "\n")
	if len(la) > 0 && len(lb) > 0 && la[0] != lb[0] {
		return "result"
	}
	table := "?"
	for i := 0; i < len(la) && i < len(lb); i++ {
		if strings.HasPrefix(la[i], "== ") {
			table = strings.TrimPrefix(la[i], "== ")
		}
		if la[i] != lb[i] {
			return "table=" + table
		}
	}
	return "table=" + table
}
