// Package c13: intention decisions follow precedence, independent of write order.
package c13

import (
	"fmt"
	"runtime"
	"sort"
	"strings"
	"sync"
	"sync/atomic"

	"github.com/hashicorp/consul/agent/consul/state"
	"github.com/hashicorp/consul/agent/structs"
	"github.com/hashicorp/consul/internal/verifmc/cmdlib"
	"github.com/hashicorp/consul/internal/verifmc/ep"
	"github.com/hashicorp/consul/internal/verifmc/ev"
	"github.com/hashicorp/consul/internal/verifmc/world"
)

// ixn is one intention of the input universe.
type ixn struct {
	Src, Peer, Dst string
	Act            string // allow | deny | l7
}

func (i ixn) String() string {
	p := ""
	if i.Peer != "" {
		p = "~" + i.Peer
	}
	return i.Src + p + "->" + i.Dst + ":" + i.Act
}

func matches(pattern, name string) bool { return pattern == "*" || pattern == name }

func prec(i ixn) int {
	p := 0
	if i.Dst != "*" {
		p += 2 // destination specificity first
	}
	if i.Src != "*" {
		p++
	}
	return p
}

// refDecide is the reference: the single most specific matching intention decides, else the default.
func refDecide(set []ixn, src, peer, dst string, dflt bool) (allowed bool, hasPerms bool, winner *ixn) {
	for k := range set {
		i := set[k]
		if i.Peer != peer || !matches(i.Src, src) || !matches(i.Dst, dst) {
			continue
		}
		if winner == nil || prec(i) > prec(*winner) {
			w := i
			winner = &w
		}
	}
	if winner == nil {
		return dflt, false, nil
	}
	switch winner.Act {
	case "allow":
		return true, false, winner
	case "deny":
		return false, false, winner
	}
	return false, true, winner // L7: not decidable without a request; reported as HasPermissions, not allowed
}

var l7perm = []*structs.IntentionPermission{{Action: structs.IntentionActionAllow, HTTP: &structs.IntentionHTTPPermission{PathPrefix: "/"}}}

func src(i ixn) cmdlib.IxnSrc {
	s := cmdlib.IxnSrc{Name: i.Src, Peer: i.Peer}
	switch i.Act {
	case "allow":
		s.Action = structs.IntentionActionAllow
	case "deny":
		s.Action = structs.IntentionActionDeny
	default:
		s.Perms = l7perm
	}
	return s
}

// build writes the set in the given order: one config-entry upsert per intention, each carrying
// the sources written so far for that destination in write order (read-modify-write as the API does).
// buildRMW writes the same final set the way an API client doing read-modify-write does: every
// step reads the stored entry (which carries computed fields such as Precedence), edits it and
// writes it back; the first intention is first written under a different source name and then
// renamed.
func buildRMW(order []ixn) (*world.World, bool) {
	w := world.New()
	ok := func(r string) bool { return !strings.HasPrefix(r, "err:") && !strings.HasPrefix(r, "PANIC") }
	w.Apply(cmdlib.IntentionsInConfigEntries())
	w.Apply(cmdlib.SvcDefaults("x", "http").Upsert())
	w.Apply(cmdlib.ProxyDefaults("http").Upsert())
	stored := func(dst string) *structs.ServiceIntentionsConfigEntry {
		_, e, _ := w.Store().ConfigEntry(nil, structs.ServiceIntentions, dst, nil)
		if e == nil {
			return &structs.ServiceIntentionsConfigEntry{Kind: structs.ServiceIntentions, Name: dst}
		}
		return e.(*structs.ServiceIntentionsConfigEntry).Clone()
	}
	put := func(e *structs.ServiceIntentionsConfigEntry) bool {
		r, _ := w.Apply(cmdlib.CE{Label: "service-intentions/" + e.Name + "(rmw)", Make: func() structs.ConfigEntry { return e.Clone() }}.Upsert())
		return ok(r)
	}
	mk := func(i ixn) *structs.SourceIntention {
		s := src(i)
		return &structs.SourceIntention{Name: s.Name, Peer: s.Peer, Action: s.Action, Permissions: s.Perms}
	}
	for n, i := range order {
		e := stored(i.Dst)
		if n == 0 && i.Peer == "" {
			first := i
			if i.Src == "*" {
				first.Src = "zz"
			} else {
				first.Src = "*"
			}
			taken := false
			for _, o := range order {
				if o.Dst == i.Dst && o.Peer == "" && o.Src == first.Src {
					taken = true
				}
			}
			if !taken {
				e.Sources = append(e.Sources, mk(first))
				if !put(e) {
					return w, false
				}
				e = stored(i.Dst)
				e.Sources[len(e.Sources)-1].Name = i.Src // rename, keeping every other stored field
				if !put(e) {
					return w, false
				}
				continue
			}
		}
		e.Sources = append(e.Sources, mk(i))
		if !put(e) {
			return w, false
		}
	}
	return w, true
}

func build(order []ixn, legacy bool) (*world.World, bool) {
	w := world.New()
	ok := func(r string) bool { return !strings.HasPrefix(r, "err:") && !strings.HasPrefix(r, "PANIC") }
	if legacy {
		for n, i := range order {
			act := structs.IntentionActionAllow
			if i.Act == "deny" {
				act = structs.IntentionActionDeny
			}
			r, _ := w.Apply(cmdlib.LegacyIxnSet(fmt.Sprintf("i%d", n+1), i.Src, i.Dst, act, false))
			if !ok(r) {
				return w, false
			}
		}
		return w, true
	}
	w.Apply(cmdlib.IntentionsInConfigEntries())
	if r, _ := w.Apply(cmdlib.SvcDefaults("x", "http").Upsert()); !ok(r) { // L7 intentions need an http destination
		return w, false
	}
	w.Apply(cmdlib.ProxyDefaults("http").Upsert())
	byDst := map[string][]cmdlib.IxnSrc{}
	for _, i := range order {
		byDst[i.Dst] = append(byDst[i.Dst], src(i))
		r, _ := w.Apply(cmdlib.Intentions(i.Dst, byDst[i.Dst]...).Upsert())
		if !ok(r) {
			return w, false
		}
	}
	return w, true
}

func render(ixns structs.Intentions) string {
	var out []string
	for _, i := range ixns {
		p := ""
		if i.SourcePeer != "" {
			p = "~" + i.SourcePeer
		}
		a := string(i.Action)
		if len(i.Permissions) > 0 {
			a = "l7"
		}
		out = append(out, fmt.Sprintf("%s%s->%s:%s/p%d", i.SourceName, p, i.DestinationName, a, i.Precedence))
	}
	return strings.Join(out, " ")
}

func permutations(n int) [][]int {
	var out [][]int
	var rec func(cur []int, used []bool)
	rec = func(cur []int, used []bool) {
		if len(cur) == n {
			out = append(out, append([]int{}, cur...))
			return
		}
		for i := 0; i < n; i++ {
			if !used[i] {
				used[i] = true
				rec(append(cur, i), used)
				used[i] = false
			}
		}
	}
	rec(nil, make([]bool, n))
	return out
}

// repeatedSources: an entry that names one source twice (anywhere in its list, with whatever lies in between) holds two
// intentions for one pair with equal precedence; which of them decides would depend on how they were written. Such
// an entry must be refused.
func repeatedSources(c *ev.Ctx) {
	type sa struct {
		name, peer string
		act        structs.IntentionAction
	}
	var menu []sa
	for _, n := range [][2]string{{"a", ""}, {"b", ""}, {"*", ""}, {"a", "p1"}} {
		for _, act := range []structs.IntentionAction{structs.IntentionActionAllow, structs.IntentionActionDeny} {
			menu = append(menu, sa{n[0], n[1], act})
		}
	}
	var lists [][]sa
	var rec func(cur []sa)
	rec = func(cur []sa) {
		if len(cur) >= 2 {
			lists = append(lists, append([]sa{}, cur...))
		}
		if len(cur) == 3 {
			return
		}
		for _, m := range menu {
			rec(append(cur, m))
		}
	}
	rec(nil)
	var n, dups int64
	for _, l := range lists {
		seen := map[[2]string]bool{}
		dup := false
		for _, x := range l {
			k := [2]string{x.name, x.peer}
			if seen[k] {
				dup = true
			}
			seen[k] = true
		}
		if !dup {
			continue
		}
		dups++
		w := world.New()
		w.Apply(cmdlib.IntentionsInConfigEntries())
		e := &structs.ServiceIntentionsConfigEntry{Kind: structs.ServiceIntentions, Name: "x"}
		var label []string
		for _, x := range l {
			e.Sources = append(e.Sources, &structs.SourceIntention{Name: x.name, Peer: x.peer, Action: x.act})
			label = append(label, fmt.Sprintf("%s%s:%s", x.name, peerSfx(x.peer), x.act))
		}
		// (an entry refused by Normalize / Validate, which the endpoint runs before raft, never becomes a command)
		r, enabled := w.Apply(cmdlib.CE{Label: "service-intentions/x(repeated source)", Make: func() structs.ConfigEntry { return e.Clone() }}.Upsert())
		n++
		if enabled && !strings.HasPrefix(r, "err:") {
			c.Violate("C13:entry-naming-a-source-twice-accepted", fmt.Sprintf("service-intentions x with sources %v was accepted (%s): two intentions for one pair, the decision depends on their order", label, r),
				map[string]any{"sources": label})
		}
	}
	c.Set("entries_with_a_repeated_source_written", n)
}

func Run(c *ev.Ctx) {
	quick := c.Quick()
	repeatedSources(c)
	type key struct{ Src, Peer, Dst string }
	var tuples []key
	for _, d := range []string{"x", "*"} {
		for _, p := range []string{"", "p1"} {
			for _, s := range []string{"a", "b", "*"} {
				if s == "*" && p != "" {
					continue // a wildcard source cannot be combined with a peer
				}
				tuples = append(tuples, key{s, p, d})
			}
		}
	}
	maxK := 3
	if !quick {
		maxK = 4
	}
	acts := []string{"allow", "deny", "l7"}
	evals, sets, rejected := 0, 0, 0
	outcomes := map[string]bool{}
	var mu sync.Mutex
	type job struct {
		set         []ixn
		legacy, rmw bool
	}
	var jobs []job
	srcs := []string{"a", "b", "c"}
	dsts := []string{"x", "y"}

	checkSet := func(set []ixn, legacy bool, rmw bool) {
		mu.Lock()
		sets++
		mu.Unlock()
		lev, lrej := 0, 0
		lout := map[string]bool{}
		defer func() {
			mu.Lock()
			evals += lev
			rejected += lrej
			for k := range lout {
				outcomes[k] = true
			}
			mu.Unlock()
		}()
		perms := permutations(len(set))
		var firstMatch map[string]string
		for pi, perm := range perms {
			if c.Expired() {
				return
			}
			order := make([]ixn, len(set))
			for a, b := range perm {
				order[a] = set[b]
			}
			var w *world.World
			var ok bool
			if rmw {
				w, ok = buildRMW(order)
			} else {
				w, ok = build(order, legacy)
			}
			if !ok {
				lrej++
				return
			}
			st := w.Store()
			hist := w.Hist
			viol := func(sig, msg string) {
				c.Violate(sig, msg+"\nset: "+fmt.Sprint(set)+"\nwrite order: "+fmt.Sprint(order), map[string]any{"ops": hist})
			}
			matchOut := map[string]string{}
			peersQ := []string{"", "p1"}
			if legacy {
				peersQ = []string{""}
			}
			for _, d := range dsts {
				_, ixns, err := st.IntentionMatchOne(nil, structs.IntentionMatchEntry{Namespace: "default", Name: d}, structs.IntentionMatchDestination, structs.IntentionTargetService)
				if err != nil {
					viol("C13:match-error", err.Error())
					continue
				}
				matchOut["dst:"+d] = render(structs.Intentions(ixns))
				// list order: precedence descending
				for k := 1; k < len(ixns); k++ {
					if ixns[k-1].Precedence < ixns[k].Precedence {
						viol("C13:match-not-in-precedence-order:destination", fmt.Sprintf("match(destination,%s) = %s", d, render(structs.Intentions(ixns))))
					}
				}
				for _, s := range srcs {
					for _, p := range peersQ {
						for _, dflt := range []bool{false, true} {
							lev++
							got, err := st.IntentionDecision(state.IntentionDecisionOpts{Target: s, Namespace: "default", Partition: "default", Peer: p,
								Intentions: ixns, MatchType: structs.IntentionMatchSource, DefaultAllow: dflt})
							if err != nil {
								viol("C13:decision-error", err.Error())
								continue
							}
							wantAllow, wantPerms, win := refDecide(set, s, p, d, dflt)
							lout[fmt.Sprintf("%v/%v/%v", wantAllow, wantPerms, win != nil)] = true
							if got.Allowed != wantAllow || got.HasPermissions != wantPerms {
								w := "default"
								if win != nil {
									w = win.String()
								}
								viol(fmt.Sprintf("C13:decision-differs-from-precedence-rule:legacy=%v", legacy),
									fmt.Sprintf("%s%s -> %s (default allow=%v): decided allowed=%v perms=%v, the most specific matching intention is %s => allowed=%v perms=%v\nmatch list: %s",
										s, peerSfx(p), d, dflt, got.Allowed, got.HasPermissions, w, wantAllow, wantPerms, render(structs.Intentions(ixns))))
							}
						}
					}
				}
			}
			// source-side match + decision (local sources): same decision as the destination side
			for _, s := range srcs {
				_, ixns, err := st.IntentionMatchOne(nil, structs.IntentionMatchEntry{Namespace: "default", Name: s}, structs.IntentionMatchSource, structs.IntentionTargetService)
				if err != nil {
					viol("C13:match-error", err.Error())
					continue
				}
				matchOut["src:"+s] = render(structs.Intentions(ixns))
				for _, d := range dsts {
					for _, dflt := range []bool{false, true} {
						lev++
						var local structs.SimplifiedIntentions
						for _, i := range ixns {
							if i.SourcePeer == "" {
								local = append(local, i)
							}
						}
						got, _ := st.IntentionDecision(state.IntentionDecisionOpts{Target: d, Namespace: "default", Partition: "default",
							Intentions: local, MatchType: structs.IntentionMatchDestination, DefaultAllow: dflt})
						wantAllow, wantPerms, _ := refDecide(set, s, "", d, dflt)
						if got.Allowed != wantAllow || got.HasPermissions != wantPerms {
							viol(fmt.Sprintf("C13:source-side-decision-differs:legacy=%v", legacy),
								fmt.Sprintf("%s -> %s (default allow=%v) evaluated from the source side: allowed=%v perms=%v, precedence rule gives allowed=%v perms=%v\nsource match list: %s",
									s, d, dflt, got.Allowed, got.HasPermissions, wantAllow, wantPerms, render(structs.Intentions(ixns))))
						}
					}
				}
			}
			// legacy rows: an update by ID that would move one intention onto the (source, destination) pair of another one
			// has to be refused; two rows for one pair would make the decision depend on their IDs
			if legacy && pi == 0 && len(set) >= 2 {
				for a := range order {
					for b := range order {
						if a == b || order[a].Dst != order[b].Dst {
							continue
						}
						w2, ok2 := build(order, true)
						if !ok2 {
							continue
						}
						act := structs.IntentionActionDeny
						if order[b].Act == "deny" {
							act = structs.IntentionActionAllow
						}
						w2.Apply(cmdlib.LegacyIxnSet(fmt.Sprintf("i%d", a+1), order[b].Src, order[b].Dst, act, true))
						lev++
						_, all, _, _ := w2.Store().Intentions(nil, nil)
						seen := map[string]int{}
						for _, x := range all {
							seen[x.SourceName+"->"+x.DestinationName]++
						}
						for pair, n := range seen {
							if n > 1 {
								c.Violate("C13:two-intentions-for-one-pair-after-update:legacy=true",
									fmt.Sprintf("updating intention i%d to %s left %d intentions for the pair %s: %s", a+1, pair, n, pair, render(all)), map[string]any{"ops": w2.Hist})
							}
						}
					}
				}
			}
			// the same questions through the RPC endpoints a client reaches: Intention.Match, Intention.Check
			// (local source, which is what that endpoint decides) and Intention.List
			if pi == 0 || pi == len(perms)-1 {
				lev += endpointReads(c, w, set, legacy, srcs, dsts, matchOut, viol)
			}
			if pi == 0 {
				firstMatch = matchOut
			} else {
				for k, v := range matchOut {
					if firstMatch[k] != v {
						viol("C13:match-order-depends-on-write-order", fmt.Sprintf("match %s: %q for one write order, %q for another", k, firstMatch[k], v))
					}
				}
			}
		}
	}

	// enumerate sets of size <= maxK with distinct (src,peer,dst)
	var rec func(start int, cur []ixn)
	rec = func(start int, cur []ixn) {
		if len(cur) > 0 {
			jobs = append(jobs, job{append([]ixn{}, cur...), false, false})
			if len(cur) >= 2 && len(cur) <= 3 {
				jobs = append(jobs, job{append([]ixn{}, cur...), false, true})
			}
			legacyOK := true
			for _, i := range cur {
				if i.Peer != "" || i.Act == "l7" {
					legacyOK = false
				}
			}
			if legacyOK && len(cur) <= 3 {
				jobs = append(jobs, job{append([]ixn{}, cur...), true, false})
			}
		}
		if len(cur) == maxK || c.Expired() {
			return
		}
		for t := start; t < len(tuples); t++ {
			for _, a := range acts {
				if a == "l7" && (tuples[t].Dst == "*" || len(cur) >= 2) {
					continue // L7 needs an http destination; keep the L7 share of the space small
				}
				rec(t+1, append(append([]ixn{}, cur...), ixn{tuples[t].Src, tuples[t].Peer, tuples[t].Dst, a}))
			}
		}
	}
	rec(0, nil)
	var next int64 = -1
	var wg sync.WaitGroup
	for wk := 0; wk < runtime.NumCPU(); wk++ {
		wg.Add(1)
		go func() {
			defer wg.Done()
			for {
				i := int(atomic.AddInt64(&next, 1))
				if i >= len(jobs) || c.Expired() {
					return
				}
				checkSet(jobs[i].set, jobs[i].legacy, jobs[i].rmw)
			}
		}()
	}
	wg.Wait()

	c.Set("evaluations", evals)
	c.Set("intention_sets", sets)
	c.Set("sets_rejected_by_validation", rejected)
	c.Set("distinct_nontrivial", sets-rejected)
	c.Set("distinct_outcome_classes", len(outcomes))
	c.Set("max_set_size", maxK)
	c.Set("rule", "every set of <=K intentions over sources {a,b,*}x{local,peer p1}, destinations {x,*}, actions {allow,deny,L7}; every write order (config-entry representation with incremental source lists; legacy rows when format is legacy); every (source in {a,b,c}, peer, destination in {x,y}, default) decided through IntentionMatchOne+IntentionDecision from both sides and compared with the reference precedence evaluator; match lists must be precedence-ordered and identical for all write orders; for the first and last write order the same is asked through the RPC endpoints Intention.Match, Intention.Check (both default policies) and Intention.List on a Server value over that state")
	keys := make([]string, 0, len(outcomes))
	for k := range outcomes {
		keys = append(keys, k)
	}
	sort.Strings(keys)
	c.Sample(map[string]any{"tuples": tuples, "outcome_classes(allowed/perms/matched)": keys})
}

func peerSfx(p string) string {
	if p == "" {
		return ""
	}
	return "~" + p
}

func maxInt(a, b int) int {
	if a > b {
		return a
	}
	return b
}

// endpointReads asks the RPC endpoints. Intention.Check decides for a local source service; an intention
// with L7 permissions counts as "not allowed" there (no request to evaluate).
func endpointReads(c *ev.Ctx, w *world.World, set []ixn, legacy bool, srcs, dsts []string, matchOut map[string]string, viol func(sig, msg string)) int {
	srv, err := ep.Open(w)
	if err != nil {
		c.HarnessError("endpoint server: " + err.Error())
		return 0
	}
	defer srv.Close()
	n := 0
	ix := srv.VS.Intention()
	for _, side := range []struct {
		typ   structs.IntentionMatchType
		names []string
		tag   string
	}{{structs.IntentionMatchDestination, dsts, "dst:"}, {structs.IntentionMatchSource, srcs, "src:"}} {
		for _, name := range side.names {
			var reply structs.IndexedIntentionMatches
			err := ix.Match(&structs.IntentionQueryRequest{Datacenter: cmdlib.DC, Match: &structs.IntentionQueryMatch{Type: side.typ,
				Entries: []structs.IntentionMatchEntry{{Namespace: "default", Name: name}}}}, &reply)
			n++
			if err != nil {
				viol("C13:endpoint-match-error", err.Error())
				continue
			}
			got := ""
			if len(reply.Matches) == 1 {
				got = render(reply.Matches[0])
			} else if len(reply.Matches) != 0 {
				viol("C13:endpoint-match-shape", fmt.Sprintf("Intention.Match for one entry returned %d lists", len(reply.Matches)))
			}
			if want := matchOut[side.tag+name]; got != want {
				viol("C13:endpoint-match-differs-from-store:"+side.tag, fmt.Sprintf("Intention.Match(%s%s) = %q, the store's match list is %q", side.tag, name, got, want))
			}
		}
	}
	for _, dflt := range []bool{false, true} {
		srv.VS.Srv.VerifConfig().DefaultIntentionPolicy = map[bool]string{false: "deny", true: "allow"}[dflt]
		for _, s := range srcs {
			for _, d := range dsts {
				var reply structs.IntentionQueryCheckResponse
				err := ix.Check(&structs.IntentionQueryRequest{Datacenter: cmdlib.DC, Check: &structs.IntentionQueryCheck{
					SourceNS: "default", SourceName: s, DestinationNS: "default", DestinationName: d, SourceType: structs.IntentionSourceConsul}}, &reply)
				n++
				if err != nil {
					viol("C13:endpoint-check-error", err.Error())
					continue
				}
				wantAllow, wantPerms, win := refDecide(set, s, "", d, dflt)
				if wantPerms {
					wantAllow = false
				}
				if reply.Allowed != wantAllow {
					wn := "default"
					if win != nil {
						wn = win.String()
					}
					viol(fmt.Sprintf("C13:endpoint-check-differs-from-precedence-rule:legacy=%v", legacy),
						fmt.Sprintf("Intention.Check %s -> %s (default allow=%v) answers allowed=%v; the most specific matching intention for the local service %s is %s => allowed=%v",
							s, d, dflt, reply.Allowed, s, wn, wantAllow))
				}
			}
		}
	}
	var list structs.IndexedIntentions
	err = ix.List(&structs.IntentionListRequest{Datacenter: cmdlib.DC, Legacy: false}, &list)
	n++
	if err != nil {
		viol("C13:endpoint-list-error", err.Error())
		return n
	}
	for k := 1; k < len(list.Intentions); k++ {
		if list.Intentions[k-1].Precedence < list.Intentions[k].Precedence {
			viol("C13:endpoint-list-not-in-precedence-order", fmt.Sprintf("Intention.List = %s", render(list.Intentions)))
		}
	}
	if len(list.Intentions) != len(set) {
		viol("C13:endpoint-list-incomplete", fmt.Sprintf("Intention.List returns %d intentions, %d were written: %s", len(list.Intentions), len(set), render(list.Intentions)))
	}
	return n
}
