package c04

import (
	"fmt"
	"time"

	"github.com/hashicorp/consul/agent/consul"
	"github.com/hashicorp/consul/agent/structs"
	"github.com/hashicorp/consul/api"
	"github.com/hashicorp/consul/internal/verifmc/cmdlib"
	"github.com/hashicorp/consul/internal/verifmc/ev"
	"github.com/hashicorp/consul/internal/verifmc/vtime"
	"github.com/hashicorp/consul/internal/verifmc/world"
)

// ttlPart: the leader's session TTL timers (agent/consul/session_ttl.go) on a Server value. Sessions are created
// through Session.Apply with every TTL spelling of a small grammar; a session whose TTL is a positive duration must
// have an expiry timer after creation, after a renewal and after a new leader rebuilt the timers from the state, a
// session without TTL must have none, and what the timer runs ends the session and releases / deletes its keys in
// that step (the state invariants of the main part are evaluated on the result).
func ttlPart(c *ev.Ctx) {
	vtime.ParkTimers(true) // timers are created stopped: the harness decides when one "fires"
	defer vtime.ParkTimers(false)
	ttls := []string{"", "0s", "0m", "10s", "15s", "90s", "0.5m", "0h0m30s", "1m30s", "00h1m", "0.25h"}
	behaviors := []structs.SessionBehavior{structs.SessionKeysRelease, structs.SessionKeysDelete}
	n := 0
	for _, ttl := range ttls {
		for _, beh := range behaviors {
			for _, path := range []string{"create", "create+renew", "create+failover"} {
				if c.Expired() {
					return
				}
				w := world.New()
				w.ApplyAll([]world.Op{cmdlib.RegNode(cmdlib.NodeSpec{Node: "n1"})})
				vs, err := consul.VerifNewServer(w.BoundFSM(), func(buf []byte) interface{} { return w.ApplyEncoded("rpc", buf) })
				if err != nil {
					c.HarnessError("server: " + err.Error())
					return
				}
				desc := fmt.Sprintf("session with TTL %q (behaviour %s), %s", ttl, beh, path)
				replay := map[string]any{"ttl": ttl, "behavior": string(beh), "path": path}
				var id string
				err = vs.Session().Apply(&structs.SessionRequest{Datacenter: cmdlib.DC, Op: structs.SessionCreate,
					Session: structs.Session{Node: "n1", TTL: ttl, Behavior: beh, LockDelay: 0}}, &id)
				d, perr := time.ParseDuration(ttl)
				positive := ttl != "" && perr == nil && d > 0
				if err != nil {
					// the endpoint may refuse a TTL outside its limits; then nothing exists
					if _, sl, _ := w.Store().SessionList(nil, nil); len(sl) != 0 {
						c.Violate("C04:ttl:refused-create-left-a-session", desc+": "+err.Error(), replay)
					}
					vs.Close()
					continue
				}
				n++
				srv := vs.Srv
				switch path {
				case "create+renew":
					var rep structs.IndexedSessions
					if err := vs.Session().Renew(&structs.SessionSpecificRequest{Datacenter: cmdlib.DC, SessionID: id}, &rep); err != nil {
						c.Violate("C04:ttl:renew-fails", desc+": "+err.Error(), replay)
					}
				case "create+failover":
					vs.Close()
					vs, err = consul.VerifNewServer(w.BoundFSM(), func(buf []byte) interface{} { return w.ApplyEncoded("rpc", buf) })
					if err != nil {
						c.HarnessError("server: " + err.Error())
						return
					}
					srv = vs.Srv
					if err := srv.VerifInitializeSessionTimers(); err != nil {
						c.Violate("C04:ttl:initialize-timers-fails", desc+": "+err.Error(), replay)
					}
				}
				armed := srv.VerifSessionTimerArmed(id)
				if armed != positive {
					c.Violate(fmt.Sprintf("C04:ttl:expiry-timer-armed=%v-for-ttl-positive=%v:%s", armed, positive, path),
						fmt.Sprintf("%s: expiry timer armed=%v although the TTL is a positive duration=%v (the session would %s)", desc, armed, positive,
							map[bool]string{true: "never expire", false: "be expired although it has no TTL"}[positive]), replay)
				}
				// the session takes a lock; then what the timer runs happens
				var ok bool
				vs.KVS().Apply(&structs.KVSRequest{Datacenter: cmdlib.DC, Op: api.KVLock, DirEnt: structs.DirEntry{Key: "a", Value: []byte("x"), Session: id}}, &ok)
				if !ok {
					c.Violate("C04:ttl:lock-refused", desc+": a fresh session could not lock a free key", replay)
				}
				srv.VerifExpireSession(id)
				_, sess, _ := w.Store().SessionGet(nil, id, nil)
				_, e, _ := w.Store().KVSGet(nil, "a", nil)
				if sess != nil {
					c.Violate("C04:ttl:session-survives-its-expiry", desc+": the session still exists after its expiry ran", replay)
				}
				switch {
				case beh == structs.SessionKeysDelete && e != nil:
					c.Violate("C04:ttl:key-not-deleted-at-expiry", desc+": key a still exists", replay)
				case beh == structs.SessionKeysRelease && (e == nil || e.Session != ""):
					c.Violate("C04:ttl:key-not-released-at-expiry", fmt.Sprintf("%s: key a after expiry: %+v", desc, e), replay)
				}
				if srv.VerifSessionTimerArmed(id) {
					c.Violate("C04:ttl:timer-left-behind", desc+": a timer for the ended session is still registered", replay)
				}
				StateInvariants(w, func(sig, msg string) { c.Violate(sig+":ttl", msg+"\n"+desc, replay) }, "ttl-expiry")
				vs.Close()
			}
		}
	}
	c.Set("ttl_sessions_checked", n)
	c.Set("ttl_spellings", ttls)
}
