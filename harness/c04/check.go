// Package c04: locks — one holder, only live sessions, released whenever the session ends.
package c04

import (
	"fmt"
	"github.com/hashicorp/consul/types"
	"sort"
	"strings"

	"github.com/hashicorp/consul/agent/structs"
	"github.com/hashicorp/consul/api"
	"github.com/hashicorp/consul/internal/verifmc/cmdlib"
	"github.com/hashicorp/consul/internal/verifmc/e1"
	"github.com/hashicorp/consul/internal/verifmc/ev"
	"github.com/hashicorp/consul/internal/verifmc/world"
)

// obs is what the transition oracle needs from a state.
type obs struct {
	kv       map[string]structs.DirEntry
	sessions map[string]structs.Session
}

func observe(w *world.World) *obs {
	o := &obs{kv: map[string]structs.DirEntry{}, sessions: map[string]structs.Session{}}
	_, ents, _ := w.Store().KVSList(nil, "", nil)
	for _, e := range ents {
		o.kv[e.Key] = *e
	}
	_, sl, _ := w.Store().SessionList(nil, nil)
	for _, s := range sl {
		o.sessions[s.ID] = *s
	}
	return o
}

// StateInvariants: I1 no dangling holder, I2 no dangling check link / session-bound query,
// I3 every session's node exists and none of its bound checks is missing or critical.
func StateInvariants(w *world.World, violate func(sig, msg string), last string) {
	st := w.Store()
	o := observe(w)
	for k, e := range o.kv {
		if e.Session != "" {
			if _, ok := o.sessions[e.Session]; !ok {
				violate("C04:I1-dangling-holder:last="+last, fmt.Sprintf("key %q is held by session %s which does not exist", k, e.Session))
			}
		}
	}
	for _, sc := range st.VerifSessionChecks() {
		if _, ok := o.sessions[sc.Session]; !ok {
			violate("C04:I2-dangling-check-link:last="+last, fmt.Sprintf("session_checks row (node %s, check %s) references missing session %s", sc.Node, sc.CheckID, sc.Session))
		}
	}
	_, pqs, _ := st.PreparedQueryList(nil)
	for _, q := range pqs {
		if q.Session != "" {
			if _, ok := o.sessions[q.Session]; !ok {
				violate("C04:I2-dangling-query:last="+last, fmt.Sprintf("prepared query %s is bound to missing session %s", q.ID, q.Session))
			}
		}
	}
	for id, s := range o.sessions {
		_, n, _ := st.GetNode(s.Node, nil, "")
		if n == nil {
			violate("C04:I3-session-without-node:last="+last, fmt.Sprintf("session %s lives on node %q which is not registered", id, s.Node))
			continue
		}
		// every list a session can name checks in (the statement does not distinguish them)
		bound := map[types.CheckID]bool{}
		for _, cid := range s.Checks {
			bound[cid] = true
		}
		for _, cid := range s.NodeChecks {
			bound[types.CheckID(cid)] = true
		}
		for _, sc := range s.ServiceChecks {
			bound[types.CheckID(sc.ID)] = true
		}
		var cids []types.CheckID
		for cid := range bound {
			cids = append(cids, cid)
		}
		sort.Slice(cids, func(i, j int) bool { return cids[i] < cids[j] })
		for _, cid := range cids {
			_, hc, _ := st.NodeCheck(s.Node, cid, nil, "")
			if hc == nil {
				violate("C04:I3-session-check-missing:last="+last, fmt.Sprintf("session %s is bound to check %q which does not exist", id, cid))
				continue
			}
			if hc.Status == api.HealthCritical && hc.Type != "session" {
				violate("C04:I3-session-check-critical:last="+last, fmt.Sprintf("session %s survives although its check %q is critical", id, cid))
			}
		}
	}
}

// transition rules T1 (session end releases/deletes its keys in the same step) and T2 (lock and
// unlock verdicts).
func transition(t *e1.Trans, lockOps map[string]cmdlib.KVSpec) {
	pre := t.Pre.(*obs)
	post := observe(t.W)
	for id, s := range pre.sessions {
		if _, alive := post.sessions[id]; alive {
			continue
		}
		for k, e := range pre.kv {
			if e.Session != id {
				continue
			}
			pe, exists := post.kv[k]
			if s.Behavior == structs.SessionKeysDelete {
				if exists && pe.Session == id {
					t.Violate("C04:T1-key-not-deleted:last="+t.Op.Kind, fmt.Sprintf("session %s (behaviour delete) ended but key %q is still held by it", id, k))
				} else if exists && pe.CreateIndex == e.CreateIndex {
					t.Violate("C04:T1-key-not-deleted:last="+t.Op.Kind, fmt.Sprintf("session %s (behaviour delete) ended but key %q survives", id, k))
				}
				continue
			}
			switch {
			case !exists:
				// allowed only if the same command deleted the key explicitly (delete / delete-tree in a txn)
				if !strings.Contains(t.Op.Kind, "delete") {
					t.Violate("C04:T1-key-lost:last="+t.Op.Kind, fmt.Sprintf("session %s (behaviour release) ended and key %q disappeared", id, k))
				}
			case pe.Session == id:
				t.Violate("C04:T1-key-not-released:last="+t.Op.Kind, fmt.Sprintf("session %s ended but key %q is still held by it", id, k))
			}
		}
	}
	// T2: direct lock/unlock verdicts
	if k, ok := lockOps[t.Op.Name]; ok {
		sid := cmdlib.SessionIDs[k.Sess]
		pe, existed := pre.kv[k.Key]
		_, live := pre.sessions[sid]
		holder := ""
		if existed {
			holder = pe.Session
		}
		switch k.Verb {
		case api.KVLock:
			want := live && (holder == "" || holder == sid)
			got := t.Result == "true"
			if got != want {
				t.Violate("C04:T2-lock-verdict:last="+t.Op.Kind, fmt.Sprintf("lock %q by %s: result %s, but holder before was %q and session live=%v", k.Key, k.Sess, t.Result, holder, live))
			} else if got {
				if post := observe(t.W).kv[k.Key]; post.Session != sid {
					t.Violate("C04:T2-lock-effect:last="+t.Op.Kind, fmt.Sprintf("lock %q by %s reported success but holder is %q", k.Key, k.Sess, post.Session))
				}
			}
		case api.KVUnlock:
			want := existed && holder == sid
			got := t.Result == "true"
			if got != want {
				t.Violate("C04:T2-unlock-verdict:last="+t.Op.Kind, fmt.Sprintf("unlock %q by %s: result %s, but holder before was %q", k.Key, k.Sess, t.Result, holder))
			}
		}
		if t.Result != "true" {
			// a refused lock/unlock changes nothing
			if a, b := fmt.Sprint(pre.kv[k.Key]), fmt.Sprint(post.kv[k.Key]); a != b {
				t.Violate("C04:T2-refused-but-changed:last="+t.Op.Kind, fmt.Sprintf("%s refused (%s) but key changed: %s -> %s", t.Op.Name, t.Result, a, b))
			}
		}
	}
	// state invariants on the successor (cheap; also run by the engine on every distinct state)
	StateInvariants(t.W, t.Violate, t.Op.Kind)
}

func Run(c *ev.Ctx) {
	quick := c.Quick()
	n1 := cmdlib.NodeSpec{Node: "n1", ID: "id1"}
	n1b := cmdlib.NodeSpec{Node: "n1b", ID: "id1"} // rename by ID
	n2 := cmdlib.NodeSpec{Node: "n2"}
	web := cmdlib.SvcSpec{Name: "web", Port: 80}
	c1 := cmdlib.CheckSpec{ID: "c1", Status: api.HealthPassing}
	c1crit := cmdlib.CheckSpec{ID: "c1", Status: api.HealthCritical}
	c1warn := cmdlib.CheckSpec{ID: "c1", Status: api.HealthWarning}
	c1dflt := cmdlib.CheckSpec{ID: "c1", Status: ""} // status omitted: the store defaults it to critical
	sc1 := cmdlib.CheckSpec{ID: "sc1", Status: api.HealthPassing, ServiceID: "web"}
	sc1crit := cmdlib.CheckSpec{ID: "sc1", Status: api.HealthCritical, ServiceID: "web"}
	sessCk := cmdlib.CheckSpec{ID: "sessck", Status: api.HealthCritical, Type: "session", SessName: "lockname"}

	s1 := cmdlib.SessionSpec{Name: "s1", Node: "n1", Behavior: structs.SessionKeysRelease, NodeChecks: []string{"c1"}}
	s2 := cmdlib.SessionSpec{Name: "s2", Node: "n1", Behavior: structs.SessionKeysDelete, NodeChecks: []string{"sc1"}}
	s3 := cmdlib.SessionSpec{Name: "s3", Node: "n2", Behavior: structs.SessionKeysRelease, SessName: "lockname"}
	s4 := cmdlib.SessionSpec{Name: "s4", Node: "n1", Behavior: structs.SessionKeysDelete, NodeChecks: []string{"c1"}} // shares c1 with s1

	// bound to a check of type "session", which may be critical while the session lives; deleting the check ends it
	// an older client: the deprecated Checks list next to NodeChecks
	s6 := cmdlib.SessionSpec{Name: "s6", Node: "n1", Behavior: structs.SessionKeysRelease, LegacyChecks: []string{"c1"}, NodeChecks: []string{"sc1"}}
	s5 := cmdlib.SessionSpec{Name: "s5", Node: "n2", Behavior: structs.SessionKeysDelete, NodeChecks: []string{"sessck"}}

	lockOps := map[string]cmdlib.KVSpec{}
	var alpha []world.Op
	keys := []string{"a", "a/b"}
	for _, k := range keys {
		for _, s := range []string{"s1", "s2", "s3", "s4"} {
			for _, v := range []api.KVOp{api.KVLock, api.KVUnlock} {
				sp := cmdlib.KVSpec{Verb: v, Key: k, Val: "x", Sess: s}
				lockOps[sp.Name()] = sp
				alpha = append(alpha, sp.Op())
			}
		}
		alpha = append(alpha, cmdlib.KVSpec{Verb: api.KVSet, Key: k, Val: "y"}.Op(), cmdlib.KVSpec{Verb: api.KVDelete, Key: k}.Op())
	}
	alpha = append(alpha, cmdlib.KVSpec{Verb: api.KVDeleteTree, Key: "a"}.Op())
	// plain (non-lock) writes that carry a session value: a live one, and one that never existed
	for _, k := range keys {
		alpha = append(alpha, cmdlib.KVSpec{Verb: api.KVSet, Key: k, Val: "w", Sess: "s1"}.Op(), cmdlib.KVSpec{Verb: api.KVSet, Key: k, Val: "w", Sess: "s9"}.Op(),
			cmdlib.KVSpec{Verb: api.KVCAS, Key: k, Val: "w", Sess: "s9", Idx: cmdlib.IdxZero, UseIdx: true}.Op(),
			cmdlib.Txn(cmdlib.KVSpec{Verb: api.KVSet, Key: k, Val: "w", Sess: "s9"}.TxnOp()))
	}
	{
		sp := cmdlib.KVSpec{Verb: api.KVLock, Key: "a", Val: "x", Sess: "s5"}
		lockOps[sp.Name()] = sp
		alpha = append(alpha, sp.Op(), s5.Create(), cmdlib.SessionDestroy("s5"), cmdlib.Txn(cmdlib.TxnCheck(api.CheckDelete, "n2", sessCk, 0)))
	}
	{
		sp := cmdlib.KVSpec{Verb: api.KVLock, Key: "a/b", Val: "x", Sess: "s6"}
		lockOps[sp.Name()] = sp
		alpha = append(alpha, sp.Op(), s6.Create(), cmdlib.SessionDestroy("s6"))
	}
	alpha = append(alpha, s1.Create(), s2.Create(), s3.Create(), s4.Create(), cmdlib.SessionDestroy("s1"), cmdlib.SessionDestroy("s2"), cmdlib.SessionDestroy("s3"), cmdlib.SessionDestroy("s4"))
	alpha = append(alpha,
		cmdlib.RegNode(n1), cmdlib.RegNode(n1b), cmdlib.RegNode(n2),
		cmdlib.RegService(n1, web),
		cmdlib.RegCheck(n1, c1), cmdlib.RegCheck(n1, c1crit), cmdlib.RegCheck(n1, c1warn), cmdlib.RegCheck(n1, c1dflt),
		cmdlib.Txn(cmdlib.TxnCheck(api.CheckSet, "n1", c1dflt, 0)),
		cmdlib.RegCheck(n1, sc1), cmdlib.RegCheck(n1, sc1crit),
		cmdlib.RegCheck(n2, sessCk),
		cmdlib.DeregCheck("n1", "c1", ""), cmdlib.DeregCheck("n1", "sc1", ""), cmdlib.DeregCheck("n2", "sessck", ""),
		cmdlib.DeregService("n1", "web", ""), cmdlib.DeregNode("n1", ""), cmdlib.DeregNode("n2", ""),
		cmdlib.PQSet("q1", "q-one", "s1", "web"), cmdlib.PQSet("q2", "q-two", "s2", "web"), cmdlib.PQDelete("q1"),
		cmdlib.Txn(cmdlib.TxnCheck(api.CheckSet, "n1", c1crit, 0)),
		cmdlib.Txn(cmdlib.TxnCheck(api.CheckSet, "n1", sc1crit, 0)),
		cmdlib.Txn(cmdlib.TxnCheck(api.CheckCAS, "n1", c1crit, cmdlib.IdxCurrent)),
		cmdlib.Txn(cmdlib.TxnCheck(api.CheckDelete, "n1", c1, 0)),
		cmdlib.Txn(cmdlib.TxnCheck(api.CheckDeleteCAS, "n1", sc1, cmdlib.IdxCurrent)),
		cmdlib.Txn(cmdlib.TxnService(api.ServiceDelete, "n1", web, 0)),
		cmdlib.Txn(cmdlib.TxnNode(api.NodeDelete, n1, 0)),
		cmdlib.Txn(cmdlib.TxnNode(api.NodeDeleteCAS, n1, cmdlib.IdxCurrent)),
		cmdlib.Txn(cmdlib.TxnNode(api.NodeSet, n1b, 0)),
		cmdlib.Txn(cmdlib.TxnSessionDelete("s1")),
		cmdlib.Txn(cmdlib.TxnSessionDelete("s2")),
		cmdlib.Txn(cmdlib.KVSpec{Verb: api.KVLock, Key: "a", Val: "x", Sess: "s1"}.TxnOp(), cmdlib.TxnSessionDelete("s1")),
		cmdlib.Txn(cmdlib.TxnSessionDelete("s2"), cmdlib.KVSpec{Verb: api.KVSet, Key: "a/b", Val: "z"}.TxnOp()),
		cmdlib.Txn(cmdlib.TxnSessionDelete("s1"), cmdlib.KVSpec{Verb: api.KVDeleteTree, Key: "a"}.TxnOp()),
	)

	base := []world.Op{cmdlib.RegNode(n1), cmdlib.RegNode(n2), cmdlib.RegService(n1, web), cmdlib.RegCheck(n1, c1), cmdlib.RegCheck(n1, sc1), cmdlib.RegCheck(n2, sessCk)}
	lock := func(k, s string) world.Op { return cmdlib.KVSpec{Verb: api.KVLock, Key: k, Val: "x", Sess: s}.Op() }
	seeds := [][]world.Op{
		nil,
		base,
		append(append([]world.Op{}, base...), s1.Create(), s2.Create(), s3.Create(), lock("a", "s1"), lock("a/b", "s2"),
			cmdlib.PQSet("q1", "q-one", "s1", "web"), cmdlib.PQSet("q2", "q-two", "s2", "web")),
		append(append([]world.Op{}, base...), s3.Create(), lock("a", "s3"), s1.Create(), lock("a/b", "s1")),
		append(append([]world.Op{}, base...), s1.Create(), s4.Create(), lock("a", "s1"), lock("a/b", "s4")),
		append(append([]world.Op{}, base...), s5.Create(), lock("a", "s5"), cmdlib.PQSet("q1", "q-one", "s5", "web")),
		append(append([]world.Op{}, base...), s6.Create(), lock("a", "s6"), cmdlib.PQSet("q1", "q-one", "s6", "web")),
	}
	depth := 3
	if !quick {
		depth = 4
	}
	cfg := &e1.Config{Ctx: c, Seeds: seeds, Alphabet: alpha, MaxDepth: depth, AuditMerges: 60,
		Pre:       func(w *world.World) any { return observe(w) },
		Post:      func(t *e1.Trans) { transition(t, lockOps) },
		MaxStates: 500000,
	}
	if quick {
		cfg.MaxStates = 40000
	}
	st := e1.Run(cfg)
	st.Report(c, "")
	c.Set("alphabet_size", len(alpha))
	c.Set("seeds", len(seeds))
	c.Set("rule", "every op sequence up to max_depth from each seed; invariants I1-I3 on every distinct state, T1/T2 on every transition")
	var an []string
	for _, o := range alpha {
		an = append(an, o.Name)
	}
	c.Sample(map[string]any{"alphabet": an})
	ttlPart(c)
	c.Assume("TTL expiry: the leader's timers are checked for existence (armed iff the TTL is a positive duration) after create, renew and leader failover, and the function a timer runs is executed by the harness; the passage of real time until a timer fires is not modelled")
}
