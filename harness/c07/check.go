// Package c07: catalog integrity — no orphans, complete cascades, derived views agree.
package c07

import (
	"fmt"
	"sort"
	"strings"

	"github.com/hashicorp/consul/agent/consul/state"
	"github.com/hashicorp/consul/agent/structs"
	"github.com/hashicorp/consul/api"
	"github.com/hashicorp/consul/internal/verifmc/cmdlib"
	"github.com/hashicorp/consul/internal/verifmc/dump"
	"github.com/hashicorp/consul/internal/verifmc/e1"
	"github.com/hashicorp/consul/internal/verifmc/ev"
	"github.com/hashicorp/consul/internal/verifmc/world"
)

type base struct {
	nodes    []*structs.Node
	services []*structs.ServiceNode
	checks   []*structs.HealthCheck
	coords   []*structs.Coordinate
	entries  []structs.ConfigEntry
	sysmeta  []*structs.SystemMetadataEntry
}

func readBase(st *state.Store) *base {
	b := &base{}
	for _, r := range st.VerifTable("nodes") {
		b.nodes = append(b.nodes, r.(*structs.Node))
	}
	for _, r := range st.VerifTable("services") {
		b.services = append(b.services, r.(*structs.ServiceNode))
	}
	for _, r := range st.VerifTable("checks") {
		b.checks = append(b.checks, r.(*structs.HealthCheck))
	}
	for _, r := range st.VerifTable("coordinates") {
		b.coords = append(b.coords, r.(*structs.Coordinate))
	}
	for _, r := range st.VerifTable("config-entries") {
		b.entries = append(b.entries, r.(structs.ConfigEntry))
	}
	for _, r := range st.VerifTable("system-metadata") {
		b.sysmeta = append(b.sysmeta, r.(*structs.SystemMetadataEntry))
	}
	return b
}

func nkey(peer, node string) string { return peer + "|" + strings.ToLower(node) }

// Invariants evaluates (a) orphan/cascade, (b) recomputed views, (c) gateway-link rules, (d) VIP rules.
func Invariants(w *world.World, violate func(sig, msg string), last string) {
	st := w.Store()
	b := readBase(st)
	v := func(what, msg string) { violate("C07:"+what, msg) }

	// (a) no orphans
	nodes := map[string]bool{}
	for _, n := range b.nodes {
		nodes[nkey(n.PeerName, n.Node)] = true
	}
	svcs := map[string]*structs.ServiceNode{}
	for _, s := range b.services {
		if !nodes[nkey(s.PeerName, s.Node)] {
			v("orphan-service", fmt.Sprintf("service instance %s on node %q (peer %q) but the node is not registered", s.ServiceID, s.Node, s.PeerName))
		}
		svcs[nkey(s.PeerName, s.Node)+"|"+s.ServiceID] = s
	}
	for _, c := range b.checks {
		if !nodes[nkey(c.PeerName, c.Node)] {
			v("orphan-check", fmt.Sprintf("check %s on node %q (peer %q) but the node is not registered", c.CheckID, c.Node, c.PeerName))
		}
		if c.ServiceID != "" && svcs[nkey(c.PeerName, c.Node)+"|"+c.ServiceID] == nil {
			v("orphan-service-check", fmt.Sprintf("check %s refers to service instance %q on node %q which is not registered", c.CheckID, c.ServiceID, c.Node))
		}
	}
	for _, c := range b.coords {
		if !nodes[nkey("", c.Node)] {
			v("orphan-coordinate", fmt.Sprintf("coordinate for node %q but the node is not registered", c.Node))
		}
	}

	// (b1) kind-service-names recomputed from local registrations and destination entries
	want := map[string]bool{}
	for _, s := range b.services {
		if s.PeerName != "" {
			continue
		}
		want[string(s.ServiceKind)+"/"+s.ServiceName] = true
		if s.ServiceKind == structs.ServiceKindConnectProxy && s.ServiceProxy.DestinationServiceName != "" {
			want[string(structs.ServiceKindConnectEnabled)+"/"+s.ServiceProxy.DestinationServiceName] = true
		}
		if s.ServiceConnect.Native {
			want[string(structs.ServiceKindConnectEnabled)+"/"+s.ServiceName] = true
		}
	}
	for _, e := range b.entries {
		if sd, ok := e.(*structs.ServiceConfigEntry); ok && sd.Destination != nil {
			want[string(structs.ServiceKindDestination)+"/"+sd.Name] = true
		}
	}
	got := map[string]bool{}
	for _, r := range st.VerifTable("kind-service-names") {
		k := r.(*state.KindServiceName)
		got[string(k.Kind)+"/"+k.Service.Name] = true
	}
	if d := setDiff(want, got); d != "" {
		v("kind-service-names", "service names by kind differ from what the registrations imply (-missing +extra): "+d)
	}

	// (b2) upstream/downstream topology recomputed from proxy registrations and ingress links
	wantTopo := map[string]map[string]bool{}
	for _, s := range b.services {
		if s.ServiceKind != structs.ServiceKindConnectProxy || s.PeerName != "" {
			continue
		}
		for _, u := range s.ServiceProxy.Upstreams {
			if u.DestinationType == structs.UpstreamDestTypePreparedQuery {
				continue
			}
			key := u.DestinationName + "<-" + s.ServiceProxy.DestinationServiceName
			if wantTopo[key] == nil {
				wantTopo[key] = map[string]bool{}
			}
			sid := s.CompoundServiceID()
			wantTopo[key][structs.UniqueID(s.Node, sid.String())] = true
		}
	}
	// raw table rows (the DumpGatewayServices query hides links whose protocol does not match)
	var gws structs.GatewayServices
	for _, r := range st.VerifTable("gateway-services") {
		gws = append(gws, r.(*structs.GatewayService))
	}
	wantIngress := map[string]bool{}
	for _, g := range gws {
		if g.GatewayKind == structs.ServiceKindIngressGateway && g.Service.Name != structs.WildcardSpecifier {
			wantIngress[g.Service.Name+"<-"+g.Gateway.Name] = true
		}
	}
	gotTopo := map[string]bool{}
	gotIngress := map[string]bool{}
	for _, m := range st.VerifMeshTopology() {
		key := m.Upstream + "<-" + m.Downstream
		if len(m.Refs) == 0 {
			gotIngress[key] = true
			continue
		}
		sort.Strings(m.Refs)
		gotTopo[key+" refs="+strings.Join(m.Refs, ",")] = true
	}
	wantTopoS := map[string]bool{}
	for k, refs := range wantTopo {
		var rs []string
		for r := range refs {
			rs = append(rs, r)
		}
		sort.Strings(rs)
		wantTopoS[k+" refs="+strings.Join(rs, ",")] = true
	}
	// an ingress link and a proxy link for the same pair share one row; tolerate by merging keys
	for k := range wantTopo {
		delete(wantIngress, k)
	}
	if d := setDiff(wantTopoS, gotTopo); d != "" {
		v("mesh-topology", "upstream/downstream links differ from what the proxy registrations imply (-missing +extra): "+d)
	}
	if d := setDiff(wantIngress, gotIngress); d != "" {
		v("mesh-topology-ingress", "ingress links in the topology differ from the gateway-services table (-missing +extra): "+d)
	}

	// (c) gateway-services rules
	type gwent struct {
		kind  structs.ServiceKind
		exact map[string]bool
		wild  bool
	}
	gwEntries := map[string]*gwent{}
	for _, e := range b.entries {
		switch c := e.(type) {
		case *structs.TerminatingGatewayConfigEntry:
			g := &gwent{kind: structs.ServiceKindTerminatingGateway, exact: map[string]bool{}}
			for _, s := range c.Services {
				if s.Name == structs.WildcardSpecifier {
					g.wild = true
				} else {
					g.exact[s.Name] = true
				}
			}
			gwEntries[c.Name] = g
		case *structs.IngressGatewayConfigEntry:
			g := &gwent{kind: structs.ServiceKindIngressGateway, exact: map[string]bool{}}
			for _, l := range c.Listeners {
				for _, s := range l.Services {
					if s.Name == structs.WildcardSpecifier {
						g.wild = true
					} else {
						g.exact[s.Name] = true
					}
				}
			}
			gwEntries[c.Name] = g
		}
	}
	have := map[string]bool{}
	for _, g := range gws {
		have[g.Gateway.Name+"->"+g.Service.Name] = true
		ent := gwEntries[g.Gateway.Name]
		switch {
		case ent == nil:
			v("gateway-link-without-entry", fmt.Sprintf("gateway-services row %s->%s but gateway %q has no config entry", g.Gateway.Name, g.Service.Name, g.Gateway.Name))
		case ent.kind != g.GatewayKind:
			v("gateway-link-kind", fmt.Sprintf("gateway-services row %s->%s has kind %q, config entry is %q", g.Gateway.Name, g.Service.Name, g.GatewayKind, ent.kind))
		case g.Service.Name == structs.WildcardSpecifier:
			if !ent.wild {
				v("gateway-link-not-in-entry", fmt.Sprintf("wildcard row for gateway %q but its entry has no wildcard", g.Gateway.Name))
			}
		case !ent.exact[g.Service.Name] && !ent.wild:
			v("gateway-link-not-in-entry", fmt.Sprintf("gateway-services row %s->%s is not covered by the gateway's config entry", g.Gateway.Name, g.Service.Name))
		}
	}
	// wildcard gateways (rules read off the documented behaviour: an ingress wildcard covers services
	// with a connect instance, a terminating wildcard covers services with a non-connect instance and
	// destinations). "must" is restricted to names that also have a typical instance, because for
	// proxy-only names upstream links them only if the registration comes after the gateway entry.
	typical, connectInst, nonConnectInst, dest := map[string]bool{}, map[string]bool{}, map[string]bool{}, map[string]bool{}
	connectNative := map[string]bool{}
	for _, sv := range b.services {
		if sv.PeerName != "" {
			continue
		}
		if sv.ServiceKind == structs.ServiceKindTypical && sv.ServiceName != "consul" {
			typical[sv.ServiceName] = true
		}
		if sv.ServiceConnect.Native {
			connectInst[sv.ServiceName] = true
			connectNative[sv.ServiceName] = true
		} else {
			nonConnectInst[sv.ServiceName] = true
		}
		if sv.ServiceKind == structs.ServiceKindConnectProxy {
			connectInst[sv.ServiceProxy.DestinationServiceName] = true
		}
	}
	for _, e := range b.entries {
		if sd, ok := e.(*structs.ServiceConfigEntry); ok && sd.Destination != nil {
			dest[sd.Name] = true
		}
	}
	for gw, ent := range gwEntries {
		if !ent.wild {
			continue
		}
		for name := range typical {
			need := (ent.kind == structs.ServiceKindIngressGateway && connectInst[name]) ||
				(ent.kind == structs.ServiceKindTerminatingGateway && nonConnectInst[name])
			if need && !have[gw+"->"+name] {
				v("gateway-wildcard-link-missing", fmt.Sprintf("%s %q has a wildcard entry and service %q qualifies, but there is no link", ent.kind, gw, name))
			}
		}
		if ent.kind == structs.ServiceKindTerminatingGateway {
			for name := range dest {
				if !have[gw+"->"+name] {
					v("gateway-wildcard-destination-missing", fmt.Sprintf("terminating gateway %q has a wildcard entry and %q is a destination, but there is no link", gw, name))
				}
			}
		}
	}
	for _, g := range gws {
		if !g.FromWildcard || g.Service.Name == structs.WildcardSpecifier {
			continue
		}
		ok := (g.GatewayKind == structs.ServiceKindIngressGateway && (connectInst[g.Service.Name] || dest[g.Service.Name])) ||
			(g.GatewayKind == structs.ServiceKindTerminatingGateway && (nonConnectInst[g.Service.Name] || dest[g.Service.Name]))
		if !ok {
			v("gateway-wildcard-link-stale", fmt.Sprintf("wildcard link %s->%s (%s) but %q no longer qualifies", g.Gateway.Name, g.Service.Name, g.GatewayKind, g.Service.Name))
		}
	}
	for gw, ent := range gwEntries {
		for s := range ent.exact {
			if !have[gw+"->"+s] {
				v("gateway-link-missing", fmt.Sprintf("config entry of gateway %q names service %q but the gateway-services table has no such link", gw, s))
			}
		}
	}

	// (d) virtual IPs: injective, free list disjoint, advertised == assigned
	_, vips, _ := st.ServiceVirtualIPs()
	byIP := map[string]string{}
	assigned := map[string]string{}
	for _, vp := range vips {
		if vp.IP == nil {
			continue
		}
		ip, err := vp.IPWithOffset()
		if err != nil {
			continue
		}
		name := vp.Service.Peer + "|" + vp.Service.ServiceName.Name
		if other, dup := byIP[ip]; dup && other != name {
			v("vip-duplicate", fmt.Sprintf("services %s and %s are both assigned virtual IP %s", other, name, ip))
		}
		byIP[ip] = name
		assigned[name] = ip
	}
	for _, f := range st.VerifFreeVIPs() {
		if f.IsCounter {
			continue
		}
		ip, _ := state.ServiceVirtualIP{IP: f.IP}.IPWithOffset()
		if owner, used := byIP[ip]; used {
			v("vip-free-and-assigned", fmt.Sprintf("virtual IP %s is on the free list and assigned to %s", ip, owner))
		}
	}
	// a terminating gateway instance advertises, per linked service, that service's address under "consul-virtual:<name>"
	for _, s := range b.services {
		if s.ServiceKind != structs.ServiceKindTerminatingGateway || s.PeerName != "" {
			continue
		}
		for tag, ta := range s.ServiceTaggedAddresses {
			if !strings.HasPrefix(tag, structs.TaggedAddressVirtualIP+":") {
				continue
			}
			name := strings.TrimPrefix(tag, structs.TaggedAddressVirtualIP+":")
			// does the gateway (still) link the service? Upstream never takes the tag off an instance when the link goes
			// away (known finding); while the link exists the address has to be the service's current one.
			link := "link-removed"
			for _, r := range st.VerifTable("gateway-services") {
				g := r.(*structs.GatewayService)
				if g.GatewayKind == structs.ServiceKindTerminatingGateway && g.Gateway.Name == s.ServiceName && g.Service.Name == name {
					link = "still-linked"
				}
			}
			if cur, has := assigned["|"+name]; !has {
				v("vip-advertised-by-gateway-unassigned:"+link, fmt.Sprintf("gateway instance %s/%s advertises virtual IP %s for service %q which has no assignment (%s)", s.Node, s.ServiceID, ta.Address, name, link))
			} else if cur != ta.Address {
				v("vip-advertised-by-gateway-stale:"+link, fmt.Sprintf("gateway instance %s/%s advertises virtual IP %s for service %q which is assigned %s (%s)", s.Node, s.ServiceID, ta.Address, name, cur, link))
			}
		}
	}
	for _, s := range b.services {
		ta, ok := s.ServiceTaggedAddresses[structs.TaggedAddressVirtualIP]
		if !ok {
			continue
		}
		name := s.ServiceName
		if s.ServiceKind == structs.ServiceKindConnectProxy {
			name = s.ServiceProxy.DestinationServiceName
		}
		cur, has := assigned[s.PeerName+"|"+name]
		if s.PeerName != "" {
			continue // imported instances carry the exporting cluster's address
		}
		if !has {
			why := "other"
			if s.ServiceKind == structs.ServiceKindConnectProxy {
				// the destination's assignment was freed when the last instance *named* like the
				// destination went away, while this proxy stayed registered
				why = "proxy-outlived-destination-instances"
			}
			v("vip-advertised-unassigned:"+why, fmt.Sprintf("instance %s/%s advertises virtual IP %s but service %q has no assignment", s.Node, s.ServiceID, ta.Address, name))
		} else if cur != ta.Address {
			v("vip-advertised-stale", fmt.Sprintf("instance %s/%s advertises virtual IP %s but service %q is assigned %s", s.Node, s.ServiceID, ta.Address, name, cur))
		}
	}
}

func vipAssignments(w *world.World) map[string]string {
	out := map[string]string{}
	_, vips, _ := w.Store().ServiceVirtualIPs()
	for _, vp := range vips {
		if vp.IP == nil {
			continue
		}
		ip, _ := vp.IPWithOffset()
		out[vp.Service.Peer+"|"+vp.Service.ServiceName.Name] = ip
	}
	return out
}

func setDiff(want, got map[string]bool) string {
	var d []string
	for k := range want {
		if !got[k] {
			d = append(d, "-"+k)
		}
	}
	for k := range got {
		if !want[k] {
			d = append(d, "+"+k)
		}
	}
	sort.Strings(d)
	return strings.Join(d, " ")
}

// ---- rebuild differential -----------------------------------------------------------------

var ceOrder = map[string]int{structs.ProxyDefaults: 0, structs.ServiceDefaults: 1, structs.ServiceResolver: 2, structs.ServiceSplitter: 3,
	structs.ServiceRouter: 4, structs.TerminatingGateway: 5, structs.IngressGateway: 6}

// rebuild re-creates a store from s's base rows only, in a canonical order.
// order 0: registrations then config entries; order 1: config entries then registrations.
func rebuild(b *base, order int) (*world.World, bool) {
	w := world.New()
	ok := true
	apply := func(t structs.MessageType, req any) {
		r := w.ApplyReq("rebuild", t, req)
		if strings.HasPrefix(r, "err:") || strings.HasPrefix(r, "PANIC") {
			ok = false
		}
	}
	sm := append([]*structs.SystemMetadataEntry{}, b.sysmeta...)
	sort.Slice(sm, func(i, j int) bool { return sm[i].Key < sm[j].Key })
	for _, e := range sm {
		apply(structs.SystemMetadataRequestType, &structs.SystemMetadataRequest{Datacenter: cmdlib.DC, Op: structs.SystemMetadataUpsert, Entry: &structs.SystemMetadataEntry{Key: e.Key, Value: e.Value}})
	}
	regs := func() {
		ns := append([]*structs.Node{}, b.nodes...)
		sort.Slice(ns, func(i, j int) bool { return nkey(ns[i].PeerName, ns[i].Node) < nkey(ns[j].PeerName, ns[j].Node) })
		for _, n := range ns {
			apply(structs.RegisterRequestType, &structs.RegisterRequest{Datacenter: cmdlib.DC, ID: n.ID, Node: n.Node, Address: n.Address,
				TaggedAddresses: n.TaggedAddresses, NodeMeta: n.Meta, PeerName: n.PeerName})
		}
		ss := append([]*structs.ServiceNode{}, b.services...)
		sort.Slice(ss, func(i, j int) bool {
			return nkey(ss[i].PeerName, ss[i].Node)+ss[i].ServiceID < nkey(ss[j].PeerName, ss[j].Node)+ss[j].ServiceID
		})
		for _, s := range ss {
			ns := s.ToNodeService()
			delete(ns.TaggedAddresses, structs.TaggedAddressVirtualIP) // server-owned, re-derived
			apply(structs.RegisterRequestType, &structs.RegisterRequest{Datacenter: cmdlib.DC, Node: s.Node, SkipNodeUpdate: true, Service: ns, PeerName: s.PeerName})
		}
		cs := append([]*structs.HealthCheck{}, b.checks...)
		sort.Slice(cs, func(i, j int) bool {
			return nkey(cs[i].PeerName, cs[i].Node)+string(cs[i].CheckID) < nkey(cs[j].PeerName, cs[j].Node)+string(cs[j].CheckID)
		})
		for _, c := range cs {
			apply(structs.RegisterRequestType, &structs.RegisterRequest{Datacenter: cmdlib.DC, Node: c.Node, SkipNodeUpdate: true, Check: c.Clone(), PeerName: c.PeerName})
		}
	}
	ents := func() {
		es := append([]structs.ConfigEntry{}, b.entries...)
		sort.Slice(es, func(i, j int) bool {
			oi, oj := ceOrder[es[i].GetKind()], ceOrder[es[j].GetKind()]
			if oi != oj {
				return oi < oj
			}
			return es[i].GetKind()+"/"+es[i].GetName() < es[j].GetKind()+"/"+es[j].GetName()
		})
		for _, e := range es {
			apply(structs.ConfigEntryRequestType, &structs.ConfigEntryRequest{Op: structs.ConfigEntryUpsert, Datacenter: cmdlib.DC, Entry: e})
		}
	}
	if order == 0 {
		regs()
		ents()
	} else {
		ents()
		regs()
	}
	return w, ok
}

// gateway-services is deliberately not compared with the rebuild: upstream fills its ServiceKind
// field and expands wildcards for proxy-only services depending on whether the gateway entry or
// the registration came first; its links are checked by the rules in Invariants (c) instead.
var derivedTables = []string{"kind-service-names", "mesh-topology", "usage"}

func derived(w *world.World) world.Dump {
	d := w.Dump(&dump.Options{MaskIndexes: true})
	out := world.Dump{}
	for _, t := range derivedTables {
		rows := d[t]
		if t == "usage" {
			var nz []string
			for _, r := range rows {
				if strings.Contains(r, "Count:") {
					nz = append(nz, r)
				}
			}
			rows = nz
		}
		if t == "mesh-topology" {
			var pr []string
			for _, r := range rows {
				if strings.Contains(r, "Refs:") { // ingress links (no refs) mirror gateway-services
					pr = append(pr, r)
				}
			}
			rows = pr
		}
		out[t] = rows
	}
	return out
}

// Differential compares the derived tables of the explored state with a store rebuilt from its
// base rows alone, in two canonical orders. Returns how many rebuilds were comparable.
func Differential(w *world.World, violate func(sig, msg string), last string) int {
	b := readBase(w.Store())
	mine := derived(w)
	n := 0
	for order := 0; order < 2; order++ {
		r, ok := rebuild(b, order)
		if !ok {
			continue
		}
		n++
		other := derived(r)
		if tabs := world.DiffTables(mine, other); len(tabs) > 0 {
			violate(fmt.Sprintf("C07:derived-differs-from-rebuild:tables=%v", tabs),
				fmt.Sprintf("derived views differ from a store rebuilt from the same registrations and config entries (order %d; - rebuilt, + explored):\n%s", order, world.Diff(other, mine, 8)))
			return n
		}
	}
	return n
}

// transView is an e1.Trans whose Violate may decorate signatures.
type transView struct {
	*e1.Trans
	violate func(sig, msg string)
}

func (t *transView) Violate(sig, msg string) { t.violate(sig, msg) }

func Run(c *ev.Ctx) {
	quick := c.Quick()
	n1 := cmdlib.NodeSpec{Node: "n1", ID: "id1"}
	n1b := cmdlib.NodeSpec{Node: "n1b", ID: "id1"}
	n2 := cmdlib.NodeSpec{Node: "n2"}
	n1p := cmdlib.NodeSpec{Node: "n1", Peer: "p1"}
	web := cmdlib.SvcSpec{Name: "web", Port: 80}
	web2 := cmdlib.SvcSpec{ID: "web-2", Name: "web", Port: 80}
	web3 := cmdlib.SvcSpec{ID: "web-3", Name: "web", Port: 80}
	proxy1 := cmdlib.SvcSpec{ID: "web-proxy-1", Name: "web-proxy", Kind: structs.ServiceKindConnectProxy, DestName: "web", Upstreams: []string{"db"}, Port: 21000}
	proxy2 := cmdlib.SvcSpec{ID: "web-proxy-2", Name: "web-proxy", Kind: structs.ServiceKindConnectProxy, DestName: "web", Upstreams: []string{"db"}, Port: 21000}
	proxy1b := cmdlib.SvcSpec{ID: "web-proxy-1", Name: "web-proxy", Kind: structs.ServiceKindConnectProxy, DestName: "web", Upstreams: []string{"cache"}, Port: 21000}
	db := cmdlib.SvcSpec{Name: "db", Native: true, Port: 5432}
	tgw := cmdlib.SvcSpec{Name: "tgw", Kind: structs.ServiceKindTerminatingGateway, Port: 8443}
	igw := cmdlib.SvcSpec{Name: "igw", Kind: structs.ServiceKindIngressGateway, Port: 8080}
	c1 := cmdlib.CheckSpec{ID: "c1", Status: api.HealthPassing}
	sc1 := cmdlib.CheckSpec{ID: "sc1", Status: api.HealthPassing, ServiceID: "web"}
	sc2 := cmdlib.CheckSpec{ID: "sc2", Status: api.HealthCritical, ServiceID: "web-2"}

	renameOp := cmdlib.RegService(n1, cmdlib.SvcSpec{ID: "web", Name: "api", Port: 80})
	repointOp := cmdlib.RegService(n1, cmdlib.SvcSpec{ID: "web-proxy-1", Name: "web-proxy", Kind: structs.ServiceKindConnectProxy, DestName: "db", Upstreams: []string{"web"}, Port: 21000})
	// an instance re-registered in place under another non-typical kind (same family of upstream behaviour)
	rekindOp1 := cmdlib.RegService(n1, cmdlib.SvcSpec{ID: "tgw", Name: "tgw", Kind: structs.ServiceKindIngressGateway, Port: 8443})
	rekindOp2 := cmdlib.RegService(n1, cmdlib.SvcSpec{ID: "web-proxy-1", Name: "web-proxy", Kind: structs.ServiceKindMeshGateway, Port: 21000})
	failing := cmdlib.KVSpec{Verb: api.KVGet, Key: "never-written"}.TxnOp()
	alpha := []world.Op{
		cmdlib.RegNode(n1), cmdlib.RegNode(n2), cmdlib.RegNode(n1b),
		cmdlib.RegService(n1, web), cmdlib.RegService(n2, web2), cmdlib.RegService(n1, web3),
		cmdlib.RegService(n1, proxy1), cmdlib.RegService(n2, proxy2), cmdlib.RegService(n1, proxy1b),
		cmdlib.RegService(n1, db), cmdlib.RegService(n1, tgw), cmdlib.RegService(n2, igw),
		cmdlib.RegCheck(n1, c1), cmdlib.RegCheck(n1, sc1), cmdlib.RegServiceWithCheck(n2, web2, sc2),
		cmdlib.DeregService("n1", "web", ""), cmdlib.DeregService("n2", "web-2", ""), cmdlib.DeregService("n1", "web-proxy-1", ""),
		cmdlib.DeregService("n2", "web-proxy-2", ""), cmdlib.DeregService("n1", "db", ""), cmdlib.DeregService("n1", "tgw", ""),
		cmdlib.DeregCheck("n1", "sc1", ""), cmdlib.DeregNode("n1", ""), cmdlib.DeregNode("n2", ""),
		cmdlib.CoordinateUpdate("n1", 0.5),
		cmdlib.Terminating("tgw", "*").Upsert(), cmdlib.Terminating("tgw", "web").Upsert(), cmdlib.Terminating("tgw", "web", "ext").Upsert(),
		cmdlib.Terminating("tgw2", "db").Upsert(), cmdlib.Terminating("tgw", "*").Delete(), cmdlib.Terminating("tgw2", "db").Delete(),
		cmdlib.Ingress("igw", "tcp", "web").Upsert(), cmdlib.Ingress("igw", "http", "*").Upsert(), cmdlib.Ingress("igw", "tcp", "web").Delete(),
		cmdlib.SvcDefaultsDest("ext", "example.com").Upsert(), cmdlib.SvcDefaultsDest("ext", "example.com").Delete(),
		cmdlib.SvcDefaults("web", "http").Upsert(), cmdlib.ProxyDefaults("http").Upsert(),
		cmdlib.EnableVIPs(), cmdlib.EnableTermGWVIPs(),
		cmdlib.ManualVIPs("web", "10.10.10.10"),
		cmdlib.Txn(cmdlib.TxnService(api.ServiceDelete, "n2", proxy2, 0)),
		cmdlib.Txn(cmdlib.TxnService(api.ServiceSet, "n2", proxy2, 0)),
		cmdlib.Txn(cmdlib.TxnNode(api.NodeDelete, n2, 0)),
		cmdlib.Txn(cmdlib.TxnService(api.ServiceDelete, "n2", web2, 0), cmdlib.TxnService(api.ServiceSet, "n1", web3, 0)),
		// transactions that are rolled back by their last operation (a read of a key that never exists): whatever the
		// earlier operations did to base or derived rows - also to objects the tables share - must be gone
		cmdlib.Txn(cmdlib.TxnService(api.ServiceDelete, "n1", proxy1, 0), failing),
		cmdlib.Txn(cmdlib.TxnService(api.ServiceSet, "n1", proxy1b, 0), failing),
		cmdlib.Txn(cmdlib.TxnNode(api.NodeDelete, n2, 0), failing),
		cmdlib.Txn(cmdlib.TxnService(api.ServiceDelete, "n1", web, 0), cmdlib.TxnService(api.ServiceDelete, "n1", tgw, 0), failing),
		cmdlib.RegService(n1p, cmdlib.SvcSpec{Name: "web", Port: 80}), cmdlib.RegService(n1p, cmdlib.SvcSpec{ID: "web-2", Name: "web", Port: 80}),
		cmdlib.DeregService("n1", "web", "p1"), cmdlib.DeregNode("n1", "p1"),
		// an instance ID re-registered under another service name / a proxy re-pointed to another destination
		renameOp, repointOp, rekindOp1, rekindOp2,
	}
	seedProxies := []world.Op{cmdlib.EnableVIPs(), cmdlib.RegNode(n1), cmdlib.RegNode(n2), cmdlib.RegService(n1, web), cmdlib.RegService(n2, web2),
		cmdlib.RegService(n1, proxy1), cmdlib.RegService(n2, proxy2), cmdlib.RegService(n1, db)}
	seedGW := []world.Op{cmdlib.EnableVIPs(), cmdlib.EnableTermGWVIPs(), cmdlib.RegNode(n1), cmdlib.RegNode(n2),
		cmdlib.Terminating("tgw", "*").Upsert(), cmdlib.Terminating("tgw2", "db").Upsert(), cmdlib.Ingress("igw", "tcp", "web").Upsert(),
		cmdlib.RegService(n1, tgw), cmdlib.RegService(n2, igw), cmdlib.RegService(n1, web), cmdlib.RegService(n2, web2), cmdlib.RegService(n1, db)}
	seedPeer := []world.Op{cmdlib.RegNode(n1), cmdlib.RegService(n1, web), cmdlib.RegCheck(n1, sc1), cmdlib.RegService(n1p, cmdlib.SvcSpec{Name: "web", Port: 80}),
		cmdlib.RegService(n1p, cmdlib.SvcSpec{ID: "web-2", Name: "web", Port: 80}), cmdlib.CoordinateUpdate("n1", 0.5)}
	// the wildcard gateway's last instance of "web" is about to go while an ordinary service-defaults entry for it exists
	seedLast := append(append([]world.Op{}, seedGW...), cmdlib.SvcDefaults("web", "http").Upsert(), cmdlib.DeregService("n2", "web-2", ""))
	// a terminating gateway that names "web" explicitly (the link outlives web's instances) next to an ingress gateway
	// whose name sorts first; one instance of web left
	seedExplicit := append(append([]world.Op{}, seedGW...), cmdlib.Terminating("tgw", "web").Upsert(), cmdlib.DeregService("n2", "web-2", ""))
	seeds := [][]world.Op{nil, seedProxies, seedGW, seedPeer, seedLast, seedExplicit}

	depth := 2
	if !quick {
		depth = 3
	}
	var rebuilt, compared int64
	cfg := &e1.Config{Ctx: c, Seeds: seeds, Alphabet: alpha, MaxDepth: depth, AuditMerges: 40,
		Pre: func(w *world.World) any { return vipAssignments(w) },
		Post: func(t *e1.Trans) {
			// Re-registering an instance ID under another service name, or re-pointing a proxy to another
			// destination, is handled by upstream as a plain update: nothing derived from the old name or
			// destination is cleaned up (known finding). Violations on such histories carry their own
			// signatures so that the same oracles stay sharp everywhere else.
			tViolate := t.Violate
			for _, h := range t.Hist {
				if h == renameOp.Name || h == repointOp.Name || h == rekindOp1.Name || h == rekindOp2.Name {
					tViolate = func(sig, msg string) {
						t.Violate(sig+":history-renames-an-instance-or-repoints-a-proxy", msg)
					}
					break
				}
			}
			tv := &transView{Trans: t, violate: tViolate}
			Invariants(t.W, tv.Violate, t.Op.Kind)
			// an assignment may only disappear when no instance named like the service remains
			if !(strings.Contains(t.Op.Kind, "service/delete") && strings.Contains(t.Op.Kind, "service/set")) {
				post := vipAssignments(t.W)
				names := map[string]bool{}
				for _, r := range t.W.Store().VerifTable("services") {
					sn := r.(*structs.ServiceNode)
					names[sn.PeerName+"|"+sn.ServiceName] = true
				}
				for svc, ip := range t.Pre.(map[string]string) {
					if _, still := post[svc]; !still && names[svc] {
						tv.Violate("C07:vip-freed-while-instances-remain:last="+t.Op.Kind, fmt.Sprintf("virtual IP %s of service %s was released although instances of it remain", ip, svc))
					}
				}
			}
			n := Differential(t.W, tv.Violate, t.Op.Kind)
			c.Add("rebuild_comparisons", int64(n))
			// cascade rules on this transition
			if strings.HasPrefix(t.Op.Kind, "deregister/node") || strings.Contains(t.Op.Kind, "node/delete") {
				// covered by the orphan invariant: nothing may refer to the removed node
			}
		},
		MaxStates: 300000,
	}
	_ = rebuilt
	_ = compared
	if quick {
		cfg.MaxStates = 30000
	}
	st := e1.Run(cfg)
	st.Report(c, "")
	c.Set("alphabet_size", len(alpha))
	c.Set("seeds", len(seeds))
	c.Set("rule", "every op sequence up to max_depth from each seed; on every reached state: orphan/cascade invariants, kind-service-names and mesh-topology recomputed from registrations, gateway-link rules, virtual-IP rules, and derived tables compared with a store rebuilt from the base rows in two canonical orders")
	var an []string
	for _, o := range alpha {
		an = append(an, o.Name)
	}
	c.Sample(map[string]any{"alphabet": an})
}
