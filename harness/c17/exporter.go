package c17

import (
	"context"
	"fmt"
	"sort"
	"strings"
	"sync"
	"time"

	"github.com/hashicorp/consul/agent/cache"
	"github.com/hashicorp/consul/agent/consul/stream"
	"github.com/hashicorp/consul/agent/grpc-external/services/peerstream"
	"github.com/hashicorp/consul/internal/verifmc/cmdlib"
	"github.com/hashicorp/consul/internal/verifmc/ev"
	"github.com/hashicorp/consul/internal/verifmc/world"
	"github.com/hashicorp/consul/proto/private/pbpeering"
)

// The exporting side's subscription manager, live: real goroutines, the real EventPublisher loop, the
// real blocking-query watch on ExportedServicesForPeer. What is enumerated is the small grid of
// (initial export set, how it shrinks, which service changes afterwards). The only judgement is about
// an update that IS received: an instance update for a service sent after the manager itself told the
// peer that the service is no longer exported. Waiting longer can only make the check see more, never
// raise an alarm on a correct tree.

type subBackend struct{ pub *stream.EventPublisher }

func (b subBackend) Subscribe(req *stream.SubscribeRequest) (*stream.Subscription, error) {
	return b.pub.Subscribe(req)
}

func runExporter(c *ev.Ctx) {
	n1 := cmdlib.NodeSpec{Node: "n1", ID: "id1", Addr: "10.0.0.1"}
	svc := func(name string, port int) world.Op {
		return cmdlib.RegService(n1, cmdlib.SvcSpec{Name: name, Port: port})
	}
	type shrink struct {
		label string
		op    world.Op
		left  []string
	}
	type ecase struct {
		exported map[string][]string
		shrinks  []shrink
	}
	del := cmdlib.Exported(nil).Delete()
	cases := []ecase{
		{map[string][]string{"web": {"p1"}}, []shrink{
			{"entry deleted", del, nil},
			{"consumer changed to p2", cmdlib.Exported(map[string][]string{"web": {"p2"}}).Upsert(), nil},
		}},
		{map[string][]string{"web": {"p1"}, "db": {"p1"}}, []shrink{
			{"entry deleted", del, nil},
			{"web no longer exported", cmdlib.Exported(map[string][]string{"db": {"p1"}}).Upsert(), []string{"db"}},
			{"both moved to p2", cmdlib.Exported(map[string][]string{"web": {"p2"}, "db": {"p2"}}).Upsert(), nil},
		}},
		{map[string][]string{"*": {"p1"}}, []shrink{
			{"wildcard deleted", del, nil},
			{"wildcard replaced by db only", cmdlib.Exported(map[string][]string{"db": {"p1"}}).Upsert(), []string{"db"}},
		}},
	}
	var ran, judged int
	var mu sync.Mutex
	var wg sync.WaitGroup
	for _, ec := range cases {
		for _, sh := range ec.shrinks {
			ran++
			ec, sh := ec, sh
			wg.Add(1)
			go func() {
				defer wg.Done()
				w := world.New()
				w.Rec.Forward = true
				ctx, cancel := context.WithCancel(context.Background())
				defer cancel()
				go w.Rec.Real.Run(ctx)
				w.ApplyAll([]world.Op{cmdlib.PeeringWrite("p1", pbpeering.PeeringState_ACTIVE, false, ""), cmdlib.PeeringWrite("p2", pbpeering.PeeringState_ACTIVE, false, ""),
					cmdlib.RegNode(n1), svc("web", 80), svc("db", 5432), cmdlib.Exported(ec.exported).Upsert()})
				ch := peerstream.VerifExporter(ctx, subBackend{w.Rec.Real}, func() peerstream.StateStore { return w.Store() }, cmdlib.DC, cmdlib.PeerIDs["p1"], "p1")
				// wait until the manager has told the peer the initial list
				waitList := func(want []string, limit time.Duration) bool {
					sort.Strings(want)
					deadline := time.After(limit)
					for {
						select {
						case u := <-ch:
							if l, ok := peerstream.VerifIsExportedList(u); ok {
								got := append([]string{}, l...)
								sort.Strings(got)
								if strings.Join(got, ",") == strings.Join(want, ",") {
									return true
								}
							}
						case <-deadline:
							return false
						}
					}
				}
				var initial []string
				for k := range ec.exported {
					if k == "*" {
						initial = []string{"db", "web"}
						break
					}
					initial = append(initial, k)
				}
				if !waitList(initial, 10*time.Second) {
					return // the manager did not get there in time on this machine: nothing is judged
				}
				// let the initial instance updates drain
				drain := time.After(300 * time.Millisecond)
			drainLoop:
				for {
					select {
					case <-ch:
					case <-drain:
						break drainLoop
					}
				}
				if _, ok := w.Apply(sh.op); !ok {
					return
				}
				if !waitList(sh.left, 10*time.Second) {
					return
				}
				mu.Lock()
				judged++
				mu.Unlock()
				// from here on the peer has been told that "web" is not exported to it. Now web changes.
				w.Apply(svc("web", 81))
				w.Apply(svc("web", 82))
				window := time.After(1500 * time.Millisecond)
				for {
					select {
					case u := <-ch:
						if name := peerstream.VerifExportedServiceName(u.CorrelationID); name == "web" {
							c.Violate("C17:exporter-keeps-sending-an-unexported-service", fmt.Sprintf("exported %v to p1, then %s (the manager announced the list %v); a later change of \"web\" was still sent to p1 as %q",
								ec.exported, sh.label, sh.left, u.CorrelationID), map[string]any{"exported": fmt.Sprint(ec.exported), "shrink": sh.label})
							return
						}
					case <-window:
						return
					}
				}
			}()
		}
	}
	// re-export: a service that was exported, taken back and exported again has to reach the peer again (the peer
	// dropped it when it saw the list without it), also when its instances did not change in between
	ran++
	wg.Add(1)
	go func() {
		defer wg.Done()
		w := world.New()
		w.Rec.Forward = true
		ctx, cancel := context.WithCancel(context.Background())
		defer cancel()
		go w.Rec.Real.Run(ctx)
		both := map[string][]string{"web": {"p1"}, "db": {"p1"}}
		w.ApplyAll([]world.Op{cmdlib.PeeringWrite("p1", pbpeering.PeeringState_ACTIVE, false, ""), cmdlib.RegNode(n1), svc("web", 80), svc("db", 5432), cmdlib.Exported(both).Upsert()})
		ch := peerstream.VerifExporter(ctx, subBackend{w.Rec.Real}, func() peerstream.StateStore { return w.Store() }, cmdlib.DC, cmdlib.PeerIDs["p1"], "p1")
		// waitFor consumes updates until the list equals want (list != nil) or an update of the named service arrives
		waitFor := func(list []string, service string, limit time.Duration) bool {
			sort.Strings(list)
			deadline := time.After(limit)
			for {
				select {
				case u := <-ch:
					if l, ok := peerstream.VerifIsExportedList(u); ok {
						got := append([]string{}, l...)
						sort.Strings(got)
						if list != nil && strings.Join(got, ",") == strings.Join(list, ",") {
							return true
						}
					} else if service != "" && peerstream.VerifExportedServiceName(u.CorrelationID) == service {
						return true
					}
				case <-deadline:
					return false
				}
			}
		}
		if !waitFor([]string{"db", "web"}, "", 10*time.Second) || !waitFor(nil, "web", 10*time.Second) {
			return // not judged on this machine
		}
		time.Sleep(300 * time.Millisecond)
		w.Apply(cmdlib.Exported(map[string][]string{"db": {"p1"}}).Upsert())
		if !waitFor([]string{"db"}, "", 10*time.Second) {
			return
		}
		w.Apply(cmdlib.Exported(both).Upsert())
		if !waitFor([]string{"db", "web"}, "", 10*time.Second) {
			return
		}
		mu.Lock()
		judged++
		mu.Unlock()
		if waitFor(nil, "web", 60*time.Second) {
			return
		}
		// nothing for web in a minute. Is the exporter alive at all? A change of db must still come through.
		w.Apply(svc("db", 5433))
		if !waitFor(nil, "db", 20*time.Second) {
			return // the pipeline is not moving on this machine: nothing is judged
		}
		c.Violate("C17:exporter-never-sends-a-re-exported-service", "web and db exported to p1, web taken back (the peer was told the list [db]), web exported again (the peer was told [db web]): "+
			"no instance update for web reached the peer within a minute, while a later change of db did", map[string]any{"sequence": "export web,db; unexport web; re-export web"})
	}()
	wg.Wait()
	c.Set("exporter_live_cases", ran)
	c.Set("exporter_live_cases_judged", judged)
	var _ cache.UpdateEvent
}
