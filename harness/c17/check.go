// Package c17: peering imports mirror exactly what was exported and touch nothing else.
// E1 BFS where each op is one peer stream update handled by the real peerstream replication code
// whose Backend is a real FSM.
package c17

import (
	"errors"
	"fmt"
	"sort"
	"strings"

	"github.com/hashicorp/go-hclog"

	"github.com/hashicorp/consul/acl"
	"github.com/hashicorp/consul/agent/consul/stream"
	"github.com/hashicorp/consul/agent/grpc-external/services/peerstream"
	"github.com/hashicorp/consul/agent/structs"
	"github.com/hashicorp/consul/internal/verifmc/cmdlib"
	"github.com/hashicorp/consul/internal/verifmc/dump"
	"github.com/hashicorp/consul/internal/verifmc/e1"
	"github.com/hashicorp/consul/internal/verifmc/ev"
	"github.com/hashicorp/consul/internal/verifmc/world"
	"github.com/hashicorp/consul/proto/private/pbpeering"
	"github.com/hashicorp/consul/types"
)

// ---- backend ---------------------------------------------------------------------------------------------

type backend struct{ w *world.World }

func (b backend) apply(name string, t structs.MessageType, req any) error {
	b.w.ApplyReq(name, t, req)
	if err, ok := b.w.LastRaw.(error); ok && err != nil {
		return err
	}
	return nil
}
func (b backend) Subscribe(*stream.SubscribeRequest) (*stream.Subscription, error) {
	return nil, errors.New("verif: no subscriptions")
}
func (b backend) IsLeader() bool                                     { return true }
func (b backend) SetLeaderAddress(string)                            {}
func (b backend) GetLeaderAddress() string                           { return "" }
func (b backend) ValidateProposedPeeringSecret(string) (bool, error) { return true, nil }
func (b backend) PeeringSecretsWrite(*pbpeering.SecretsWriteRequest) error {
	return errors.New("verif: unexpected")
}
func (b backend) PeeringTerminateByID(*pbpeering.PeeringTerminateByIDRequest) error {
	return errors.New("verif: unexpected")
}
func (b backend) PeeringTrustBundleWrite(*pbpeering.PeeringTrustBundleWriteRequest) error {
	return errors.New("verif: unexpected")
}
func (b backend) PeeringWrite(*pbpeering.PeeringWriteRequest) error {
	return errors.New("verif: unexpected")
}
func (b backend) CatalogRegister(req *structs.RegisterRequest) error {
	return b.apply("peerstream:register", structs.RegisterRequestType, req)
}
func (b backend) CatalogDeregister(req *structs.DeregisterRequest) error {
	return b.apply("peerstream:deregister", structs.DeregisterRequestType, req)
}

func server(w *world.World) *peerstream.Server {
	return peerstream.NewServer(peerstream.Config{Backend: backend{w}, GetStore: func() peerstream.StateStore { return w.Store() },
		Logger: hclog.NewNullLogger(), Datacenter: cmdlib.DC, ConnectEnabled: true})
}

// ---- snapshots -----------------------------------------------------------------------------------------------

type inst struct {
	node, addr string
	id         string // instance id suffix
	port       int
	svcCheck   string // "" or status
	nodeCheck  string // "" or status
	nid        string // node ID ("" = none): a re-provisioned exporter node keeps its name and changes its ID
}

type snapshot struct {
	label string
	insts []inst
}

func snapshots() []snapshot {
	i1 := inst{node: "n1", addr: "10.1.0.1", id: "1", port: 80}
	return []snapshot{
		{"none", nil},
		{"n1/1", []inst{i1}},
		{"n1/1+svccheck", []inst{{node: "n1", addr: "10.1.0.1", id: "1", port: 80, svcCheck: "passing"}}},
		{"n1/1+nodecheck", []inst{{node: "n1", addr: "10.1.0.1", id: "1", port: 80, nodeCheck: "passing"}}},
		{"n1/1+both", []inst{{node: "n1", addr: "10.1.0.1", id: "1", port: 80, svcCheck: "passing", nodeCheck: "passing"}}},
		{"n1/1+both-critical", []inst{{node: "n1", addr: "10.1.0.1", id: "1", port: 80, svcCheck: "critical", nodeCheck: "critical"}}},
		{"n2/1", []inst{{node: "n2", addr: "10.1.0.2", id: "1", port: 80}}},
		{"n1/1,n2/2", []inst{i1, {node: "n2", addr: "10.1.0.2", id: "2", port: 80, svcCheck: "passing"}}},
		{"n1/1,n1/2", []inst{i1, {node: "n1", addr: "10.1.0.1", id: "2", port: 82, svcCheck: "passing"}}},
		{"n1/1:port81", []inst{{node: "n1", addr: "10.1.0.1", id: "1", port: 81}}},
		{"n1(addr2)/1", []inst{{node: "n1", addr: "10.9.9.9", id: "1", port: 80}}},
	}
}

// extraSnapshots are sent for one (peer, service) only: a node that carries an ID and later another one, and a node
// whose name has upper-case letters (node names are matched case-insensitively by the catalog).
func extraSnapshots() []snapshot {
	return []snapshot{
		// (n4 is never sent with a serf check: the catalog refuses to move a node name to another ID while the node that
		// holds it - in the same peer's catalog - is healthy; a healthy *local* n4 exists and must not matter)
		{"n4#A/1", []inst{{node: "n4", addr: "10.1.0.4", id: "1", port: 80, nid: "aaaaaaaa-1111-1111-1111-00000000000a"}}},
		{"n4#B/1", []inst{{node: "n4", addr: "10.1.0.4", id: "1", port: 80, nid: "aaaaaaaa-1111-1111-1111-00000000000b"}}},
		{"Node-3/1", []inst{{node: "Node-3", addr: "10.1.0.3", id: "1", port: 80, svcCheck: "passing"}}},
		{"Node-3/1:port81", []inst{{node: "Node-3", addr: "10.1.0.3", id: "1", port: 81, svcCheck: "passing"}}},
	}
}

func (s snapshot) csn(service string) structs.CheckServiceNodes {
	var out structs.CheckServiceNodes
	for _, i := range s.insts {
		sid := service + "-" + i.id
		n := structs.CheckServiceNode{
			Node:    &structs.Node{ID: types.NodeID(i.nid), Node: i.node, Address: i.addr, Datacenter: "remote-dc", Partition: ""},
			Service: &structs.NodeService{ID: sid, Service: service, Port: i.port, Weights: &structs.Weights{Passing: 1, Warning: 1}, EnterpriseMeta: *structs.DefaultEnterpriseMetaInDefaultPartition()},
		}
		if i.nodeCheck != "" {
			n.Checks = append(n.Checks, &structs.HealthCheck{Node: i.node, CheckID: "serfHealth", Name: "Serf Health Status", Status: i.nodeCheck, EnterpriseMeta: *structs.DefaultEnterpriseMetaInDefaultPartition()})
		}
		if i.svcCheck != "" {
			n.Checks = append(n.Checks, &structs.HealthCheck{Node: i.node, CheckID: types.CheckID("check:" + sid), Name: "check " + sid, Status: i.svcCheck, ServiceID: sid, ServiceName: service,
				EnterpriseMeta: *structs.DefaultEnterpriseMetaInDefaultPartition()})
		}
		out = append(out, n)
	}
	return out
}

// canonical view of one (peer, service) in the catalog: one line per instance
func view(w *world.World, service, peer string, withNode bool) []string {
	_, csns, err := w.Store().CheckServiceNodes(nil, service, structs.DefaultEnterpriseMetaInDefaultPartition(), peer)
	if err != nil {
		panic(err)
	}
	return canon(csns, withNode)
}

func canon(csns structs.CheckServiceNodes, withNode bool) []string {
	var out []string
	for _, c := range csns {
		var sc, nc []string
		for _, h := range c.Checks {
			if h.ServiceID == "" {
				nc = append(nc, fmt.Sprintf("%s=%s", h.CheckID, h.Status))
			} else {
				sc = append(sc, fmt.Sprintf("%s=%s", h.CheckID, h.Status))
			}
		}
		sort.Strings(sc)
		sort.Strings(nc)
		l := fmt.Sprintf("node=%s inst=%s port=%d svcchecks=%v", c.Node.Node, c.Service.ID, c.Service.Port, sc)
		if withNode {
			l += fmt.Sprintf(" addr=%s nodechecks=%v", c.Node.Address, nc)
		}
		out = append(out, l)
	}
	sort.Strings(out)
	return out
}

var (
	peers    = []string{"p1", "p2"}
	services = []string{"a", "b"}
)

type obs struct {
	views    map[string][]string   // peer/service -> canonical view with node data
	instOnly map[string][]string   // peer/service -> view without node data
	other    map[string]world.Dump // peer -> dump of everything that is not that peer's catalog rows
}

func rowsNotOfPeer(d world.Dump, peer string) world.Dump {
	out := world.Dump{}
	mark := fmt.Sprintf("PeerName:%q", peer)
	for t, rows := range d {
		switch t {
		case "index", "usage":
			continue // bookkeeping of every table / counters
		}
		for _, r := range rows {
			if (t == "nodes" || t == "services" || t == "checks") && strings.Contains(r, mark) {
				continue
			}
			out[t] = append(out[t], r)
		}
	}
	return out
}

func observe(w *world.World) *obs {
	o := &obs{views: map[string][]string{}, instOnly: map[string][]string{}, other: map[string]world.Dump{}}
	for _, p := range append([]string{""}, peers...) {
		for _, s := range services {
			o.views[p+"/"+s] = view(w, s, p, true)
			o.instOnly[p+"/"+s] = view(w, s, p, false)
		}
	}
	d := w.Dump(&dump.Options{MaskIndexes: true})
	for _, p := range peers {
		o.other[p] = rowsNotOfPeer(d, p)
	}
	return o
}

type update struct {
	peer, service string
	snap          *snapshot // nil for list updates
	list          []string
}

func eq(a, b []string) bool { return strings.Join(a, "\n") == strings.Join(b, "\n") }

// invariants on every state: no empty imported node, no orphan imported check, exporter side
func stateInvariants(w *world.World, violate func(sig, msg string)) {
	st := w.Store()
	for _, p := range peers {
		_, nodes, _ := st.Nodes(nil, nil, p)
		have := map[string]bool{}
		for _, n := range nodes {
			have[n.Node] = true
			_, nsl, _ := st.NodeServiceList(nil, n.Node, structs.WildcardEnterpriseMetaInDefaultPartition(), p)
			if nsl == nil || len(nsl.Services) == 0 {
				violate("C17:imported-node-without-services", fmt.Sprintf("peer %s node %s is in the catalog without any imported service", p, n.Node))
			}
		}
		w.Store().VerifWalk(func(table string, item interface{}) {
			if table != "checks" {
				return
			}
			hc := item.(*structs.HealthCheck)
			if hc.PeerName == p && !have[hc.Node] {
				violate("C17:orphaned-imported-check", fmt.Sprintf("peer %s check %s refers to node %s which is not in the catalog for that peer", p, hc.CheckID, hc.Node))
			}
		})
	}
	// exporter side: a service is offered to a peer only if an exported-services entry names the peer as a consumer of it
	_, ce, _ := st.ConfigEntry(nil, structs.ExportedServices, "default", nil)
	exact := map[string]map[string]bool{}
	wild := map[string]bool{}
	if es, ok := ce.(*structs.ExportedServicesConfigEntry); ok && es != nil {
		for _, s := range es.Services {
			for _, c := range s.Consumers {
				if s.Name == "*" {
					wild[c.Peer] = true
					continue
				}
				if exact[c.Peer] == nil {
					exact[c.Peer] = map[string]bool{}
				}
				exact[c.Peer][s.Name] = true
			}
		}
	}
	localNames := map[string]bool{}
	_, svcs, _ := st.ServiceList(nil, structs.DefaultEnterpriseMetaInDefaultPartition(), "")
	for _, sn := range svcs {
		localNames[sn.Name] = true
	}
	for _, p := range peers {
		_, list, err := st.ExportedServicesForPeer(nil, cmdlib.PeerIDs[p], cmdlib.DC)
		if err != nil || list == nil {
			continue
		}
		for _, sn := range list.Services {
			if exact[p][sn.Name] || (wild[p] && localNames[sn.Name]) {
				continue
			}
			why := "no exported-services entry names it for this peer"
			if wild[p] {
				why = "the wildcard entry covers this cluster's own services only and this is not one of them"
			}
			violate("C17:offered-to-peer-without-export:"+map[bool]string{true: "wildcard", false: "exact"}[wild[p]], fmt.Sprintf("service %q is offered to peer %s but %s", sn.Name, p, why))
		}
		for name := range exact[p] {
			found := false
			for _, sn := range list.Services {
				if sn.Name == name {
					found = true
				}
			}
			if !found {
				violate("C17:exported-service-not-offered", fmt.Sprintf("service %q is exported to peer %s by name but not offered", name, p))
			}
		}
	}
}

func Run(c *ev.Ctx) {
	quick := c.Quick()
	snaps := snapshots()
	ups := map[string]update{}
	var alpha []world.Op
	mkUpsert := func(peer, service string, sn snapshot) world.Op {
		name := fmt.Sprintf("import(%s,%s,{%s})", peer, service, sn.label)
		snc := sn
		ups[name] = update{peer: peer, service: service, snap: &snc}
		return world.Op{Name: name, Kind: "peer/upsert-service", Exec: func(w *world.World) (string, bool) {
			resp, err := peerstream.VerifServiceResponse(service, snc.csn(service))
			if err != nil {
				panic(err)
			}
			_, _, err = server(w).VerifProcessResponse(peer, "", resp)
			w.Hist = append(w.Hist, name)
			if err != nil {
				return "err:" + err.Error(), true
			}
			return "ack", true
		}}
	}
	mkList := func(peer string, list []string) world.Op {
		name := fmt.Sprintf("exported-list(%s,%v)", peer, list)
		ups[name] = update{peer: peer, list: append([]string{}, list...)}
		return world.Op{Name: name, Kind: "peer/exported-list", Exec: func(w *world.World) (string, bool) {
			resp, err := peerstream.VerifExportedListResponse(list)
			if err != nil {
				panic(err)
			}
			_, _, err = server(w).VerifProcessResponse(peer, "", resp)
			w.Hist = append(w.Hist, name)
			if err != nil {
				return "err:" + err.Error(), true
			}
			return "ack", true
		}}
	}
	for _, p := range peers {
		for _, s := range services {
			for si, sn := range snaps {
				if quick && p == "p2" && !(si == 0 || si == 1 || si == 4) {
					continue
				}
				if quick && s == "b" && (si == 5 || si == 9 || si == 10) {
					continue
				}
				alpha = append(alpha, mkUpsert(p, s, sn))
			}
			if p == "p1" && s == "a" {
				for _, sn := range extraSnapshots() {
					alpha = append(alpha, mkUpsert(p, s, sn))
				}
			}
		}
		for _, l := range [][]string{{}, {"a"}, {"b"}, {"a", "b"}} {
			alpha = append(alpha, mkList(p, l))
		}
	}
	nImport := len(alpha)
	// exporter-side configuration changes
	alpha = append(alpha,
		cmdlib.Exported(map[string][]string{"a": {"p2"}}).Upsert(),
		cmdlib.Exported(map[string][]string{"*": {"p2"}}).Upsert(),
		cmdlib.Exported(map[string][]string{"*": {"p1", "p2"}, "zz": {"p1"}}).Upsert(),
		cmdlib.Exported(map[string][]string{"a": {"p1"}}).Delete(),
	)

	// seeds: local rows (and other-peer rows) that collide by name with what is imported
	n1 := cmdlib.NodeSpec{Node: "n1", ID: "id1", Addr: "10.0.0.1"}
	n2 := cmdlib.NodeSpec{Node: "n2", Addr: "10.0.0.2"}
	n4 := cmdlib.NodeSpec{Node: "n4", ID: "id2", Addr: "10.0.0.4"}
	la := cmdlib.SvcSpec{ID: "a-1", Name: "a", Port: 8080}
	lc := cmdlib.SvcSpec{ID: "c-1", Name: "c", Port: 8081}
	base := []world.Op{
		cmdlib.PeeringWrite("p1", pbpeering.PeeringState_ACTIVE, false, ""), cmdlib.PeeringWrite("p2", pbpeering.PeeringState_ACTIVE, true, ""),
		cmdlib.RegNode(n1), cmdlib.RegNode(n2), cmdlib.RegService(n1, la), cmdlib.RegService(n2, lc),
		cmdlib.RegCheck(n1, cmdlib.CheckSpec{ID: "serfHealth", Status: "passing"}), cmdlib.RegCheck(n1, cmdlib.CheckSpec{ID: "check:a-1", Status: "critical", ServiceID: "a-1"}),
		cmdlib.RegCheck(n2, cmdlib.CheckSpec{ID: "serfHealth", Status: "critical"}),
		cmdlib.RegNode(n4), cmdlib.RegCheck(n4, cmdlib.CheckSpec{ID: "serfHealth", Status: "passing"}),
	}
	p2n1 := cmdlib.NodeSpec{Node: "n1", Addr: "10.2.0.1", Peer: "p2"}
	withP2 := append(append([]world.Op{}, base...),
		cmdlib.RegService(p2n1, cmdlib.SvcSpec{ID: "a-1", Name: "a", Port: 80}), cmdlib.RegCheck(p2n1, cmdlib.CheckSpec{ID: "serfHealth", Status: "passing"}),
		cmdlib.RegCheck(p2n1, cmdlib.CheckSpec{ID: "check:a-1", Status: "passing", ServiceID: "a-1"}))
	seeds := [][]world.Op{
		base,
		withP2,
		append(append([]world.Op{}, withP2...), cmdlib.Exported(map[string][]string{"*": {"p2"}}).Upsert()),
		append(append([]world.Op{}, base...), cmdlib.Exported(map[string][]string{"*": {"p1", "p2"}}).Upsert(), mkUpsert("p1", "b", snaps[4]), mkUpsert("p1", "a", snaps[7])),
	}
	depth := 3
	if !quick {
		depth = 4
	}
	cfg := &e1.Config{Ctx: c, Seeds: seeds, Alphabet: alpha, MaxDepth: depth, AuditMerges: 30, MaxStates: 300000,
		// The replication code walks Go maps, so one update may assign raft indexes to rows in different
		// orders. No command of this alphabet reads an index (no CAS) and the oracles compare content only,
		// so states are identified by their index-masked dump (the merge audit checks exactly that).
		Key: func(w *world.World) string { return world.HashKey(w.Dump(&dump.Options{MaskIndexes: true}).String()) },
		Pre: func(w *world.World) any { return observe(w) },
		State: func(w *world.World, hist []string, depth int, violate func(sig, msg string)) {
			stateInvariants(w, violate)
		},
		Post: func(t *e1.Trans) {
			u, isImport := ups[t.Op.Name]
			before := t.Pre.(*obs)
			after := observe(t.W)
			if !isImport {
				// exporter-side config change: the catalog is untouched
				for k, v := range before.views {
					if !eq(v, after.views[k]) {
						t.Violate("C17:config-change-altered-catalog", fmt.Sprintf("%s changed catalog view %s", t.Op.Name, k))
					}
				}
				return
			}
			if t.Result != "ack" {
				t.Violate("C17:update-refused", fmt.Sprintf("%s -> %s", t.Op.Name, t.Result))
				return
			}
			// non-interference: everything that is not this peer's catalog rows is byte-identical
			if d := world.Diff(before.other[u.peer], after.other[u.peer], 6); d != "" {
				tables := strings.Join(world.DiffTables(before.other[u.peer], after.other[u.peer]), ",")
				kind := "service"
				if u.snap == nil {
					kind = "list"
				}
				t.Violate("C17:import-touched-foreign-data:"+kind+":tables="+tables, fmt.Sprintf("%s changed rows that do not belong to peer %s:\n%s", t.Op.Name, u.peer, d))
			}
			if u.snap != nil {
				want := canon(u.snap.csn(u.service), true)
				got := after.views[u.peer+"/"+u.service]
				// Node rows (address, node-level checks) are shared by all services the peer exports on that
				// node. When another service of the peer also lives on a node of this snapshot, the node data
				// may legitimately come from that service's last snapshot: compare instances and service
				// checks only, and require the snapshot's node checks to be present.
				shared := false
				for _, s := range services {
					if s == u.service {
						continue
					}
					for _, l := range after.instOnly[u.peer+"/"+s] {
						for _, i := range u.snap.insts {
							if strings.HasPrefix(l, "node="+i.node+" ") {
								shared = true
							}
						}
					}
				}
				if shared {
					want = canon(u.snap.csn(u.service), false)
					got = after.instOnly[u.peer+"/"+u.service]
					_, csns, _ := t.W.Store().CheckServiceNodes(nil, u.service, structs.DefaultEnterpriseMetaInDefaultPartition(), u.peer)
					haveNC := map[string]bool{}
					for _, cs := range csns {
						for _, h := range cs.Checks {
							if h.ServiceID == "" {
								haveNC[cs.Node.Node+"/"+string(h.CheckID)+"="+h.Status] = true
							}
						}
					}
					for _, i := range u.snap.insts {
						if i.nodeCheck != "" && !haveNC[i.node+"/serfHealth="+i.nodeCheck] {
							t.Violate("C17:imported-node-check-missing", fmt.Sprintf("%s: node check of %s (%s) from the snapshot is not in the catalog", t.Op.Name, i.node, i.nodeCheck))
						}
					}
				}
				if !eq(want, got) {
					cls := "differs"
					if len(got) > len(want) {
						cls = "stale-instances-remain"
					} else if len(got) < len(want) {
						cls = "instances-missing"
					}
					t.Violate("C17:imported-service-differs-from-snapshot:"+cls, fmt.Sprintf("%s: catalog for (%s,%s) is\n  %s\nsnapshot was\n  %s", t.Op.Name, u.peer, u.service, strings.Join(got, "\n  "), strings.Join(want, "\n  ")))
				}
				// the peer's other services keep their instances and service checks
				for _, s := range services {
					if s != u.service && !eq(before.instOnly[u.peer+"/"+s], after.instOnly[u.peer+"/"+s]) {
						t.Violate("C17:import-altered-another-service-of-the-peer", fmt.Sprintf("%s changed the instances of (%s,%s):\n  %s\n->\n  %s", t.Op.Name, u.peer, s,
							strings.Join(before.instOnly[u.peer+"/"+s], "\n  "), strings.Join(after.instOnly[u.peer+"/"+s], "\n  ")))
					}
				}
			} else {
				in := map[string]bool{}
				for _, s := range u.list {
					in[s] = true
				}
				for _, s := range services {
					k := u.peer + "/" + s
					if in[s] {
						if !eq(before.instOnly[k], after.instOnly[k]) {
							t.Violate("C17:exported-list-altered-a-listed-service", fmt.Sprintf("%s changed (%s,%s)", t.Op.Name, u.peer, s))
						}
					} else if len(after.views[k]) != 0 {
						t.Violate("C17:unexported-service-still-imported", fmt.Sprintf("%s: (%s,%s) still has %d instances", t.Op.Name, u.peer, s, len(after.views[k])))
					}
				}
			}
		},
	}
	st := e1.Run(cfg)
	st.Report(c, "")
	runExporter(c)
	c.Set("alphabet_size", len(alpha))
	c.Set("import_ops", nImport)
	var an []string
	for _, o := range alpha {
		an = append(an, o.Name)
	}
	c.Sample(map[string]any{"alphabet": an})
	c.Set("seeds", len(seeds))
	c.Set("rule", "every sequence (<= max_depth, from every seed incl. name-colliding local and other-peer rows) of exported-service updates (11 snapshot shapes per peer and service: none, instance with service/node checks, status changes, instance moved between nodes, two nodes, two instances on a node, port change, node address change), exported-service-list updates and exported-services config changes; each import is handled by the real peerstream processResponse/handleUpdateService with FSM.Apply as raft")
	var _ = acl.DefaultPartitionName
}
