// Package rpcq is the read-query set of package queries asked through the real RPC endpoint methods
// (Catalog.*, Health.*, KVS.*, Session.*, ConfigEntry.*, Intention.*, Internal.*, Coordinate.*,
// PreparedQuery.*, DiscoveryChain.Get) on a Server value over the explored state: every query returns
// the index the endpoint reports in its QueryMeta and a canonical rendering of the reply's data.
package rpcq

import (
	"fmt"
	"sort"

	"github.com/hashicorp/consul/agent/consul"
	"github.com/hashicorp/consul/agent/structs"
	"github.com/hashicorp/consul/api"
	"github.com/hashicorp/consul/internal/verifmc/cmdlib"
	"github.com/hashicorp/consul/internal/verifmc/dump"
)

type Query struct {
	Name  string
	Group string
	// Twin names the query of package queries that reads the same data from the store directly.
	Twin string
	Run   func(vs *consul.VerifServer) (idx uint64, res string, err error)
}

var opts = &dump.Options{}

func r(v any) string { return dump.Value(v, opts) }

// call runs f and turns a panic (an endpoint touching a part of Server the harness does not provide)
// into an error, so that such a query is counted as unsupported instead of ending the run.
func call(f func() (uint64, any, error)) (idx uint64, res string, err error) {
	defer func() {
		if p := recover(); p != nil {
			err = fmt.Errorf("unsupported on the harness server: %v", p)
		}
	}()
	i, v, e := f()
	if e != nil {
		return i, "", e
	}
	return i, r(v), nil
}

const dc = cmdlib.DC

func All() []Query {
	var qs []Query
	add := func(group, name string, f func(vs *consul.VerifServer) (uint64, any, error)) {
		qs = append(qs, Query{Name: "rpc:" + name, Group: group, Twin: twin(name), Run: func(vs *consul.VerifServer) (uint64, string, error) {
			return call(func() (uint64, any, error) { return f(vs) })
		}})
	}
	// ---- KV
	for _, k := range []string{"a", "a/b", "c", "zz"} {
		k := k
		add("kv", "KVS.Get("+k+")", func(vs *consul.VerifServer) (uint64, any, error) {
			var rep structs.IndexedDirEntries
			err := vs.KVS().Get(&structs.KeyRequest{Datacenter: dc, Key: k}, &rep)
			return rep.Index, rep.Entries, err
		})
	}
	for _, p := range []string{"", "a", "a/", "c"} {
		p := p
		add("kv", "KVS.List("+p+")", func(vs *consul.VerifServer) (uint64, any, error) {
			var rep structs.IndexedDirEntries
			err := vs.KVS().List(&structs.KeyRequest{Datacenter: dc, Key: p}, &rep)
			return rep.Index, rep.Entries, err
		})
		add("kv", "KVS.ListKeys("+p+",/)", func(vs *consul.VerifServer) (uint64, any, error) {
			var rep structs.IndexedKeyList
			err := vs.KVS().ListKeys(&structs.KeyListRequest{Datacenter: dc, Prefix: p, Seperator: "/"}, &rep)
			return rep.Index, rep.Keys, err
		})
	}
	// ---- sessions
	for _, s := range []string{"s1", "s2"} {
		s := s
		add("session", "Session.Get("+s+")", func(vs *consul.VerifServer) (uint64, any, error) {
			var rep structs.IndexedSessions
			err := vs.Session().Get(&structs.SessionSpecificRequest{Datacenter: dc, SessionID: cmdlib.SessionIDs[s]}, &rep)
			return rep.Index, rep.Sessions, err
		})
	}
	add("session", "Session.List", func(vs *consul.VerifServer) (uint64, any, error) {
		var rep structs.IndexedSessions
		err := vs.Session().List(&structs.SessionSpecificRequest{Datacenter: dc}, &rep)
		return rep.Index, rep.Sessions, err
	})
	for _, n := range []string{"n1", "n2"} {
		n := n
		add("session", "Session.NodeSessions("+n+")", func(vs *consul.VerifServer) (uint64, any, error) {
			var rep structs.IndexedSessions
			err := vs.Session().NodeSessions(&structs.NodeSpecificRequest{Datacenter: dc, Node: n}, &rep)
			return rep.Index, rep.Sessions, err
		})
	}
	// ---- catalog and health
	for _, peer := range []string{"", "p1"} {
		peer := peer
		sfx := ""
		if peer != "" {
			sfx = "~" + peer
		}
		add("catalog", "Catalog.ListNodes"+sfx, func(vs *consul.VerifServer) (uint64, any, error) {
			var rep structs.IndexedNodes
			err := vs.Catalog().ListNodes(&structs.DCSpecificRequest{Datacenter: dc, PeerName: peer}, &rep)
			return rep.Index, rep.Nodes, err
		})
		add("catalog", "Catalog.ServiceList"+sfx, func(vs *consul.VerifServer) (uint64, any, error) {
			var rep structs.IndexedServiceList
			err := vs.Catalog().ServiceList(&structs.DCSpecificRequest{Datacenter: dc, PeerName: peer}, &rep)
			l := rep.Services
			sort.Slice(l, func(a, b int) bool { return l[a].Name < l[b].Name })
			return rep.Index, l, err
		})
		add("catalog", "Catalog.ListServices"+sfx, func(vs *consul.VerifServer) (uint64, any, error) {
			var rep structs.IndexedServices
			err := vs.Catalog().ListServices(&structs.DCSpecificRequest{Datacenter: dc, PeerName: peer}, &rep)
			for _, tags := range rep.Services {
				sort.Strings(tags) // collected from a map: unordered by contract
			}
			return rep.Index, rep.Services, err
		})
		for _, s := range []string{"web", "db", "web-proxy"} {
			s := s
			add("catalog", "Catalog.ServiceNodes("+s+")"+sfx, func(vs *consul.VerifServer) (uint64, any, error) {
				var rep structs.IndexedServiceNodes
				err := vs.Catalog().ServiceNodes(&structs.ServiceSpecificRequest{Datacenter: dc, ServiceName: s, PeerName: peer}, &rep)
				return rep.Index, rep.ServiceNodes, err
			})
			add("health", "Health.ServiceNodes("+s+")"+sfx, func(vs *consul.VerifServer) (uint64, any, error) {
				var rep structs.IndexedCheckServiceNodes
				err := vs.Health().ServiceNodes(&structs.ServiceSpecificRequest{Datacenter: dc, ServiceName: s, PeerName: peer}, &rep)
				return rep.Index, rep.Nodes, err
			})
		}
		add("health", "Health.ServiceNodes(web,connect)"+sfx, func(vs *consul.VerifServer) (uint64, any, error) {
			var rep structs.IndexedCheckServiceNodes
			err := vs.Health().ServiceNodes(&structs.ServiceSpecificRequest{Datacenter: dc, ServiceName: "web", Connect: true, PeerName: peer}, &rep)
			return rep.Index, rep.Nodes, err
		})
		add("catalog", "Catalog.ServiceNodes(web,connect)"+sfx, func(vs *consul.VerifServer) (uint64, any, error) {
			var rep structs.IndexedServiceNodes
			err := vs.Catalog().ServiceNodes(&structs.ServiceSpecificRequest{Datacenter: dc, ServiceName: "web", Connect: true, PeerName: peer}, &rep)
			return rep.Index, rep.ServiceNodes, err
		})
		for _, tag := range []string{"v1", "v2"} {
			tag := tag
			add("health", "Health.ServiceNodes(web,tag="+tag+")"+sfx, func(vs *consul.VerifServer) (uint64, any, error) {
				var rep structs.IndexedCheckServiceNodes
				err := vs.Health().ServiceNodes(&structs.ServiceSpecificRequest{Datacenter: dc, ServiceName: "web", ServiceTags: []string{tag}, TagFilter: true, PeerName: peer}, &rep)
				return rep.Index, rep.Nodes, err
			})
			add("catalog", "Catalog.ServiceNodes(web,tag="+tag+")"+sfx, func(vs *consul.VerifServer) (uint64, any, error) {
				var rep structs.IndexedServiceNodes
				err := vs.Catalog().ServiceNodes(&structs.ServiceSpecificRequest{Datacenter: dc, ServiceName: "web", ServiceTags: []string{tag}, TagFilter: true, PeerName: peer}, &rep)
				return rep.Index, rep.ServiceNodes, err
			})
		}
		for _, n := range []string{"n1", "n2"} {
			n := n
			add("catalog", "Catalog.NodeServices("+n+")"+sfx, func(vs *consul.VerifServer) (uint64, any, error) {
				var rep structs.IndexedNodeServices
				err := vs.Catalog().NodeServices(&structs.NodeSpecificRequest{Datacenter: dc, Node: n, PeerName: peer}, &rep)
				return rep.Index, rep.NodeServices, err
			})
			add("catalog", "Catalog.NodeServiceList("+n+")"+sfx, func(vs *consul.VerifServer) (uint64, any, error) {
				var rep structs.IndexedNodeServiceList
				err := vs.Catalog().NodeServiceList(&structs.NodeSpecificRequest{Datacenter: dc, Node: n, PeerName: peer}, &rep)
				return rep.Index, rep.NodeServices, err
			})
			add("health", "Health.NodeChecks("+n+")"+sfx, func(vs *consul.VerifServer) (uint64, any, error) {
				var rep structs.IndexedHealthChecks
				err := vs.Health().NodeChecks(&structs.NodeSpecificRequest{Datacenter: dc, Node: n, PeerName: peer}, &rep)
				return rep.Index, rep.HealthChecks, err
			})
		}
		add("health", "Health.ServiceChecks(web)"+sfx, func(vs *consul.VerifServer) (uint64, any, error) {
			var rep structs.IndexedHealthChecks
			err := vs.Health().ServiceChecks(&structs.ServiceSpecificRequest{Datacenter: dc, ServiceName: "web", PeerName: peer}, &rep)
			return rep.Index, rep.HealthChecks, err
		})
		for _, s := range []string{api.HealthAny, api.HealthCritical, api.HealthPassing} {
			s := s
			add("health", "Health.ChecksInState("+s+")"+sfx, func(vs *consul.VerifServer) (uint64, any, error) {
				var rep structs.IndexedHealthChecks
				err := vs.Health().ChecksInState(&structs.ChecksInStateRequest{Datacenter: dc, State: s, PeerName: peer}, &rep)
				return rep.Index, rep.HealthChecks, err
			})
		}
	}
	for _, gw := range []string{"tgw", "igw"} {
		gw := gw
		add("catalog", "Catalog.GatewayServices("+gw+")", func(vs *consul.VerifServer) (uint64, any, error) {
			var rep structs.IndexedGatewayServices
			err := vs.Catalog().GatewayServices(&structs.ServiceSpecificRequest{Datacenter: dc, ServiceName: gw}, &rep)
			return rep.Index, rep.Services, err
		})
		add("catalog", "Internal.GatewayServiceDump("+gw+")", func(vs *consul.VerifServer) (uint64, any, error) {
			var rep structs.IndexedServiceDump
			err := vs.Internal().GatewayServiceDump(&structs.ServiceSpecificRequest{Datacenter: dc, ServiceName: gw}, &rep)
			return rep.Index, rep.Dump, err
		})
	}
	add("catalog", "Internal.NodeDump", func(vs *consul.VerifServer) (uint64, any, error) {
		var rep structs.IndexedNodeDump
		err := vs.Internal().NodeDump(&structs.DCSpecificRequest{Datacenter: dc}, &rep)
		return rep.Index, []any{rep.Dump, rep.ImportedDump}, err
	})
	add("catalog", "Internal.NodeInfo(n1)", func(vs *consul.VerifServer) (uint64, any, error) {
		var rep structs.IndexedNodeDump
		err := vs.Internal().NodeInfo(&structs.NodeSpecificRequest{Datacenter: dc, Node: "n1"}, &rep)
		return rep.Index, rep.Dump, err
	})
	add("catalog", "Internal.ServiceDump", func(vs *consul.VerifServer) (uint64, any, error) {
		var rep structs.IndexedNodesWithGateways
		err := vs.Internal().ServiceDump(&structs.ServiceDumpRequest{Datacenter: dc}, &rep)
		return rep.Index, []any{rep.Nodes, rep.ImportedNodes, rep.Gateways}, err
	})
	add("catalog", "Internal.ServiceTopology(web)", func(vs *consul.VerifServer) (uint64, any, error) {
		var rep structs.IndexedServiceTopology
		err := vs.Internal().ServiceTopology(&structs.ServiceSpecificRequest{Datacenter: dc, ServiceName: "web"}, &rep)
		return rep.Index, rep.ServiceTopology, err
	})
	add("coordinate", "Coordinate.ListNodes", func(vs *consul.VerifServer) (uint64, any, error) {
		var rep structs.IndexedCoordinates
		err := vs.Coordinate().ListNodes(&structs.DCSpecificRequest{Datacenter: dc}, &rep)
		return rep.Index, rep.Coordinates, err
	})
	add("coordinate", "Coordinate.Node(n1)", func(vs *consul.VerifServer) (uint64, any, error) {
		var rep structs.IndexedCoordinates
		err := vs.Coordinate().Node(&structs.NodeSpecificRequest{Datacenter: dc, Node: "n1"}, &rep)
		return rep.Index, rep.Coordinates, err
	})
	// ---- config entries
	for _, kn := range [][2]string{{structs.ServiceDefaults, "web"}, {structs.ServiceResolver, "web"}, {structs.ProxyDefaults, structs.ProxyConfigGlobal},
		{structs.TerminatingGateway, "tgw"}, {structs.IngressGateway, "igw"}, {structs.ServiceIntentions, "web"}, {structs.ExportedServices, "default"}} {
		kn := kn
		add("config", "ConfigEntry.Get("+kn[0]+"/"+kn[1]+")", func(vs *consul.VerifServer) (uint64, any, error) {
			var rep structs.ConfigEntryResponse
			err := vs.ConfigEntry().Get(&structs.ConfigEntryQuery{Datacenter: dc, Kind: kn[0], Name: kn[1]}, &rep)
			return rep.Index, rep.Entry, err
		})
	}
	for _, k := range []string{structs.ServiceDefaults, structs.ServiceResolver, structs.ServiceIntentions, structs.TerminatingGateway} {
		k := k
		add("config", "ConfigEntry.List("+k+")", func(vs *consul.VerifServer) (uint64, any, error) {
			var rep structs.IndexedConfigEntries
			err := vs.ConfigEntry().List(&structs.ConfigEntryQuery{Datacenter: dc, Kind: k}, &rep)
			return rep.Index, rep.Entries, err
		})
	}
	add("config", "ConfigEntry.ListAll", func(vs *consul.VerifServer) (uint64, any, error) {
		var rep structs.IndexedGenericConfigEntries
		err := vs.ConfigEntry().ListAll(&structs.ConfigEntryListAllRequest{Datacenter: dc}, &rep)
		return rep.Index, rep.Entries, err
	})
	for _, s := range []string{"web", "db"} {
		s := s
		add("config", "DiscoveryChain.Get("+s+")", func(vs *consul.VerifServer) (uint64, any, error) {
			var rep structs.DiscoveryChainResponse
			err := vs.DiscoveryChain().Get(&structs.DiscoveryChainRequest{Datacenter: dc, Name: s, EvaluateInDatacenter: dc}, &rep)
			return rep.Index, rep.Chain, err
		})
		add("config", "ConfigEntry.ResolveServiceConfig("+s+")", func(vs *consul.VerifServer) (uint64, any, error) {
			var rep structs.ServiceConfigResponse
			err := vs.ConfigEntry().ResolveServiceConfig(&structs.ServiceConfigRequest{Datacenter: dc, Name: s, UpstreamServiceNames: []structs.PeeredServiceName{{ServiceName: structs.NewServiceName("db", nil)}}}, &rep)
			return rep.Index, []any{rep.ProxyConfig, rep.UpstreamConfigs, rep.MeshGateway, rep.Mode, rep.Expose, rep.TransparentProxy, rep.Destination}, err
		})
	}
	// ---- intentions
	add("intention", "Intention.List", func(vs *consul.VerifServer) (uint64, any, error) {
		var rep structs.IndexedIntentions
		err := vs.Intention().List(&structs.IntentionListRequest{Datacenter: dc}, &rep)
		return rep.Index, rep.Intentions, err
	})
	for _, mt := range []structs.IntentionMatchType{structs.IntentionMatchDestination, structs.IntentionMatchSource} {
		for _, n := range []string{"web", "db"} {
			mt, n := mt, n
			add("intention", "Intention.Match("+string(mt)+","+n+")", func(vs *consul.VerifServer) (uint64, any, error) {
				var rep structs.IndexedIntentionMatches
				err := vs.Intention().Match(&structs.IntentionQueryRequest{Datacenter: dc, Match: &structs.IntentionQueryMatch{Type: mt,
					Entries: []structs.IntentionMatchEntry{{Namespace: "default", Partition: "default", Name: n}}}}, &rep)
				return rep.Index, rep.Matches, err
			})
		}
	}
	add("intention", "Internal.IntentionUpstreams(web)", func(vs *consul.VerifServer) (uint64, any, error) {
		var rep structs.IndexedServiceList
		err := vs.Internal().IntentionUpstreams(&structs.ServiceSpecificRequest{Datacenter: dc, ServiceName: "web"}, &rep)
		l := rep.Services
		sort.Slice(l, func(a, b int) bool { return l[a].Name < l[b].Name }) // built from a map: unordered by contract
		return rep.Index, l, err
	})
	// ---- prepared queries
	add("pq", "PreparedQuery.Get(q1)", func(vs *consul.VerifServer) (uint64, any, error) {
		var rep structs.IndexedPreparedQueries
		err := vs.PreparedQuery().Get(&structs.PreparedQuerySpecificRequest{Datacenter: dc, QueryID: cmdlib.QueryIDs["q1"]}, &rep)
		return rep.Index, rep.Queries, err
	})
	add("pq", "PreparedQuery.List", func(vs *consul.VerifServer) (uint64, any, error) {
		var rep structs.IndexedPreparedQueries
		err := vs.PreparedQuery().List(&structs.DCSpecificRequest{Datacenter: dc}, &rep)
		return rep.Index, rep.Queries, err
	})
	// ---- peering-related reads served by net/rpc endpoints
	add("peering", "Internal.ExportedPeeredServices", func(vs *consul.VerifServer) (uint64, any, error) {
		var rep structs.IndexedExportedServiceList
		err := vs.Internal().ExportedPeeredServices(&structs.DCSpecificRequest{Datacenter: dc}, &rep)
		return rep.Index, rep.Services, err
	})
	add("peering", "Internal.PeeredUpstreams", func(vs *consul.VerifServer) (uint64, any, error) {
		var rep structs.IndexedPeeredServiceList
		err := vs.Internal().PeeredUpstreams(&structs.PartitionSpecificRequest{Datacenter: dc}, &rep)
		return rep.Index, rep.Services, err
	})
	add("ca", "ConnectCA.Roots", func(vs *consul.VerifServer) (uint64, any, error) {
		var rep structs.IndexedCARoots
		err := vs.ConnectCA().Roots(&structs.DCSpecificRequest{Datacenter: dc}, &rep)
		return rep.Index, []any{rep.ActiveRootID, rep.Roots}, err
	})
	return qs
}

// Groups selects queries by group name (all if none given).
func Groups(names ...string) []Query {
	want := map[string]bool{}
	for _, n := range names {
		want[n] = true
	}
	var out []Query
	for _, q := range All() {
		if len(want) == 0 || want[q.Group] {
			out = append(out, q)
		}
	}
	return out
}

// twin maps an endpoint query to the store-level query over the same data (same peer suffix).
func twin(name string) string {
	sfx := ""
	if n := len(name); n > 3 && name[n-3:] == "~p1" {
		sfx, name = "~p1", name[:n-3]
	}
	arg := ""
	base := name
	for i := 0; i < len(name); i++ {
		if name[i] == '(' {
			base, arg = name[:i], name[i:]
			break
		}
	}
	t := map[string]string{
		"KVS.Get": "kv.get", "KVS.List": "kv.list", "Session.Get": "session.get", "Session.List": "session.list", "Session.NodeSessions": "session.node",
		"Catalog.ListNodes": "catalog.nodes", "Catalog.ServiceList": "catalog.services", "Catalog.NodeServices": "catalog.node-services",
		"Catalog.NodeServiceList": "catalog.node-service-list", "Health.NodeChecks": "health.node-checks", "Health.ServiceChecks": "health.service-checks",
		"Health.ChecksInState": "health.state", "Catalog.GatewayServices": "catalog.gateway-services", "Coordinate.ListNodes": "coordinate.list",
		"Coordinate.Node": "coordinate.node", "ConfigEntry.Get": "config.get", "ConfigEntry.List": "config.list", "Intention.List": "intention.list",
		"Intention.Match": "intention.match", "PreparedQuery.Get": "pq.get", "PreparedQuery.List": "pq.list", "ConnectCA.Roots": "ca.roots",
		"Internal.NodeDump": "catalog.node-dump",
	}
	switch {
	case base == "Health.ServiceNodes" && arg == "(web,connect)":
		return "health.connect(web)" + sfx
	case base == "Catalog.ServiceNodes" && arg == "(web,connect)":
		return "catalog.connect-service-nodes(web)" + sfx
	case base == "Health.ServiceNodes" && len(arg) > 9 && arg[:9] == "(web,tag=":
		return "health.service-tag(web," + arg[9:] + sfx
	case base == "Catalog.ServiceNodes" && len(arg) > 9 && arg[:9] == "(web,tag=":
		return "catalog.service-tag-nodes(web," + arg[9:] + sfx
	case base == "Health.ServiceNodes":
		return "health.service" + arg + sfx
	case base == "Catalog.ServiceNodes":
		return "catalog.service-nodes" + arg + sfx
	}
	if v, ok := t[base]; ok {
		return v + arg + sfx
	}
	return ""
}
