// Package c20: snapshot archives — exact round trip, corruption always detected.
package c20

import (
	"archive/tar"
	"bytes"
	"compress/gzip"
	"fmt"
	"io"
	"os"
	"reflect"
	"runtime"
	"sort"
	"strings"
	"sync"
	"sync/atomic"

	"github.com/hashicorp/go-hclog"
	"github.com/hashicorp/raft"

	"github.com/hashicorp/consul/internal/verifmc/ev"
	"github.com/hashicorp/consul/snapshot"
)

type member struct {
	hdr  tar.Header
	data []byte
}

type archive struct {
	raw     []byte
	state   []byte
	meta    raft.SnapshotMeta
	members []member
	// byte classes: position -> class name
	class []string
}

func mkMeta(variant int) raft.SnapshotMeta {
	m := raft.SnapshotMeta{Version: 1, ID: "2-10-1700000000000", Index: 10, Term: 2, Configuration: raft.Configuration{
		Servers: []raft.Server{{Suffrage: raft.Voter, ID: "s1", Address: "127.0.0.1:8300"}}}, ConfigurationIndex: 1, Size: 0}
	if variant == 1 {
		m.ID, m.Index, m.Term = "7-123456-1700000000999", 123456, 7
		m.Configuration.Servers = append(m.Configuration.Servers, raft.Server{Suffrage: raft.Nonvoter, ID: "s2 with spaces", Address: "10.0.0.2:8300"})
	}
	return m
}

func payload(n int) []byte {
	b := make([]byte, n)
	for i := range b {
		b[i] = byte(i*7 + 13)
	}
	return b
}

func build(size, metaVariant int) (*archive, error) {
	a := &archive{state: payload(size), meta: mkMeta(metaVariant)}
	a.meta.Size = int64(size) // the writer copies exactly meta.Size bytes of state
	var buf bytes.Buffer
	m := a.meta
	if err := snapshot.VerifWrite(&buf, &m, bytes.NewReader(a.state)); err != nil {
		return nil, err
	}
	a.raw = buf.Bytes()
	a.class = make([]string, len(a.raw))
	tr := tar.NewReader(bytes.NewReader(a.raw))
	off := 0
	for {
		h, err := tr.Next()
		if err == io.EOF {
			break
		}
		if err != nil {
			return nil, err
		}
		d, _ := io.ReadAll(tr)
		a.members = append(a.members, member{*h, d})
		for i := off; i < off+512 && i < len(a.raw); i++ {
			a.class[i] = "header:" + h.Name
		}
		for i := off + 512; i < off+512+len(d); i++ {
			a.class[i] = "content:" + h.Name
		}
		pad := (512 - len(d)%512) % 512
		for i := off + 512 + len(d); i < off+512+len(d)+pad; i++ {
			a.class[i] = "padding:" + h.Name
		}
		off += 512 + len(d) + pad
	}
	for i := off; i < len(a.raw); i++ {
		a.class[i] = "trailer"
	}
	return a, nil
}

// outcome of reading a (possibly damaged) plain archive
func readPlain(b []byte) (state []byte, meta raft.SnapshotMeta, err error) {
	defer func() {
		if p := recover(); p != nil {
			err = fmt.Errorf("PANIC: %v", p)
		}
	}()
	var out bytes.Buffer
	err = snapshot.VerifRead(bytes.NewReader(b), &meta, &out)
	return out.Bytes(), meta, err
}

// readFull goes through the exported snapshot.Read (handles gzip, spools state to a temp file)
func readFull(b []byte) (state []byte, meta *raft.SnapshotMeta, err error) {
	defer func() {
		if p := recover(); p != nil {
			err = fmt.Errorf("PANIC: %v", p)
		}
	}()
	f, m, err := snapshot.Read(hclog.NewNullLogger(), bytes.NewReader(b))
	if err != nil {
		if f != nil {
			return nil, nil, fmt.Errorf("HANDLE-ON-ERROR: %v", err)
		}
		return nil, nil, err
	}
	defer func() { f.Close(); os.Remove(f.Name()) }()
	st, rerr := io.ReadAll(f)
	if rerr != nil {
		return nil, nil, rerr
	}
	return st, m, nil
}

func rewrite(ms []member) []byte {
	var buf bytes.Buffer
	tw := tar.NewWriter(&buf)
	for _, m := range ms {
		h := m.hdr
		h.Size = int64(len(m.data))
		if h.Typeflag != tar.TypeReg && h.Typeflag != 0 {
			h.Size = 0
		}
		if err := tw.WriteHeader(&h); err != nil {
			panic(err)
		}
		if h.Size > 0 {
			tw.Write(m.data)
		}
	}
	tw.Close()
	return buf.Bytes()
}

func gz(b []byte) []byte {
	var buf bytes.Buffer
	w := gzip.NewWriter(&buf)
	w.Write(b)
	w.Close()
	return buf.Bytes()
}

type tally struct {
	mu    sync.Mutex
	evals int64
	cells map[string]int
}

func (t *tally) add(cell string) {
	t.mu.Lock()
	t.cells[cell]++
	t.mu.Unlock()
}

func parallel(n int, fn func(i int)) {
	var next int64 = -1
	var wg sync.WaitGroup
	for w := 0; w < runtime.NumCPU(); w++ {
		wg.Add(1)
		go func() {
			defer wg.Done()
			for {
				i := int(atomic.AddInt64(&next, 1))
				if i >= n {
					return
				}
				fn(i)
			}
		}()
	}
	wg.Wait()
}

func Run(c *ev.Ctx) {
	quick := c.Quick()
	os.Setenv("TMPDIR", "/verif/build/tmp")
	os.MkdirAll("/verif/build/tmp", 0o755)
	sizes := []int{0, 513}
	if !quick {
		sizes = []int{0, 1, 511, 512, 513, 1041}
	}
	t := &tally{cells: map[string]int{}}

	judge := func(a *archive, what, class string, state []byte, meta raft.SnapshotMeta, err error, mustReject bool, replay map[string]any) {
		atomic.AddInt64(&t.evals, 1)
		switch {
		case err != nil && len(err.Error()) >= 5 && err.Error()[:5] == "PANIC":
			t.add(class + "=>panic")
			c.Violate("C20:panic:"+what+":"+class, err.Error(), replay)
		case err != nil && len(err.Error()) >= 15 && err.Error()[:15] == "HANDLE-ON-ERROR":
			t.add(class + "=>handle-on-error")
			c.Violate("C20:file-handle-returned-with-error:"+what, err.Error(), replay)
		case err != nil:
			t.add(class + "=>reject")
		default:
			same := bytes.Equal(state, a.state) && reflect.DeepEqual(meta, a.meta)
			if !same {
				t.add(class + "=>accepted-altered")
				c.Violate("C20:accepted-with-altered-content:"+what+":"+class,
					fmt.Sprintf("a damaged archive (%s, %s) was accepted and the extracted state or metadata differs from the original (state %d bytes vs %d, equal=%v; meta equal=%v)",
						what, class, len(state), len(a.state), bytes.Equal(state, a.state), reflect.DeepEqual(meta, a.meta)), replay)
			} else if mustReject {
				t.add(class + "=>accepted-exact")
				c.Violate("C20:damage-not-detected:"+what+":"+class, fmt.Sprintf("an archive damaged inside %s (%s) was accepted", class, what), replay)
			} else {
				t.add(class + "=>accepted-exact")
			}
		}
	}

	for _, size := range sizes {
		for mv := 0; mv < 2; mv++ {
			if quick && mv == 1 && size != 0 {
				continue
			}
			a, err := build(size, mv)
			if err != nil {
				c.HarnessError("cannot build archive: " + err.Error())
				return
			}
			tag := fmt.Sprintf("payload=%d,meta=%d", size, mv)
			// round trip
			st, m, err := readPlain(a.raw)
			if err != nil || !bytes.Equal(st, a.state) || !reflect.DeepEqual(m, a.meta) {
				c.Violate("C20:round-trip", fmt.Sprintf("pristine archive (%s) does not round-trip: err=%v", tag, err), map[string]any{"payload": size, "meta": mv})
				continue
			}
			if st2, m2, err := readFull(gz(a.raw)); err != nil || !bytes.Equal(st2, a.state) || !reflect.DeepEqual(*m2, a.meta) {
				c.Violate("C20:round-trip-gzip", fmt.Sprintf("pristine gzip archive (%s) does not round-trip through snapshot.Read: err=%v", tag, err), map[string]any{"payload": size, "meta": mv})
			}
			// every byte position x values
			vals := []int{}
			if quick {
				vals = []int{0x01, 0x80, 0xff, 0x20, 0x30}
			} else {
				for v := 1; v < 256; v++ {
					vals = append(vals, v)
				}
			}
			parallel(len(a.raw), func(pos int) {
				if c.Expired() {
					return
				}
				for _, x := range vals {
					b := append([]byte{}, a.raw...)
					b[pos] ^= byte(x)
					st, m, err := readPlain(b)
					cl := a.class[pos]
					must := cl == "content:state.bin" || cl == "content:meta.json"
					judge(a, "byte-flip", cl, st, m, err, must, map[string]any{"payload": size, "meta": mv, "pos": pos, "xor": x})
				}
			})
			// every truncation length
			parallel(len(a.raw), func(n int) {
				st, m, err := readPlain(a.raw[:n])
				cl := "truncate@" + a.class[n]
				// cut short before the last member is complete => must reject; cutting inside the trailer may be accepted exactly
				must := a.class[n] != "trailer" && a.class[n] != "padding:SHA256SUMS" // the last member is complete there
				judge(a, "truncation", cl, st, m, err, must, map[string]any{"payload": size, "meta": mv, "truncate_to": n})
			})
			// member-level edits
			ms := a.members
			var variants []struct {
				name string
				ms   []member
				must bool
			}
			add := func(name string, m []member, must bool) {
				variants = append(variants, struct {
					name string
					ms   []member
					must bool
				}{name, m, must})
			}
			for i := range ms {
				var r []member
				r = append(r, ms[:i]...)
				r = append(r, ms[i+1:]...)
				add("remove:"+ms[i].hdr.Name, r, true)
			}
			permIdx := [][]int{{0, 2, 1}, {1, 0, 2}, {1, 2, 0}, {2, 0, 1}, {2, 1, 0}}
			for _, p := range permIdx {
				add(fmt.Sprintf("reorder:%v", p), []member{ms[p[0]], ms[p[1]], ms[p[2]]}, false)
			}
			for i := range ms {
				for pos := 0; pos <= len(ms); pos++ {
					var r []member
					r = append(r, ms[:pos]...)
					r = append(r, ms[i])
					r = append(r, ms[pos:]...)
					add(fmt.Sprintf("duplicate:%s@%d", ms[i].hdr.Name, pos), r, false) // harmless only if extraction is exact
					// duplicate with different content (an injected second copy)
					alt := ms[i]
					alt.data = append([]byte("INJECTED"), ms[i].data...)
					var r2 []member
					r2 = append(r2, ms[:pos]...)
					r2 = append(r2, alt)
					r2 = append(r2, ms[pos:]...)
					add(fmt.Sprintf("inject-copy:%s@%d", ms[i].hdr.Name, pos), r2, true)
				}
			}
			for _, tf := range []byte{tar.TypeReg, tar.TypeDir, tar.TypeSymlink, tar.TypeLink, tar.TypeFifo, tar.TypeChar} {
				for pos := 0; pos <= len(ms); pos++ {
					for _, withData := range []bool{false, true} {
						h := ms[0].hdr
						h.Name = "extra.bin"
						h.Typeflag = tf
						h.Linkname = ""
						if tf == tar.TypeSymlink || tf == tar.TypeLink {
							h.Linkname = "state.bin"
						}
						e := member{hdr: h}
						if withData && tf == tar.TypeReg {
							e.data = []byte("unexpected")
						} else if withData {
							continue
						}
						var r []member
						r = append(r, ms[:pos]...)
						r = append(r, e)
						r = append(r, ms[pos:]...)
						add(fmt.Sprintf("inject:type=%c,data=%v@%d", tf, withData, pos), r, true)
					}
				}
			}
			// SHA256SUMS edits
			var sums member
			var rest []member
			for _, m := range ms {
				if m.hdr.Name == "SHA256SUMS" {
					sums = m
				} else {
					rest = append(rest, m)
				}
			}
			lines := bytes.SplitAfter(sums.data, []byte("\n"))
			for li := range lines {
				if len(lines[li]) == 0 {
					continue
				}
				var d []byte
				for lj := range lines {
					if lj != li {
						d = append(d, lines[lj]...)
					}
				}
				s2 := sums
				s2.data = d
				add(fmt.Sprintf("sums-missing-line:%d", li), append(append([]member{}, rest...), s2), true)
				s3 := sums
				s3.data = append(append([]byte{}, sums.data...), lines[li]...)
				add(fmt.Sprintf("sums-duplicate-line:%d", li), append(append([]member{}, rest...), s3), false)
			}
			// one member's checksum line replaced by a second copy of another member's line (the list keeps its length but
			// no longer covers that member), with the uncovered member intact and with its content altered
			for li := range lines {
				for lj := range lines {
					if li == lj || len(lines[li]) == 0 || len(lines[lj]) == 0 {
						continue
					}
					var d []byte
					for lk := range lines {
						if lk == li {
							d = append(d, lines[lj]...)
						} else {
							d = append(d, lines[lk]...)
						}
					}
					s5 := sums
					s5.data = d
					add(fmt.Sprintf("sums-line-%d-replaced-by-copy-of-%d", li, lj), append(append([]member{}, rest...), s5), true)
					uncovered := string(bytes.TrimSpace(lines[li]))
					if k := strings.LastIndexByte(uncovered, ' '); k >= 0 {
						uncovered = uncovered[k+1:]
					}
					var alt []member
					for _, m := range rest {
						if m.hdr.Name == uncovered && len(m.data) > 0 {
							m2 := m
							m2.data = append([]byte{}, m.data...)
							m2.data[len(m2.data)/2] ^= 0x01
							m = m2
						}
						alt = append(alt, m)
					}
					add(fmt.Sprintf("sums-line-%d-replaced-by-copy-of-%d+uncovered-member-altered", li, lj), append(alt, s5), true)
				}
			}
			s4 := sums
			s4.data = append(append([]byte{}, sums.data...), []byte("0000000000000000000000000000000000000000000000000000000000000000  other.bin\n")...)
			add("sums-extra-line", append(append([]member{}, rest...), s4), true)
			for _, v := range variants {
				b := rewrite(v.ms)
				st, m, err := readPlain(b)
				judge(a, "member-edit", v.name, st, m, err, v.must, map[string]any{"payload": size, "meta": mv, "edit": v.name})
				// the same through the exported gzip-aware reader
				st2, m2, err2 := readFull(gz(b))
				var mm raft.SnapshotMeta
				if m2 != nil {
					mm = *m2
				}
				judge(a, "member-edit-gzip", v.name, st2, mm, err2, v.must, map[string]any{"payload": size, "meta": mv, "edit": v.name, "gzip": true})
			}
			// gzip-level damage
			g := gz(a.raw)
			gvals := []int{0x01, 0x80, 0xff}
			parallel(len(g), func(pos int) {
				for _, x := range gvals {
					b := append([]byte{}, g...)
					b[pos] ^= byte(x)
					st, m, err := readFull(b)
					var mm raft.SnapshotMeta
					if m != nil {
						mm = *m
					}
					judge(a, "gzip-byte-flip", "gzip-stream", st, mm, err, false, map[string]any{"payload": size, "meta": mv, "gzip_pos": pos, "xor": x})
				}
			})
			parallel(len(g), func(n int) {
				st, m, err := readFull(g[:n])
				var mm raft.SnapshotMeta
				if m != nil {
					mm = *m
				}
				judge(a, "gzip-truncation", "gzip-stream", st, mm, err, true, map[string]any{"payload": size, "meta": mv, "gzip_truncate_to": n})
			})
			// data after the end of the archive. Unstructured junk may be refused or ignored; anything that is
			// itself a member or an archive is an unexpected member and must be refused, wherever it hides:
			// after the tar end-of-archive marker inside the gzip stream, or in a second gzip member.
			extraMember := rewrite([]member{{hdr: tar.Header{Name: "evil.bin", Mode: 0600, Typeflag: tar.TypeReg}, data: []byte("smuggled")}})
			other, err := build(size+1, 1-mv)
			if err != nil {
				panic(err)
			}
			cat := func(parts ...[]byte) []byte {
				var out []byte
				for _, p := range parts {
					out = append(out, p...)
				}
				return out
			}
			type tail struct {
				b    []byte
				must bool
			}
			for name, tl := range map[string]tail{
				"trailing-garbage":                    {cat(g, []byte("garbage after the stream")), false},
				"trailing-byte":                       {cat(g, []byte{0}), false},
				"concatenated-junk-member":            {cat(g, gz([]byte("second member"))), false},
				"concatenated-archive":                {cat(g, g), true},
				"concatenated-other-archive":          {cat(g, gz(other.raw)), true},
				"concatenated-unexpected-member":      {cat(g, gz(extraMember)), true},
				"inside-stream-other-archive":         {gz(cat(a.raw, other.raw)), true},
				"inside-stream-unexpected-member":     {gz(cat(a.raw, extraMember)), true},
				"inside-stream-junk-after-terminator": {gz(cat(a.raw, []byte("junk after the tar terminator"))), false},
			} {
				st, m, err := readFull(tl.b)
				var mm raft.SnapshotMeta
				if m != nil {
					mm = *m
				}
				judge(a, "gzip-tail", name, st, mm, err, tl.must, map[string]any{"payload": size, "meta": mv, "gzip_tail": name})
			}
		}
	}
	c.Set("evaluations", t.evals)
	c.Set("distinct_nontrivial", len(t.cells))
	var cells []string
	for k, v := range t.cells {
		cells = append(cells, fmt.Sprintf("%s x%d", k, v))
	}
	sort.Strings(cells)
	c.Set("position_class_x_outcome", cells)
	c.Set("payload_sizes", sizes)
	c.Set("rule", "for each fresh archive: every byte position x flip values, every truncation length, every member removal / order / duplication / injected copy / injected extra member of every tar type at every position, SHA256SUMS line edits; gzip-wrapped: the member edits again through snapshot.Read, every gzip byte position x 3 flips, every gzip truncation, trailing garbage and concatenated members. Outcome must be reject, or accept with exactly the original state bytes and metadata; damage inside state.bin/meta.json content, a missing member or checksum line, a cut before the last member is complete, or any extra member must be rejected. distinct_nontrivial = distinct (position class, outcome) cells")
	c.Sample(map[string]any{"cells": cells[:minInt(8, len(cells))]})
}

func minInt(a, b int) int {
	if a < b {
		return a
	}
	return b
}
