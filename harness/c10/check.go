// Package c10: conditional writes are honest — applied iff matched, reported iff applied.
package c10

import (
	"fmt"
	"strings"

	"github.com/hashicorp/consul/agent/structs"
	"github.com/hashicorp/consul/api"
	"github.com/hashicorp/consul/internal/verifmc/cmdlib"
	"github.com/hashicorp/consul/internal/verifmc/dump"
	"github.com/hashicorp/consul/internal/verifmc/ep"
	"github.com/hashicorp/consul/internal/verifmc/ev"
	"github.com/hashicorp/consul/internal/verifmc/world"
)

type matchKind int

const (
	upsert   matchKind = iota // index 0 matches iff absent; non-zero matches iff present with that modify index
	del                       // absent: vacuous; present: matches iff equal (0 never matches)
	strict                    // matches iff equal to the current index, where absent counts as 0
	existing                  // matches iff present and equal; absent with 0 is left unspecified
)

type prestate struct {
	name string
	ops  []world.Op
}

type family struct {
	name string
	kind matchKind
	pres []prestate
	cur  func(w *world.World) uint64
	cmd  func(c cmdlib.IdxClass) world.Op
	// reported: nil means the command has no success flag (only applied<=>matched is decidable)
	reported func(w *world.World, res string) (ok bool, known bool)
	classes  []cmdlib.IdxClass
	// sameContent: the command writes what some pre-states already hold; then "matched but nothing
	// changed" is not a fault (there is nothing to change) and only the other clauses are judged
	sameContent bool
}

func boolReported(w *world.World, res string) (bool, bool) {
	switch {
	case res == "true":
		return true, true
	case res == "false", strings.HasPrefix(res, "err:"):
		return false, true
	}
	return false, false
}

func txnReported(w *world.World, res string) (bool, bool) {
	r, ok := w.LastRaw.(structs.TxnResponse)
	if !ok {
		return false, false
	}
	return len(r.Errors) == 0, true
}

func matched(k matchKind, cur, supplied uint64) (m bool, specified bool) {
	switch k {
	case upsert:
		if supplied == 0 {
			return cur == 0, true
		}
		return cur != 0 && cur == supplied, true
	case del:
		if cur == 0 {
			return false, false // vacuous: nothing to delete
		}
		return cur == supplied, true
	case strict:
		return cur == supplied, true
	case existing:
		if cur == 0 {
			return false, supplied != 0
		}
		return cur == supplied, true
	}
	return false, false
}

func ops(o ...world.Op) []world.Op { return o }

func Run(c *ev.Ctx) {
	n1 := cmdlib.NodeSpec{Node: "n1"}
	n1b := cmdlib.NodeSpec{Node: "n1", Addr: "10.0.0.7"}
	n1c := cmdlib.NodeSpec{Node: "n1", Addr: "10.0.0.8"}
	web := cmdlib.SvcSpec{Name: "web", Port: 80}
	web81 := cmdlib.SvcSpec{Name: "web", Port: 81}
	web82 := cmdlib.SvcSpec{Name: "web", Port: 82}
	ck := cmdlib.CheckSpec{ID: "c1", Status: api.HealthPassing}
	ckW := cmdlib.CheckSpec{ID: "c1", Status: api.HealthWarning}
	ckC := cmdlib.CheckSpec{ID: "c1", Status: api.HealthCritical, Output: "cas"}

	kvset := func(v string) world.Op { return cmdlib.KVSpec{Verb: api.KVSet, Key: "k", Val: v}.Op() }
	kvdel := cmdlib.KVSpec{Verb: api.KVDelete, Key: "k"}.Op()
	// a longer key that starts with the same characters: an exact-key lookup must not see it. It is written
	// last so that "stale" for the absent key (next-1) is exactly the sibling's modify index.
	kvsib := cmdlib.KVSpec{Verb: api.KVSet, Key: "k/sub", Val: "sibling"}.Op()
	kvsib2 := cmdlib.KVSpec{Verb: api.KVSet, Key: "kz", Val: "sibling"}.Op()
	kvPres := []prestate{{"absent", nil}, {"present", ops(kvset("a"))}, {"modified", ops(kvset("a"), kvset("b"))},
		{"re-created", ops(kvset("a"), kvdel, kvset("c"))}, {"deleted", ops(kvset("a"), kvdel)},
		{"absent-with-longer-sibling", ops(kvsib)}, {"deleted-with-longer-siblings", ops(kvset("a"), kvdel, kvsib2, kvsib)},
		{"present-with-longer-sibling", ops(kvset("a"), kvsib)}}
	kvCur := func(w *world.World) uint64 {
		_, e, _ := w.Store().KVSGet(nil, "k", nil)
		if e == nil {
			return 0
		}
		return e.ModifyIndex
	}

	sd := func(p string) cmdlib.CE { return cmdlib.SvcDefaults("web", p) }
	cePres := []prestate{{"absent", nil}, {"present", ops(sd("tcp").Upsert())}, {"modified", ops(sd("tcp").Upsert(), sd("http").Upsert())},
		{"re-created", ops(sd("tcp").Upsert(), sd("tcp").Delete(), sd("http2").Upsert())}, {"deleted", ops(sd("tcp").Upsert(), sd("tcp").Delete())}}
	ceCur := func(w *world.World) uint64 { return cmdlib.CECur(w, structs.ServiceDefaults, "web") }

	nodePres := []prestate{{"absent", nil}, {"present", ops(cmdlib.RegNode(n1))}, {"modified", ops(cmdlib.RegNode(n1), cmdlib.RegNode(n1b))},
		{"re-created", ops(cmdlib.RegNode(n1), cmdlib.DeregNode("n1", ""), cmdlib.RegNode(n1b))}}
	nodeCur := func(w *world.World) uint64 {
		_, n, _ := w.Store().GetNode("n1", nil, "")
		if n == nil {
			return 0
		}
		return n.ModifyIndex
	}
	n1id1 := cmdlib.NodeSpec{Node: "n1", ID: "id1"}
	n1id2c := cmdlib.NodeSpec{Node: "n1", ID: "id2", Addr: "10.0.0.8"}
	n1id1c := cmdlib.NodeSpec{Node: "n1", ID: "id1", Addr: "10.0.0.8"}
	// the writer's node ID differs from (or is newer than) the one registered under the name
	nodeIDPres := []prestate{{"absent", nil}, {"present-without-id", ops(cmdlib.RegNode(n1))}, {"present-same-id", ops(cmdlib.RegNode(n1id1))},
		{"modified-same-id", ops(cmdlib.RegNode(n1id1), cmdlib.RegNode(cmdlib.NodeSpec{Node: "n1", ID: "id1", Addr: "10.0.0.7"}))},
		{"re-created-other-id", ops(cmdlib.RegNode(cmdlib.NodeSpec{Node: "n1", ID: "id2"}), cmdlib.DeregNode("n1", ""), cmdlib.RegNode(n1id1))},
		{"other-node-has-id", ops(cmdlib.RegNode(n1), cmdlib.RegNode(cmdlib.NodeSpec{Node: "n9", ID: "id2"}))}}
	svcPres := []prestate{{"node-missing", nil}, {"absent", ops(cmdlib.RegNode(n1))}, {"present", ops(cmdlib.RegService(n1, web))}, {"modified", ops(cmdlib.RegService(n1, web), cmdlib.RegService(n1, web81))},
		{"re-created", ops(cmdlib.RegService(n1, web), cmdlib.DeregService("n1", "web", ""), cmdlib.RegService(n1, web81))}}
	svcCur := func(w *world.World) uint64 {
		_, s, _ := w.Store().NodeService(nil, "n1", "web", nil, "")
		if s == nil {
			return 0
		}
		return s.ModifyIndex
	}
	ckPres := []prestate{{"node-missing", nil}, {"absent", ops(cmdlib.RegNode(n1))}, {"present", ops(cmdlib.RegCheck(n1, ck))}, {"modified", ops(cmdlib.RegCheck(n1, ck), cmdlib.RegCheck(n1, ckW))},
		{"re-created", ops(cmdlib.RegCheck(n1, ck), cmdlib.DeregCheck("n1", "c1", ""), cmdlib.RegCheck(n1, ckW))}}
	ckCur := func(w *world.World) uint64 {
		_, h, _ := w.Store().NodeCheck("n1", "c1", nil, "")
		if h == nil {
			return 0
		}
		return h.ModifyIndex
	}

	r1 := []cmdlib.RootSpec{{ID: "r1", Active: true}}
	r2 := []cmdlib.RootSpec{{ID: "r1"}, {ID: "r2", Active: true}}
	r3 := []cmdlib.RootSpec{{ID: "r3", Active: true}}
	rootsPres := []prestate{{"absent", nil}, {"present", ops(cmdlib.CASetRoots(r1, cmdlib.IdxZero))},
		{"rotated", ops(cmdlib.CASetRoots(r1, cmdlib.IdxZero), cmdlib.CASetRoots(r2, cmdlib.IdxCurrent))}}
	rootsCur := func(w *world.World) uint64 { i, _, _ := w.Store().CARoots(nil); return i }
	cfgPres := []prestate{{"absent", nil}, {"present", ops(cmdlib.CASetConfig("72h", cmdlib.IdxZero))},
		{"modified", ops(cmdlib.CASetConfig("72h", cmdlib.IdxZero), cmdlib.CASetConfig("48h", cmdlib.IdxZero))}}
	cfgCur := func(w *world.World) uint64 {
		_, cf, _ := w.Store().CAConfig(nil)
		if cf == nil {
			return 0
		}
		return cf.ModifyIndex
	}
	apPres := []prestate{{"absent", nil}, {"present", ops(cmdlib.Autopilot(100, false, 0))}, {"modified", ops(cmdlib.Autopilot(100, false, 0), cmdlib.Autopilot(200, false, 0))}}
	apCur := func(w *world.World) uint64 {
		_, a, _ := w.Store().AutopilotConfig()
		if a == nil {
			return 0
		}
		return a.ModifyIndex
	}
	tk := func(d string) cmdlib.TokenSpec { return cmdlib.TokenSpec{ID: "t1", Desc: d} }
	tokPres := []prestate{{"absent", nil}, {"present", ops(cmdlib.TokenSet(tk("a"), false, 0, false))},
		{"modified", ops(cmdlib.TokenSet(tk("a"), false, 0, false), cmdlib.TokenSet(tk("b"), false, 0, false))},
		{"re-created", ops(cmdlib.TokenSet(tk("a"), false, 0, false), cmdlib.TokenDelete("t1"), cmdlib.TokenSet(tk("b"), false, 0, false))}}
	tokCur := func(w *world.World) uint64 {
		_, t, _ := w.Store().ACLTokenGetByAccessor(nil, cmdlib.TokenAccessors["t1"], nil)
		if t == nil {
			return 0
		}
		return t.ModifyIndex
	}

	all := cmdlib.AllIdx
	fams := []family{
		{name: "kv/cas", kind: upsert, pres: kvPres, cur: kvCur, reported: boolReported,
			cmd: func(ic cmdlib.IdxClass) world.Op {
				return cmdlib.KVSpec{Verb: api.KVCAS, Key: "k", Val: "cas", Idx: ic, UseIdx: true}.Op()
			}},
		{name: "kv/delete-cas", kind: del, pres: kvPres, cur: kvCur, reported: boolReported,
			cmd: func(ic cmdlib.IdxClass) world.Op {
				return cmdlib.KVSpec{Verb: api.KVDeleteCAS, Key: "k", Idx: ic, UseIdx: true}.Op()
			}},
		{name: "txn/kv-cas", kind: upsert, pres: kvPres, cur: kvCur, reported: txnReported,
			cmd: func(ic cmdlib.IdxClass) world.Op {
				return cmdlib.Txn(cmdlib.KVSpec{Verb: api.KVCAS, Key: "k", Val: "cas", Idx: ic, UseIdx: true}.TxnOp())
			}},
		{name: "txn/kv-delete-cas", kind: del, pres: kvPres, cur: kvCur, reported: txnReported,
			cmd: func(ic cmdlib.IdxClass) world.Op {
				return cmdlib.Txn(cmdlib.KVSpec{Verb: api.KVDeleteCAS, Key: "k", Idx: ic, UseIdx: true}.TxnOp())
			}},
		{name: "txn/kv-check-index+set", kind: existing, pres: kvPres, cur: kvCur, reported: txnReported,
			cmd: func(ic cmdlib.IdxClass) world.Op {
				return cmdlib.Txn(cmdlib.KVSpec{Verb: api.KVCheckIndex, Key: "k", Idx: ic, UseIdx: true}.TxnOp(), cmdlib.KVSpec{Verb: api.KVSet, Key: "k2", Val: "guarded"}.TxnOp())
			}},
		{name: "txn/node-cas", kind: upsert, pres: nodePres, cur: nodeCur, reported: txnReported,
			cmd: func(ic cmdlib.IdxClass) world.Op { return cmdlib.Txn(cmdlib.TxnNode(api.NodeCAS, n1c, ic)) }},
		{name: "txn/node-cas(with-id)", kind: upsert, pres: nodeIDPres, cur: nodeCur, reported: txnReported,
			cmd: func(ic cmdlib.IdxClass) world.Op { return cmdlib.Txn(cmdlib.TxnNode(api.NodeCAS, n1id1c, ic)) }},
		{name: "txn/node-cas(other-id)", kind: upsert, pres: nodeIDPres, cur: nodeCur, reported: txnReported,
			cmd: func(ic cmdlib.IdxClass) world.Op { return cmdlib.Txn(cmdlib.TxnNode(api.NodeCAS, n1id2c, ic)) }},
		{name: "txn/node-delete-cas", kind: del, pres: nodePres, cur: nodeCur, reported: txnReported,
			cmd: func(ic cmdlib.IdxClass) world.Op { return cmdlib.Txn(cmdlib.TxnNode(api.NodeDeleteCAS, n1, ic)) }},
		{name: "txn/service-cas", kind: upsert, pres: svcPres, cur: svcCur, reported: txnReported,
			cmd: func(ic cmdlib.IdxClass) world.Op {
				return cmdlib.Txn(cmdlib.TxnService(api.ServiceCAS, "n1", web82, ic))
			}},
		{name: "txn/service-delete-cas", kind: del, pres: svcPres, cur: svcCur, reported: txnReported,
			cmd: func(ic cmdlib.IdxClass) world.Op {
				return cmdlib.Txn(cmdlib.TxnService(api.ServiceDeleteCAS, "n1", web, ic))
			}},
		{name: "txn/check-cas", kind: upsert, pres: ckPres, cur: ckCur, reported: txnReported,
			cmd: func(ic cmdlib.IdxClass) world.Op { return cmdlib.Txn(cmdlib.TxnCheck(api.CheckCAS, "n1", ckC, ic)) }},
		{name: "txn/check-delete-cas", kind: del, pres: ckPres, cur: ckCur, reported: txnReported,
			cmd: func(ic cmdlib.IdxClass) world.Op {
				return cmdlib.Txn(cmdlib.TxnCheck(api.CheckDeleteCAS, "n1", ck, ic))
			}},
		{name: "config-entry/upsert-cas", kind: upsert, pres: cePres, cur: ceCur, reported: boolReported,
			cmd: func(ic cmdlib.IdxClass) world.Op { return sd("grpc").UpsertCAS(ic) }},
		{name: "config-entry/upsert-with-status-cas", kind: upsert, pres: cePres, cur: ceCur, reported: boolReported,
			cmd: func(ic cmdlib.IdxClass) world.Op { return sd("grpc").UpsertStatusCAS(ic) }},
		{name: "config-entry/upsert-cas(same-content)", kind: upsert, pres: cePres, cur: ceCur, reported: boolReported, sameContent: true,
			cmd: func(ic cmdlib.IdxClass) world.Op { return sd("tcp").UpsertCAS(ic) }},
		{name: "kv/cas(same-content)", kind: upsert, pres: kvPres, cur: kvCur, reported: boolReported, sameContent: true,
			cmd: func(ic cmdlib.IdxClass) world.Op {
				return cmdlib.KVSpec{Verb: api.KVCAS, Key: "k", Val: "a", Idx: ic, UseIdx: true}.Op()
			}},
		{name: "config-entry/delete-cas", kind: del, pres: cePres, cur: ceCur, reported: boolReported,
			cmd: func(ic cmdlib.IdxClass) world.Op { return sd("tcp").DeleteCAS(ic) }},
		{name: "ca/set-config", kind: strict, pres: cfgPres, cur: cfgCur, reported: boolReported,
			classes: []cmdlib.IdxClass{cmdlib.IdxCurrent, cmdlib.IdxStale, cmdlib.IdxFuture},
			cmd:     func(ic cmdlib.IdxClass) world.Op { return cmdlib.CASetConfig("1h", ic) }},
		{name: "ca/set-roots", kind: strict, pres: rootsPres, cur: rootsCur, reported: boolReported,
			cmd: func(ic cmdlib.IdxClass) world.Op { return cmdlib.CASetRoots(r3, ic) }},
		{name: "autopilot/cas", kind: existing, pres: apPres, cur: apCur, reported: boolReported,
			cmd: func(ic cmdlib.IdxClass) world.Op { return cmdlib.Autopilot(999, true, ic) }},
		{name: "acl/token-set-cas", kind: upsert, pres: tokPres, cur: tokCur, reported: nil,
			cmd: func(ic cmdlib.IdxClass) world.Op { return cmdlib.TokenSet(tk("cas"), true, ic, false) }},
	}

	full := &dump.Options{}
	evals, nontrivial := 0, map[string]bool{}
	type caseRec struct{ Family, Pre, Index, Outcome string }
	var samples []caseRec

	// via: "" applies the command to the FSM (what raft does); "endpoint" sends the same request through the
	// RPC endpoint method a client reaches (KVS.Apply, Txn.Apply, ConfigEntry.Apply/Delete,
	// Operator.AutopilotSetConfiguration), so that what is judged is the reply the caller gets.
	via, same := "", false
	endpointCalls := 0
	run := func(fam, pre string, setup []world.Op, cmd world.Op, m, specified bool, reported func(*world.World, string) (bool, bool), extra func(w *world.World, d0, d1 world.Dump, applied bool)) {
		w := world.New()
		w.ApplyAll(setup)
		d0 := w.Dump(full)
		var res string
		if via == "" {
			r, ok := w.Apply(cmd)
			if !ok {
				return
			}
			res = r
		} else {
			t, req, ok := cmd.Build(w)
			if !ok {
				return
			}
			srv, err := ep.Open(w)
			if err != nil {
				c.HarnessError("endpoint server: " + err.Error())
				return
			}
			r, mapped := srv.Call(t, req)
			srv.Close()
			if !mapped {
				return
			}
			endpointCalls++
			res, w.LastRaw = r.Norm, r.Raw
			fam += ":via-rpc-endpoint"
		}
		evals++
		d1 := w.Dump(full)
		applied := len(world.DiffTables(d0, d1)) > 0
		hist := append(names(setup), cmd.Name)
		replay := map[string]any{"ops": hist}
		sig := func(what string) string { _ = pre; return fmt.Sprintf("C10:%s:%s", what, fam) }
		rep, known := false, false
		if reported != nil {
			rep, known = reported(w, res)
			if !known {
				c.Violate(sig("unrecognised-result"), fmt.Sprintf("result %q is neither success nor failure\nhistory: %v", res, hist), replay)
			}
		}
		outcome := fmt.Sprintf("matched=%v applied=%v reported=%v", m, applied, rep)
		nontrivial[fam+"|"+pre+"|"+outcome] = true
		if len(samples) < 10 || (evals%37 == 0 && len(samples) < 24) {
			samples = append(samples, caseRec{fam, pre, cmd.Name, outcome + " result=" + res})
		}
		if specified {
			if m && !applied && !same {
				c.Violate(sig("matched-not-applied"), fmt.Sprintf("expected index matched but nothing changed (result %s)\nhistory: %v", res, hist), replay)
			}
			if !m && applied {
				c.Violate(sig("applied-without-match"), fmt.Sprintf("expected index did not match but state changed (result %s):\n%s\nhistory: %v", res, world.Diff(d0, d1, 6), hist), replay)
			}
		} else if applied {
			c.Violate(sig("vacuous-changed-state"), fmt.Sprintf("nothing to act on, yet state changed:\n%s\nhistory: %v", world.Diff(d0, d1, 6), hist), replay)
		}
		if known && specified && same && m {
			if !rep {
				c.Violate(sig("matched-reported-false"), fmt.Sprintf("expected index matched but failure was reported (result %s)\nhistory: %v", res, hist), replay)
			}
		} else if known && specified && rep != applied {
			c.Violate(sig(fmt.Sprintf("reported-%v-applied-%v", rep, applied)), fmt.Sprintf("reported success=%v but applied=%v (result %s)\nhistory: %v", rep, applied, res, hist), replay)
		}
		if known && !specified && !applied && false {
			_ = rep
		}
		if extra != nil {
			extra(w, d0, d1, applied)
		}
	}

	for _, via = range []string{"", "endpoint"} {
		for _, f := range fams {
			same = f.sameContent
			cls := f.classes
			if cls == nil {
				cls = all
			}
			for _, p := range f.pres {
				for _, ic := range cls {
					w := world.New()
					w.ApplyAll(p.ops)
					cur := f.cur(w)
					sup, ok := cmdlib.PickIdx(w, ic, cur)
					if !ok {
						continue
					}
					m, spec := matched(f.kind, cur, sup)
					if p.name == "node-missing" {
						// the write cannot be valid whatever index it carries: it must change nothing and be reported as failed
						m, spec = false, true
					}
					run(f.name, p.name+"/idx="+ic.String(), p.ops, f.cmd(ic), m, spec, f.reported, nil)
				}
			}
		}
	}
	via, same = "", false

	// composite: CA roots + config in one command — all parts or none
	for _, rp := range rootsPres {
		for _, cp := range cfgPres {
			for _, ric := range all {
				for _, cic := range all {
					setup := append(append([]world.Op{}, rp.ops...), cp.ops...)
					w := world.New()
					w.ApplyAll(setup)
					rc, cc := rootsCur(w), cfgCur(w)
					rs, ok1 := cmdlib.PickIdx(w, ric, rc)
					cs, ok2 := cmdlib.PickIdx(w, cic, cc)
					if !ok1 || !ok2 {
						continue
					}
					rm, _ := matched(strict, rc, rs)
					cm, _ := matched(strict, cc, cs)
					pre := fmt.Sprintf("roots=%s,config=%s/ridx=%s,cidx=%s", rp.name, cp.name, ric, cic)
					run("ca/set-roots-config", pre, setup, cmdlib.CASetRootsAndConfig(r3, ric, "1h", cic), rm && cm, true, boolReported,
						func(w *world.World, d0, d1 world.Dump, applied bool) {
							rootsChanged := fmt.Sprint(d0["connect-ca-roots"]) != fmt.Sprint(d1["connect-ca-roots"])
							cfgChanged := fmt.Sprint(d0["connect-ca-config"]) != fmt.Sprint(d1["connect-ca-config"])
							if rootsChanged != cfgChanged {
								c.Violate(fmt.Sprintf("C10:composite-partial:ca/set-roots-config:roots-matched=%v,config-matched=%v", rm, cm),
									fmt.Sprintf("roots changed=%v but config changed=%v (roots index matched=%v, config index matched=%v)\nhistory: %v", rootsChanged, cfgChanged, rm, cm, w.Hist),
									map[string]any{"ops": w.Hist})
							}
						})
				}
			}
		}
	}

	// feature gates: two expected indexes
	fgSetup := []prestate{{"absent", nil}, {"present", ops(cmdlib.FeatureGate("on", true, cmdlib.IdxZero, cmdlib.IdxZero))},
		{"status-updated", ops(cmdlib.FeatureGate("on", true, cmdlib.IdxZero, cmdlib.IdxZero), cmdlib.FeatureGate("off", false, cmdlib.IdxCurrent, cmdlib.IdxCurrent))}}
	for _, p := range fgSetup {
		for _, withPolicy := range []bool{true, false} {
			for _, pc := range all {
				for _, sc := range all {
					w := world.New()
					w.ApplyAll(p.ops)
					_, pol, st, _ := w.Store().FeatureGatePolicyAndStatus(nil)
					var pi, si uint64
					if pol != nil {
						pi = pol.ModifyIndex
					}
					if st != nil {
						si = st.ModifyIndex
					}
					ps, ok1 := cmdlib.PickIdx(w, pc, pi)
					ss, ok2 := cmdlib.PickIdx(w, sc, si)
					if !ok1 || !ok2 {
						continue
					}
					m := ps == pi && ss == si
					spec := true
					if m && !withPolicy && pol == nil {
						spec = false // a status without any policy is rejected for another reason; only "nothing changes" is required
						m = false
					}
					pre := fmt.Sprintf("%s,policy=%v/pidx=%s,sidx=%s", p.name, withPolicy, pc, sc)
					tag := "other"
					run("feature-gate/update", pre, p.ops, cmdlib.FeatureGate(tag, withPolicy, pc, sc), m, spec, boolReported, nil)
				}
			}
		}
	}

	c.Set("evaluations", evals)
	c.Set("distinct_nontrivial", len(nontrivial))
	c.Set("families", len(fams)+2)
	c.Set("rpc_endpoint_calls", endpointCalls)
	c.Set("rule", "command family x pre-state {absent, present, modified, re-created, deleted} x supplied index {0, current, previous(stale), future}; for composites the cross product for both parts. Every family whose command a client sends through KVS.Apply, Txn.Apply, ConfigEntry.Apply/Delete or Operator.AutopilotSetConfiguration is run twice: as the raft command on the FSM, and through that RPC endpoint method on a Server value over the same state (the reply the caller gets is what is judged). A case is counted distinct by (family, pre-state+index class, matched/applied/reported outcome).")
	for _, s := range samples {
		c.Sample(s)
	}
	c.Assume("'matched' is computed by the harness from the documented convention: index 0 = create-only; deletes of an absent entity are vacuous (only 'nothing changes' is required); ACL token CAS has no success flag, only applied<=>matched is decided")
}

func names(ops []world.Op) []string {
	var n []string
	for _, o := range ops {
		n = append(n, o.Name)
	}
	return n
}
