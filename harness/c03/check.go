package c03

import (
	"fmt"
	"sort"
	"strings"
	"sync/atomic"

	"github.com/hashicorp/consul/agent/consul"
	"github.com/hashicorp/consul/agent/structs"
	"github.com/hashicorp/consul/api"
	"github.com/hashicorp/consul/internal/verifmc/cmdlib"
	"github.com/hashicorp/consul/internal/verifmc/e1"
	"github.com/hashicorp/consul/internal/verifmc/ep"
	"github.com/hashicorp/consul/internal/verifmc/ev"
	"github.com/hashicorp/consul/internal/verifmc/world"
)

type universe struct {
	keys, prefixes []string
}

func modelCidx(m *Model, idx uint64, k cmdlib.KVSpec) uint64 {
	if !k.UseIdx {
		return 0
	}
	c, _ := cmdlib.PickIdxN(idx, k.Idx, m.D[k.Key].Modify)
	return c
}

func direct(k cmdlib.KVSpec) world.Op {
	op := k.Op()
	op.Model = func(aux any, idx uint64) {
		m := aux.(*Model)
		ok, isErr, _, _ := m.kvStep(idx, k, modelCidx(m, idx, k))
		switch {
		case isErr:
			m.Expect = Expect{Kind: "err"}
		case k.Verb == api.KVSet || k.Verb == api.KVDelete || k.Verb == api.KVDeleteTree:
			m.Expect = Expect{Kind: "nil"}
		default:
			m.Expect = Expect{Kind: "bool", Bool: ok}
		}
	}
	return op
}

// part of a transaction as the model sees it
type mpart struct {
	kv      *cmdlib.KVSpec
	sessDel string
}

func txn(parts ...mpart) world.Op {
	var tp []cmdlib.TxnPart
	for _, p := range parts {
		if p.kv != nil {
			tp = append(tp, p.kv.TxnOp())
		} else {
			tp = append(tp, cmdlib.TxnSessionDelete(p.sessDel))
		}
	}
	op := cmdlib.Txn(tp...)
	op.Model = func(aux any, idx uint64) {
		m := aux.(*Model)
		c := m.clone()
		exp := Expect{Kind: "txn"}
		// index arguments are resolved against the pre-state, as the builder does
		cidx := make([]uint64, len(parts))
		for i, p := range parts {
			if p.kv != nil {
				cidx[i] = modelCidx(m, idx, *p.kv)
			}
		}
		for i, p := range parts {
			if p.kv == nil {
				c.endSession(idx, cmdlib.SessionIDs[p.sessDel])
				continue
			}
			ok, isErr, res, many := c.kvStep(idx, *p.kv, cidx[i])
			if isErr || !ok {
				exp.TxnFail = append(exp.TxnFail, i)
				continue
			}
			if res != nil {
				exp.TxnRes = append(exp.TxnRes, *res)
			}
			exp.TxnRes = append(exp.TxnRes, many...)
		}
		if len(exp.TxnFail) == 0 {
			m.D, m.S = c.D, c.S
		} else {
			exp.TxnRes = nil
		}
		m.Expect = exp
	}
	return op
}

func sessCreate(s cmdlib.SessionSpec) world.Op {
	op := s.Create()
	op.Model = func(aux any, idx uint64) {
		m := aux.(*Model)
		m.S[cmdlib.SessionIDs[s.Name]] = Sess{Delete: s.Behavior == structs.SessionKeysDelete}
		m.Expect = Expect{Kind: "any"}
	}
	return op
}

func sessDestroy(name string) world.Op {
	op := cmdlib.SessionDestroy(name)
	op.Model = func(aux any, idx uint64) {
		m := aux.(*Model)
		m.endSession(idx, cmdlib.SessionIDs[name])
		m.Expect = Expect{Kind: "nil"}
	}
	return op
}

func passive(op world.Op) world.Op {
	op.Model = func(aux any, idx uint64) { aux.(*Model).Expect = Expect{Kind: "any"} }
	return op
}

func cmpEnt(where string, key string, e Ent, d *structs.DirEntry, withVal bool) string {
	if d.Key != key {
		return fmt.Sprintf("%s: key %q != %q", where, d.Key, key)
	}
	var diffs []string
	if withVal && string(d.Value) != e.Val {
		diffs = append(diffs, fmt.Sprintf("Value %q want %q", d.Value, e.Val))
	}
	if d.Flags != e.Flags {
		diffs = append(diffs, fmt.Sprintf("Flags %d want %d", d.Flags, e.Flags))
	}
	if d.Session != e.Sess {
		diffs = append(diffs, fmt.Sprintf("Session %q want %q", d.Session, e.Sess))
	}
	if d.LockIndex != e.Lock {
		diffs = append(diffs, fmt.Sprintf("LockIndex %d want %d", d.LockIndex, e.Lock))
	}
	if d.CreateIndex != e.Create {
		diffs = append(diffs, fmt.Sprintf("CreateIndex %d want %d", d.CreateIndex, e.Create))
	}
	if d.ModifyIndex != e.Modify {
		diffs = append(diffs, fmt.Sprintf("ModifyIndex %d want %d", d.ModifyIndex, e.Modify))
	}
	if len(diffs) == 0 {
		return ""
	}
	return where + " key " + fmt.Sprintf("%q", key) + ": " + strings.Join(diffs, ", ")
}

func field(msg string) string {
	for _, f := range []string{"Value", "Flags", "Session", "LockIndex", "CreateIndex", "ModifyIndex"} {
		if strings.Contains(msg, f+" ") {
			return f
		}
	}
	return "content"
}

// compareState: get for every key, list for every prefix.
func compareState(u universe, m *Model, w *world.World) (string, string) {
	st := w.Store()
	for _, k := range u.keys {
		_, d, err := st.KVSGet(nil, k, nil)
		if err != nil {
			return "get-error", err.Error()
		}
		e, ok := m.D[k]
		switch {
		case d == nil && ok:
			return "key-missing", fmt.Sprintf("get %q: absent, model has %+v", k, e)
		case d != nil && !ok:
			return "key-unexpected", fmt.Sprintf("get %q: present (%s), model says absent", k, string(d.Value))
		case d != nil:
			if msg := cmpEnt("get", k, e, d, true); msg != "" {
				return "field=" + field(msg), msg
			}
		}
	}
	for _, p := range u.prefixes {
		_, ents, err := st.KVSList(nil, p, nil)
		if err != nil {
			return "list-error", err.Error()
		}
		var want []string
		for k := range m.D {
			if strings.HasPrefix(k, p) {
				want = append(want, k)
			}
		}
		sort.Strings(want)
		var got []string
		for _, d := range ents {
			got = append(got, d.Key)
		}
		if !sort.StringsAreSorted(got) {
			return "list-order", fmt.Sprintf("list %q not sorted: %v", p, got)
		}
		if strings.Join(got, "\x00") != strings.Join(want, "\x00") {
			return "list-keys", fmt.Sprintf("list %q = %q, model %q", p, got, want)
		}
		for _, d := range ents {
			if msg := cmpEnt("list "+p, d.Key, m.D[d.Key], d, true); msg != "" {
				return "list-field=" + field(msg), msg
			}
		}
	}
	// any key outside the universe?
	_, all, _ := st.KVSList(nil, "", nil)
	if len(all) != len(m.D) {
		return "list-all", fmt.Sprintf("store has %d keys, model %d", len(all), len(m.D))
	}
	// live sessions
	_, sl, _ := st.SessionList(nil, nil)
	if len(sl) != len(m.S) {
		return "sessions", fmt.Sprintf("store has %d sessions, model %d", len(sl), len(m.S))
	}
	return "", ""
}

// separators for the key listing; with the prefixes of the universe they produce roll-ups where the
// separator directly follows the prefix, occurs later, occurs twice, and is absent
var separators = []string{"", "/", "b", "a/"}

// rollup is the statement's "keys": every key under the prefix, cut after the first separator that
// follows the prefix, each result once, in key order.
func rollup(m *Model, prefix, sep string) []string {
	var ks []string
	for k := range m.D {
		if strings.HasPrefix(k, prefix) {
			ks = append(ks, k)
		}
	}
	sort.Strings(ks)
	var out []string
	seen := map[string]bool{}
	for _, k := range ks {
		r := k
		if sep != "" {
			if i := strings.Index(k[len(prefix):], sep); i >= 0 {
				r = k[:len(prefix)+i+len(sep)]
			}
		}
		if !seen[r] {
			seen[r] = true
			out = append(out, r)
		}
	}
	return out
}

// compareEndpoint reads through the real KVS.Get / KVS.List / KVS.ListKeys RPC endpoints.
func compareEndpoint(u universe, m *Model, w *world.World) (string, string, int) {
	ep, err := consul.VerifNewKVS(w.BoundFSM())
	if err != nil {
		return "harness", err.Error(), 0
	}
	defer ep.Close()
	n := 0
	for _, k := range u.keys {
		r, err := ep.Get(k)
		n++
		if err != nil {
			return "endpoint-get-error", err.Error(), n
		}
		e, ok := m.D[k]
		switch {
		case !ok && len(r.Entries) != 0:
			return "endpoint-get-unexpected", fmt.Sprintf("KVS.Get %q returns an entry, model says absent", k), n
		case ok && len(r.Entries) != 1:
			return "endpoint-get-missing", fmt.Sprintf("KVS.Get %q returns %d entries, model has %+v", k, len(r.Entries), e), n
		case ok:
			if msg := cmpEnt("KVS.Get", k, e, r.Entries[0], true); msg != "" {
				return "endpoint-get-field=" + field(msg), msg, n
			}
			if r.Index != e.Modify {
				return "endpoint-get-index", fmt.Sprintf("KVS.Get %q reports index %d, the key's modify index is %d", k, r.Index, e.Modify), n
			}
		}
	}
	for _, p := range u.prefixes {
		r, err := ep.List(p)
		n++
		if err != nil {
			return "endpoint-list-error", err.Error(), n
		}
		want := rollup(m, p, "")
		var got []string
		for _, d := range r.Entries {
			got = append(got, d.Key)
		}
		if strings.Join(got, "\x00") != strings.Join(want, "\x00") {
			return "endpoint-list-keys", fmt.Sprintf("KVS.List %q = %q, model %q", p, got, want), n
		}
		for _, d := range r.Entries {
			if msg := cmpEnt("KVS.List "+p, d.Key, m.D[d.Key], d, true); msg != "" {
				return "endpoint-list-field=" + field(msg), msg, n
			}
		}
		if r.Index == 0 {
			return "endpoint-list-index-zero", fmt.Sprintf("KVS.List %q reports index 0", p), n
		}
		for _, sep := range separators {
			kr, err := ep.ListKeys(p, sep)
			n++
			if err != nil {
				return "endpoint-keys-error", err.Error(), n
			}
			want := rollup(m, p, sep)
			if strings.Join(kr.Keys, "\x00") != strings.Join(want, "\x00") {
				return "endpoint-keys", fmt.Sprintf("KVS.ListKeys prefix %q separator %q = %q, model %q", p, sep, kr.Keys, want), n
			}
			if kr.Index != r.Index {
				return "endpoint-keys-index", fmt.Sprintf("KVS.ListKeys prefix %q separator %q reports index %d, KVS.List of the same prefix %d", p, sep, kr.Index, r.Index), n
			}
		}
	}
	return "", "", n
}

func compareResult(m *Model, w *world.World, res string) (string, string) {
	ex := m.Expect
	switch ex.Kind {
	case "any":
		return "", ""
	case "nil":
		if res != "nil" {
			return "result", fmt.Sprintf("result %s, model expects success (nil)", res)
		}
	case "err":
		if !strings.HasPrefix(res, "err:") {
			return "result", fmt.Sprintf("result %s, model expects an error", res)
		}
	case "bool":
		if res != fmt.Sprint(ex.Bool) {
			return "result", fmt.Sprintf("result %s, model expects %v", res, ex.Bool)
		}
	case "txn":
		r, ok := w.LastRaw.(structs.TxnResponse)
		if !ok {
			return "txn-result-type", fmt.Sprintf("result %s is not a TxnResponse", res)
		}
		var failed []int
		for _, e := range r.Errors {
			failed = append(failed, e.OpIndex)
		}
		if fmt.Sprint(failed) != fmt.Sprint(ex.TxnFail) {
			return "txn-errors", fmt.Sprintf("failing op indexes %v, model %v (errors: %s)", failed, ex.TxnFail, res)
		}
		if len(failed) > 0 {
			if len(r.Results) != 0 {
				return "txn-results-on-failure", "failed transaction returned results"
			}
			return "", ""
		}
		if len(r.Results) != len(ex.TxnRes) {
			return "txn-result-count", fmt.Sprintf("%d results, model %d", len(r.Results), len(ex.TxnRes))
		}
		for i, tr := range r.Results {
			if tr.KV == nil {
				return "txn-result-kind", "non-KV result for KV op"
			}
			if msg := cmpEnt("txn-result", ex.TxnRes[i].Key, ex.TxnRes[i].Ent, tr.KV, ex.TxnRes[i].WithVal); msg != "" {
				return "txn-result-field=" + field(msg), msg
			}
		}
	}
	return "", ""
}

func Run(c *ev.Ctx) {
	quick := c.Quick()
	u := universe{keys: []string{"a", "a/b", "ab", "é"}, prefixes: []string{"", "a", "a/", "é", "b"}}
	vals := []string{"x", "y"}
	flags := []uint64{0, 7}
	if !quick {
		u.keys = append(u.keys, "a/")
	}
	sessions := []string{"s1", "s2"}
	specs := cmdlib.KVSpecs(u.keys, u.prefixes, sessions, vals, flags, !quick)

	var alpha []world.Op
	for _, k := range specs {
		alpha = append(alpha, direct(k))
	}
	n1 := cmdlib.NodeSpec{Node: "n1"}
	s1 := cmdlib.SessionSpec{Name: "s1", Node: "n1", Behavior: structs.SessionKeysRelease}
	s2 := cmdlib.SessionSpec{Name: "s2", Node: "n1", Behavior: structs.SessionKeysDelete}
	alpha = append(alpha, sessCreate(s1), sessCreate(s2), sessDestroy("s1"), sessDestroy("s2"))
	alpha = append(alpha, passive(cmdlib.TombstoneReap(cmdlib.IdxCurrent)), passive(cmdlib.TombstoneReap(cmdlib.IdxStale)))

	// transactional variants: every write verb alone, plus guarded pairs and read verbs
	for _, k := range specs {
		k := k
		if quick && (k.Key == "é" || k.Flags != 0) {
			continue
		}
		alpha = append(alpha, txn(mpart{kv: &k}))
	}
	txnSinglesEnd := len(alpha)
	viaRPC := 0
	kv := func(verb api.KVOp, key, val, sess string, ic cmdlib.IdxClass, useIdx bool) mpart {
		return mpart{kv: &cmdlib.KVSpec{Verb: verb, Key: key, Val: val, Sess: sess, Idx: ic, UseIdx: useIdx}}
	}
	for _, key := range []string{"a", "a/b"} {
		alpha = append(alpha,
			txn(kv(api.KVGet, key, "", "", 0, false)),
			txn(kv(api.KVGetOrEmpty, key, "", "", 0, false)),
			txn(kv(api.KVCheckNotExists, key, "", "", 0, false), kv(api.KVSet, key, "x", "", 0, false)),
			txn(kv(api.KVSet, key, "y", "", 0, false), kv(api.KVCheckIndex, key, "", "", cmdlib.IdxCurrent, true)),
			txn(kv(api.KVCheckIndex, key, "", "", cmdlib.IdxCurrent, true), kv(api.KVSet, key, "y", "", 0, false)),
			txn(kv(api.KVCheckIndex, key, "", "", cmdlib.IdxStale, true), kv(api.KVSet, key, "y", "", 0, false)),
			txn(kv(api.KVCheckSession, key, "", "s1", 0, false), kv(api.KVDelete, key, "", "", 0, false)),
			txn(kv(api.KVCheckSession, key, "", "", 0, false), kv(api.KVSet, key, "x", "", 0, false)),
			txn(kv(api.KVLock, key, "x", "s1", 0, false), kv(api.KVSet, "ab", "y", "", 0, false), kv(api.KVUnlock, key, "x", "s1", 0, false)),
			txn(kv(api.KVSet, key, "x", "", 0, false), kv(api.KVLock, key, "x", "s2", 0, false)),
		)
	}
	alpha = append(alpha,
		txn(kv(api.KVGetTree, "a", "", "", 0, false)),
		txn(kv(api.KVGetTree, "", "", "", 0, false)),
		txn(kv(api.KVSet, "a", "x", "", 0, false), kv(api.KVSet, "a/b", "x", "", 0, false), kv(api.KVDeleteTree, "a/", "", "", 0, false)),
		txn(kv(api.KVDeleteTree, "a", "", "", 0, false), kv(api.KVSet, "a", "y", "", 0, false)),
		txn(mpart{sessDel: "s1"}),
		txn(mpart{sessDel: "s2"}),
		txn(kv(api.KVLock, "ab", "x", "s1", 0, false), mpart{sessDel: "s1"}),
	)

	// the same writes as a client sends them: through KVS.Apply and Txn.Apply. KVS.Apply's boolean is only
	// meaningful for the conditional verbs (the HTTP layer ignores it for the others).
	kvNorm := func(t structs.MessageType, req any, r ep.Result) string {
		if a, ok := req.(*structs.KVSRequest); ok && r.Err == nil {
			switch a.Op {
			case api.KVSet, api.KVDelete, api.KVDeleteTree:
				return "nil"
			}
		}
		return r.Norm
	}
	nDirect := len(specs)
	for i, op := range append([]world.Op(nil), alpha...) {
		isDirect := i < nDirect
		isHandTxn := strings.HasPrefix(op.Name, "txn[") && i >= txnSinglesEnd
		if op.Name == `txn[kv.get-tree("")]` {
			// KVS.Apply / Txn.Apply refuse an empty key for every verb but delete-tree ("Must provide key")
			// before anything is read or written; that request validation is not part of the map semantics
			continue
		}
		if isDirect || isHandTxn {
			if quick && isDirect && (specs[i].Key == "é" || specs[i].Flags != 0) {
				continue
			}
			alpha = append(alpha, ep.Via(op, kvNorm))
			viaRPC++
		}
	}

	regN1 := passive(cmdlib.RegNode(n1))
	lockA := direct(cmdlib.KVSpec{Verb: api.KVLock, Key: "a", Val: "x", Sess: "s1"})
	lockAB := direct(cmdlib.KVSpec{Verb: api.KVLock, Key: "a/b", Val: "y", Sess: "s2"})
	setAb := direct(cmdlib.KVSpec{Verb: api.KVSet, Key: "ab", Val: "x", Flags: 7})
	seeds := [][]world.Op{
		{regN1},
		{regN1, sessCreate(s1), sessCreate(s2), lockA, lockAB, setAb},
		{regN1, sessCreate(s1), lockA, direct(cmdlib.KVSpec{Verb: api.KVUnlock, Key: "a", Val: "x", Sess: "s1"}), direct(cmdlib.KVSpec{Verb: api.KVDelete, Key: "ab"})},
	}
	depth := 3
	if !quick {
		depth = 4
	}
	var endpointReads int64
	cfg := &e1.Config{
		Ctx: c, Seeds: seeds, Alphabet: alpha, MaxDepth: depth, AuditMerges: 200,
		New:      func() *world.World { w := world.New(); w.Aux = NewModel(); return w },
		CloneAux: func(a any) any { return a.(*Model).clone() },
		Key: func(w *world.World) string {
			// model state is a function of the store state when they agree; include sessions' behaviours via store dump
			return w.Key()
		},
		Post: func(t *e1.Trans) {
			m := t.W.Aux.(*Model)
			if cls, msg := compareResult(m, t.W, t.Result); cls != "" {
				t.Violate("C03:"+cls+":last="+t.Op.Kind, msg)
				return
			}
			if cls, msg := compareState(u, m, t.W); cls != "" {
				t.Violate("C03:state:"+cls+":last="+t.Op.Kind, msg)
				return
			}
			cls, msg, n := compareEndpoint(u, m, t.W)
			atomic.AddInt64(&endpointReads, int64(n))
			if cls == "harness" {
				c.HarnessError("KVS endpoint: " + msg)
			} else if cls != "" {
				t.Violate("C03:"+cls+":last="+t.Op.Kind, msg)
			}
		},
		MaxStates: 400000,
	}
	if quick {
		cfg.MaxStates = 60000
	}
	st := e1.Run(cfg)
	st.Report(c, "")
	c.Set("alphabet_size", len(alpha))
	c.Set("seeds", len(seeds))
	c.Set("keys", u.keys)
	c.Set("endpoint_reads", atomic.LoadInt64(&endpointReads))
	c.Set("alphabet_members_sent_through_rpc_endpoints", viaRPC)
	c.Set("endpoint_separators", separators)
	c.Set("rule", "every op sequence up to max_depth from each seed over the alphabet; states deduplicated on the rank-compressed 36-table dump; each transition compared with the reference map (result, store get for every key, store list for every prefix, and the RPC endpoints KVS.Get / KVS.List / KVS.ListKeys for every key, prefix and separator, run on a Server object holding this state)")
	c.Sample(map[string]any{"seed0": names(seeds[1]), "alphabet_excerpt": names(alpha[:8]), "txn_excerpt": names(alpha[len(alpha)-5:])})
	c.Assume("the reference map in /verif/harness/c03/model.go encodes the statement; where the statement is silent it follows upstream behaviour (plain set stores lock counter 0; delete-cas of an absent key reports success)")
}

func names(ops []world.Op) []string {
	var n []string
	for _, o := range ops {
		n = append(n, o.Name)
	}
	return n
}
