// Package c03: the KV store behaves as a sequential versioned map (DESIGN §3 C03).
package c03

import (
	"sort"
	"strings"

	"github.com/hashicorp/consul/api"
	"github.com/hashicorp/consul/internal/verifmc/cmdlib"
)

// Ent is one key of the reference map.
type Ent struct {
	Val            string
	Flags          uint64
	Sess           string // session UUID or ""
	Lock           uint64
	Create, Modify uint64
}

type Sess struct {
	Delete bool // behaviour delete (else release)
}

// Model is the boring reference: a map plus the set of live sessions.
type Model struct {
	D map[string]Ent
	S map[string]Sess
	// Expect is the expectation for the last applied op.
	Expect Expect
}

// Expect describes what the real command must have returned.
type Expect struct {
	Kind string // "nil" | "bool" | "err" | "txn" | "any"
	Bool bool
	// txn: indexes of ops expected to fail, and result entries on success
	TxnFail []int
	TxnRes  []ResEnt
}

type ResEnt struct {
	Key string
	Ent Ent
	// WithVal: the result carries the value (get verbs)
	WithVal bool
}

func NewModel() *Model { return &Model{D: map[string]Ent{}, S: map[string]Sess{}} }

func (m *Model) clone() *Model {
	c := NewModel()
	for k, v := range m.D {
		c.D[k] = v
	}
	for k, v := range m.S {
		c.S[k] = v
	}
	return c
}

// put stores n under k at idx unless nothing observable changes ("a write that changes nothing
// does not advance the modify index"); create index is fixed while the key exists.
func (m *Model) put(idx uint64, k string, n Ent) Ent {
	if e, ok := m.D[k]; ok {
		n.Create = e.Create
		if e.Val == n.Val && e.Flags == n.Flags && e.Sess == n.Sess && e.Lock == n.Lock {
			return e
		}
	} else {
		n.Create = idx
	}
	n.Modify = idx
	m.D[k] = n
	return n
}

// kvStep applies one KV verb; returns (ok, isErr, result entry, hasResult).
// ok=false,isErr=false: the conditional write reported "not applied".
func (m *Model) kvStep(idx uint64, k cmdlib.KVSpec, cidx uint64) (ok bool, isErr bool, res *ResEnt, many []ResEnt) {
	sid := ""
	if k.Sess != "" {
		sid = cmdlib.SessionIDs[k.Sess]
	}
	e, exists := m.D[k.Key]
	switch k.Verb {
	case api.KVSet:
		// plain set keeps the holder; the stored lock counter is the request's (0) — upstream behaviour
		n := m.put(idx, k.Key, Ent{Val: k.Val, Flags: k.Flags, Sess: e.Sess, Lock: 0})
		return true, false, &ResEnt{Key: k.Key, Ent: n}, nil
	case api.KVCAS:
		if cidx == 0 && exists {
			return false, false, nil, nil
		}
		if cidx != 0 && (!exists || e.Modify != cidx) {
			return false, false, nil, nil
		}
		n := m.put(idx, k.Key, Ent{Val: k.Val, Flags: k.Flags, Sess: e.Sess, Lock: 0})
		return true, false, &ResEnt{Key: k.Key, Ent: n}, nil
	case api.KVDelete:
		delete(m.D, k.Key)
		return true, false, nil, nil
	case api.KVDeleteCAS:
		if !exists {
			return true, false, nil, nil // vacuous: nothing to delete, nothing changes
		}
		if e.Modify != cidx {
			return false, false, nil, nil
		}
		delete(m.D, k.Key)
		return true, false, nil, nil
	case api.KVDeleteTree:
		for key := range m.D {
			if strings.HasPrefix(key, k.Key) {
				delete(m.D, key)
			}
		}
		return true, false, nil, nil
	case api.KVLock:
		if sid == "" {
			return false, true, nil, nil
		}
		if _, live := m.S[sid]; !live {
			return false, true, nil, nil
		}
		n := Ent{Val: k.Val, Flags: k.Flags, Sess: sid}
		switch {
		case exists && e.Sess == sid:
			n.Lock = e.Lock // re-acquisition: unchanged
		case exists && e.Sess != "":
			return false, false, nil, nil
		case exists:
			n.Lock = e.Lock + 1
		default:
			n.Lock = 1
		}
		r := m.put(idx, k.Key, n)
		return true, false, &ResEnt{Key: k.Key, Ent: r}, nil
	case api.KVUnlock:
		if sid == "" {
			return false, true, nil, nil
		}
		if !exists || e.Sess != sid {
			return false, false, nil, nil
		}
		r := m.put(idx, k.Key, Ent{Val: k.Val, Flags: k.Flags, Sess: "", Lock: e.Lock})
		return true, false, &ResEnt{Key: k.Key, Ent: r}, nil
	case api.KVGet:
		if !exists {
			return false, true, nil, nil
		}
		return true, false, &ResEnt{Key: k.Key, Ent: e, WithVal: true}, nil
	case api.KVGetOrEmpty:
		if !exists {
			return true, false, &ResEnt{Key: k.Key, Ent: Ent{Flags: k.Flags, Sess: sid}, WithVal: true}, nil
		}
		return true, false, &ResEnt{Key: k.Key, Ent: e, WithVal: true}, nil
	case api.KVGetTree:
		var keys []string
		for key := range m.D {
			if strings.HasPrefix(key, k.Key) {
				keys = append(keys, key)
			}
		}
		sort.Strings(keys)
		many = []ResEnt{}
		for _, key := range keys {
			many = append(many, ResEnt{Key: key, Ent: m.D[key], WithVal: true})
		}
		return true, false, nil, many
	case api.KVCheckSession:
		if !exists || e.Sess != sid {
			return false, true, nil, nil
		}
		return true, false, &ResEnt{Key: k.Key, Ent: e}, nil
	case api.KVCheckIndex:
		if !exists || e.Modify != cidx {
			return false, true, nil, nil
		}
		return true, false, &ResEnt{Key: k.Key, Ent: e}, nil
	case api.KVCheckNotExists:
		if exists {
			return false, true, nil, nil
		}
		return true, false, nil, nil
	}
	return false, true, nil, nil
}

// endSession: every key the session held is released (holder cleared, value and counter kept,
// modify index = idx) or deleted, per the session's behaviour.
func (m *Model) endSession(idx uint64, sid string) {
	s, ok := m.S[sid]
	if !ok {
		return
	}
	delete(m.S, sid)
	for k, e := range m.D {
		if e.Sess != sid {
			continue
		}
		if s.Delete {
			delete(m.D, k)
		} else {
			e.Sess = ""
			e.Modify = idx
			m.D[k] = e
		}
	}
}
