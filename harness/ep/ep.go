// Package ep drives the real RPC endpoint methods (KVS.Apply, Txn.Apply, ConfigEntry.Apply/Delete,
// Operator.AutopilotSetConfiguration, ...) on a Server value whose FSM is the explored world's and
// whose raft hands every committed command back to that world (hooks/agent/consul/server.go).
package ep

import (
	"fmt"

	"github.com/hashicorp/consul/agent/consul"
	"github.com/hashicorp/consul/agent/structs"
	"github.com/hashicorp/consul/internal/verifmc/world"
)

type Srv struct {
	W  *world.World
	VS *consul.VerifServer
	// Applies counts the raft commands the endpoint issued during the last Call.
	Applies int
}

func Open(w *world.World) (*Srv, error) {
	s := &Srv{W: w}
	vs, err := consul.VerifNewServer(w.BoundFSM(), func(buf []byte) interface{} {
		s.Applies++
		return w.ApplyEncoded("rpc", buf)
	})
	if err != nil {
		return nil, err
	}
	s.VS = vs
	return s, nil
}

func (s *Srv) Close() { s.VS.Close() }

// Result of one endpoint call, in the shape of an FSM result so that oracles written for the command
// level can be reused: Raw is what the caller of the RPC sees.
type Result struct {
	Norm string // "true"/"false"/"err:..."/dump of the reply
	Raw  any
	Err  error
}

// Call routes a command (as the alphabet builds it for the FSM) to the RPC endpoint a client would
// use for it. ok=false: no endpoint mapping for this command type.
func (s *Srv) Call(t structs.MessageType, req any) (r Result, ok bool) {
	s.Applies = 0
	s.VS.Srv.VerifSetFSM(s.W.BoundFSM())
	switch t {
	case structs.KVSRequestType:
		args, isp := req.(*structs.KVSRequest)
		if !isp {
			return r, false
		}
		cp := *args
		var reply bool
		err := s.VS.KVS().Apply(&cp, &reply)
		return boolResult(reply, err), true
	case structs.TxnRequestType:
		var cp structs.TxnRequest
		switch a := req.(type) {
		case *structs.TxnRequest:
			cp = *a
		case structs.TxnRequest:
			cp = a
		default:
			return r, false
		}
		var reply structs.TxnResponse
		err := s.VS.Txn().Apply(&cp, &reply)
		if err != nil {
			return Result{Norm: "err:" + err.Error(), Err: err}, true
		}
		return Result{Norm: world.NormResult(reply), Raw: reply}, true
	case structs.ConfigEntryRequestType:
		args, isp := req.(*structs.ConfigEntryRequest)
		if !isp {
			return r, false
		}
		cp := *args
		switch args.Op {
		case structs.ConfigEntryDelete, structs.ConfigEntryDeleteCAS:
			var reply structs.ConfigEntryDeleteResponse
			err := s.VS.ConfigEntry().Delete(&cp, &reply)
			return boolResult(reply.Deleted, err), true
		case structs.ConfigEntryUpsert, structs.ConfigEntryUpsertCAS:
			var reply bool
			err := s.VS.ConfigEntry().Apply(&cp, &reply)
			return boolResult(reply, err), true
		}
		return r, false
	case structs.AutopilotRequestType:
		args, isp := req.(*structs.AutopilotSetConfigRequest)
		if !isp {
			return r, false
		}
		cp := *args
		var reply bool
		err := s.VS.Operator().AutopilotSetConfiguration(&cp, &reply)
		return boolResult(reply, err), true
	}
	return r, false
}

func boolResult(b bool, err error) Result {
	if err != nil {
		return Result{Norm: "err:" + err.Error(), Err: err}
	}
	return Result{Norm: fmt.Sprint(b), Raw: b}
}

// Via returns op sent through its RPC endpoint instead of being applied to the FSM directly. The
// reference model (op.Model) is stepped with the log index the command gets if the endpoint commits
// one. norm may rewrite the caller-visible result into the form the command-level oracle expects.
func Via(op world.Op, norm func(t structs.MessageType, req any, r Result) string) world.Op {
	out := op
	out.Name = op.Name + "@rpc"
	out.Kind = op.Kind + "@rpc"
	out.Exec = func(w *world.World) (string, bool) {
		t, req, ok := op.Build(w)
		if !ok {
			return "", false
		}
		idx := w.Next
		srv, err := Open(w)
		if err != nil {
			panic("endpoint server: " + err.Error())
		}
		r, mapped := srv.Call(t, req)
		srv.Close()
		if !mapped {
			panic("no RPC endpoint mapping for " + op.Name)
		}
		w.LastRaw = r.Raw
		w.LastApplies = srv.Applies
		if op.Model != nil {
			op.Model(w.Aux, idx)
		}
		res := r.Norm
		if norm != nil {
			res = norm(t, req, r)
		}
		w.Record(out.Name, res)
		return res, true
	}
	return out
}
