// Package guard runs case lists in watchdog-supervised worker subprocesses, so that a case that
// hangs, exhausts memory or crashes the process is reported as a finding about that case instead
// of taking the check down. Protocol on the worker's stdout, one line each:
//   S <i>            case i started
//   D <i>            case i done
//   V <json>         violation {sig,msg,replay}
//   C <json>         counters map[string]int64 (cumulative for this worker)
package guard

import (
	"bufio"
	"encoding/json"
	"fmt"
	"os"
	"os/exec"
	"strconv"
	"strings"
	"sync"
	"syscall"
	"time"

	"github.com/hashicorp/consul/internal/verifmc/ev"
)

type Viol struct {
	Sig    string `json:"sig"`
	Msg    string `json:"msg"`
	Replay any    `json:"replay"`
}

// Worker side -------------------------------------------------------------------------------

type W struct {
	out *bufio.Writer
	mu  sync.Mutex
	Cnt map[string]int64
}

func IsWorker() bool { return os.Getenv("VERIF_GUARD_WORKER") != "" }

// RunWorker executes cases [start, n) with i%stride==shard.
func RunWorker(n int, fn func(w *W, i int)) {
	shard, _ := strconv.Atoi(os.Getenv("VERIF_GUARD_SHARD"))
	stride, _ := strconv.Atoi(os.Getenv("VERIF_GUARD_STRIDE"))
	start, _ := strconv.Atoi(os.Getenv("VERIF_GUARD_START"))
	if lim := os.Getenv("VERIF_GUARD_MEM"); lim != "" {
		if b, err := strconv.ParseUint(lim, 10, 64); err == nil {
			syscall.Setrlimit(syscall.RLIMIT_AS, &syscall.Rlimit{Cur: b, Max: b})
		}
	}
	w := &W{out: bufio.NewWriter(os.Stdout), Cnt: map[string]int64{}}
	for i := start; i < n; i++ {
		if i%stride != shard {
			continue
		}
		fmt.Fprintf(w.out, "S %d\n", i)
		w.out.Flush()
		fn(w, i)
		b, _ := json.Marshal(w.Cnt)
		fmt.Fprintf(w.out, "D %d\nC %s\n", i, b)
		w.out.Flush()
	}
}

func (w *W) Violate(sig, msg string, replay any) {
	b, _ := json.Marshal(Viol{sig, msg, replay})
	w.mu.Lock()
	fmt.Fprintf(w.out, "V %s\n", b)
	w.out.Flush()
	w.mu.Unlock()
}

func (w *W) Add(k string, n int64) { w.Cnt[k] += n }

// Parent side -------------------------------------------------------------------------------

type Config struct {
	Ctx      *ev.Ctx
	ID       string        // check id passed to the worker binary
	N        int           // number of cases
	Workers  int           // parallel worker processes
	Stall    time.Duration // no progress for this long => the current case does not terminate
	MemBytes uint64
	Env      []string
	// Hung is called for a case that hung or crashed the worker.
	Hung func(i int, why string)
}

// Run supervises the workers; returns merged counters.
func Run(c *Config) map[string]int64 {
	total := map[string]int64{}
	var mu sync.Mutex
	var wg sync.WaitGroup
	for s := 0; s < c.Workers; s++ {
		wg.Add(1)
		go func(shard int) {
			defer wg.Done()
			start := 0
			for start < c.N && !c.Ctx.Expired() {
				last, cnt, finished, why := runOne(c, shard, start)
				mu.Lock()
				for k, v := range cnt {
					total[k] += v
				}
				mu.Unlock()
				if finished {
					return
				}
				if last >= 0 && c.Hung != nil {
					c.Hung(last, why)
				}
				if last < start {
					last = start
				}
				start = last + 1
			}
		}(s)
	}
	wg.Wait()
	return total
}

func runOne(c *Config, shard, start int) (last int, cnt map[string]int64, finished bool, why string) {
	cmd := exec.Command(os.Args[0], "-id", c.ID, "-tier", c.Ctx.Tier)
	cmd.Env = append(os.Environ(), "VERIF_GUARD_WORKER=1", fmt.Sprintf("VERIF_GUARD_SHARD=%d", shard), fmt.Sprintf("VERIF_GUARD_STRIDE=%d", c.Workers),
		fmt.Sprintf("VERIF_GUARD_START=%d", start), fmt.Sprintf("VERIF_GUARD_MEM=%d", c.MemBytes), "VERIF_NO_EVIDENCE=1", "GOMAXPROCS=2")
	cmd.Env = append(cmd.Env, c.Env...)
	out, err := cmd.StdoutPipe()
	if err != nil {
		return -1, nil, true, ""
	}
	cmd.Stderr = nil
	if err := cmd.Start(); err != nil {
		c.Ctx.HarnessError("cannot start worker: " + err.Error())
		return -1, nil, true, ""
	}
	lines := make(chan string, 256)
	go func() {
		sc := bufio.NewScanner(out)
		sc.Buffer(make([]byte, 1<<20), 8<<20)
		for sc.Scan() {
			lines <- sc.Text()
		}
		close(lines)
	}()
	cnt = map[string]int64{}
	cur := -1
	running := false
	timer := time.NewTimer(c.Stall)
	defer timer.Stop()
	for {
		select {
		case l, ok := <-lines:
			if !ok {
				err := cmd.Wait()
				if running {
					return cur, cnt, false, fmt.Sprintf("the worker process died while running the case (%v)", err)
				}
				return cur, cnt, true, ""
			}
			if !timer.Stop() {
				select {
				case <-timer.C:
				default:
				}
			}
			timer.Reset(c.Stall)
			switch {
			case strings.HasPrefix(l, "S "):
				cur, _ = strconv.Atoi(l[2:])
				running = true
			case strings.HasPrefix(l, "D "):
				running = false
			case strings.HasPrefix(l, "V "):
				var v Viol
				if json.Unmarshal([]byte(l[2:]), &v) == nil {
					c.Ctx.Violate(v.Sig, v.Msg, v.Replay)
				}
			case strings.HasPrefix(l, "C "):
				m := map[string]int64{}
				if json.Unmarshal([]byte(l[2:]), &m) == nil {
					cnt = m
				}
			}
		case <-timer.C:
			cmd.Process.Kill()
			cmd.Wait()
			if running {
				return cur, cnt, false, fmt.Sprintf("no progress for %s", c.Stall)
			}
			return cur, cnt, false, "worker stalled between cases"
		}
	}
}
