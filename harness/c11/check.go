// Package c11: streaming subscribers materialize exactly the server's state.
// G1 (action level) schedule exploration on the real state store + stream.EventPublisher (Run never
// started; one publishEvent per "drain" action) + the real client handler chain and views.
package c11

import (
	"errors"
	"fmt"
	"os"
	"runtime"
	"runtime/debug"
	"sort"
	"strings"
	"sync"
	"sync/atomic"

	"github.com/hashicorp/consul/acl"
	"github.com/hashicorp/consul/agent/consul/state"
	"github.com/hashicorp/consul/agent/consul/stream"
	"github.com/hashicorp/consul/agent/rpcclient/configentry"
	"github.com/hashicorp/consul/agent/rpcclient/health"
	"github.com/hashicorp/consul/agent/structs"
	"github.com/hashicorp/consul/agent/submatview"
	"github.com/hashicorp/consul/api"
	"github.com/hashicorp/consul/internal/verifmc/cmdlib"
	"github.com/hashicorp/consul/internal/verifmc/dump"
	"github.com/hashicorp/consul/internal/verifmc/ev"
	"github.com/hashicorp/consul/internal/verifmc/vtime"
	"github.com/hashicorp/consul/internal/verifmc/world"
)

// ---- subjects -------------------------------------------------------------------------------------------------

type subject struct {
	label string
	// authz is what the subscribe endpoint filters events with (nil: full access)
	authz acl.Authorizer
	req   func(token string, index uint64) *stream.SubscribeRequest
	view  func() submatview.View
	query func(st *state.Store) (uint64, string) // index and canonical result of the direct query
	canon func(result any) string                // canonical materialized result
}

// Kind is implied by the entry type (GetKind); the event conversion leaves the field empty.
var maskOpts = &dump.Options{MaskIndexes: true, SkipFields: map[string]bool{".QueryMeta": true, "ServiceResolverConfigEntry.Kind": true}}

func canonCSN(nodes structs.CheckServiceNodes) string {
	var rows []string
	for i := range nodes {
		n := nodes[i]
		var cs []string
		for _, c := range n.Checks {
			cs = append(cs, dump.Value(c, maskOpts))
		}
		sort.Strings(cs)
		rows = append(rows, dump.Value(n.Node, maskOpts)+" | "+dump.Value(n.Service, maskOpts)+" | "+strings.Join(cs, " ; "))
	}
	sort.Strings(rows)
	return strings.Join(rows, "\n")
}

func canonEntries(es []structs.ConfigEntry) string {
	var rows []string
	for _, e := range es {
		if e == nil {
			continue
		}
		rows = append(rows, dump.Value(e, maskOpts))
	}
	sort.Strings(rows)
	return strings.Join(rows, "\n")
}

// restriction: the subscriber's token may only read these nodes (health) / these entry names (resolver)
type restriction struct {
	authz acl.Authorizer
	node  string
	entry string
}

func healthSubject(svc string, connect bool, r *restriction) subject {
	topic := stream.Topic(state.EventTopicServiceHealth)
	l := "health(" + svc + ")"
	if connect {
		topic = state.EventTopicServiceHealthConnect
		l = "connect(" + svc + ")"
	}
	var az acl.Authorizer
	if r != nil {
		az = r.authz
		l += "[token reads node " + r.node + " only]"
	}
	return subject{label: l, authz: az,
		req: func(token string, index uint64) *stream.SubscribeRequest {
			return &stream.SubscribeRequest{Topic: topic, Subject: state.EventSubjectService{Key: svc, EnterpriseMeta: *structs.DefaultEnterpriseMetaInDefaultPartition()}, Token: token, Index: index}
		},
		view: func() submatview.View {
			v, err := health.NewHealthView(structs.ServiceSpecificRequest{ServiceName: svc, Connect: connect, EnterpriseMeta: *structs.DefaultEnterpriseMetaInDefaultPartition()})
			if err != nil {
				panic(err)
			}
			return v
		},
		query: func(st *state.Store) (uint64, string) {
			var nodes structs.CheckServiceNodes
			var err error
			var idx uint64
			if connect {
				idx, nodes, err = st.CheckConnectServiceNodes(nil, svc, structs.DefaultEnterpriseMetaInDefaultPartition(), "")
			} else {
				idx, nodes, err = st.CheckServiceNodes(nil, svc, structs.DefaultEnterpriseMetaInDefaultPartition(), "")
			}
			if err != nil {
				panic(err)
			}
			if r != nil {
				var keep structs.CheckServiceNodes
				for _, n := range nodes {
					if n.Node.Node == r.node {
						keep = append(keep, n)
					}
				}
				nodes = keep
			}
			return idx, canonCSN(nodes)
		},
		canon: func(r any) string { return canonCSN(r.(*structs.IndexedCheckServiceNodes).Nodes) },
	}
}

func resolverSubject(name string, r *restriction) subject {
	s := subject{label: "resolver(" + name + ")"}
	if r != nil {
		s.authz = r.authz
		s.label += "[token reads " + r.entry + " only]"
	}
	if name == "*" {
		s.req = func(token string, index uint64) *stream.SubscribeRequest {
			return &stream.SubscribeRequest{Topic: state.EventTopicServiceResolver, Subject: stream.SubjectWildcard, Token: token, Index: index}
		}
		s.view = func() submatview.View {
			return configentry.NewConfigEntryListView(structs.ServiceResolver, *structs.DefaultEnterpriseMetaInDefaultPartition())
		}
		s.query = func(st *state.Store) (uint64, string) {
			idx, es, err := st.ConfigEntriesByKind(nil, structs.ServiceResolver, structs.DefaultEnterpriseMetaInDefaultPartition())
			if err != nil {
				panic(err)
			}
			if r != nil {
				var keep []structs.ConfigEntry
				for _, e := range es {
					if e.GetName() == r.entry {
						keep = append(keep, e)
					}
				}
				es = keep
			}
			return idx, canonEntries(es)
		}
		s.canon = func(r any) string { return canonEntries(r.(*structs.IndexedConfigEntries).Entries) }
		return s
	}
	s.req = func(token string, index uint64) *stream.SubscribeRequest {
		return &stream.SubscribeRequest{Topic: state.EventTopicServiceResolver, Subject: state.EventSubjectConfigEntry{Name: name, EnterpriseMeta: structs.DefaultEnterpriseMetaInDefaultPartition()}, Token: token, Index: index}
	}
	s.view = func() submatview.View { return &configentry.ConfigEntryView{} }
	s.query = func(st *state.Store) (uint64, string) {
		idx, e, err := st.ConfigEntry(nil, structs.ServiceResolver, name, structs.DefaultEnterpriseMetaInDefaultPartition())
		if err != nil {
			panic(err)
		}
		return idx, canonEntries([]structs.ConfigEntry{e})
	}
	s.canon = func(r any) string { return canonEntries([]structs.ConfigEntry{r.(*structs.ConfigEntryResponse).Entry}) }
	return s
}

// ---- one execution ------------------------------------------------------------------------------------------------

const (
	aSub  = "subscribe"
	aDisc = "disconnect"
)

type write struct {
	op      world.Op
	restore bool // snapshot + restore instead of a command
	old     bool // with restore: the snapshot is the one taken right after the seed (the data goes back in time)
	acl     bool // changes the subscribers' token
}

type scenario struct {
	label    string
	seed     []world.Op
	writes   []write
	subj     []subject  // one per subscriber
	programs [][]string // one per subscriber

	once *sync.Once
	base *world.World
	// oldSnap: snapshot of the seed state
	oldSnap []byte
}

type commitRec struct {
	idx  uint64
	r    []string // per subscriber subject
	qidx []uint64 // index the direct query reported
}

type subscriber struct {
	subj     subject
	prog     []string
	pc       int
	client   *submatview.VerifClient
	sub      *stream.Subscription
	lastIdx  uint64
	updates  int
	deliv    []uint64
	closedBy []string
}

type violation struct{ sig, msg string }

type exec struct {
	sc       *scenario
	w        *world.World
	pub      *stream.EventPublisher
	commits  []commitRec
	epoch    int // bumps at restore: index monotonicity restarts
	subs     []*subscriber
	wpc      int
	owners   []int // batch k was produced by write owners[k] (-1 seed)
	drained  int
	trace    []string
	viol     []violation
	outcomes map[string]bool
	// stuck: subscriber -> kind of the first write after which the direct query changed its result without advancing its index
	stuck map[int]string
	// cloneOnly: an alarm on the forked store that a fresh replay of the same schedule did not reproduce
	cloneOnly bool
	// drainsDone counts completed publications; preRestorePending: a snapshot older than the current state was
	// restored while batches of earlier commits were still unpublished (they are published into the new topic buffers)
	drainsDone        int
	preRestorePending bool
	// lockLevel: the steps run as threads under the lock-level scheduler; every subscriber consumes for itself
	lockLevel bool
}

// the subscribers use t2; t1 carries the same policy, sorts before t2 and never subscribes (a policy change lists the
// tokens it affects in accessor order, and every one of them has to be visited)
var token = cmdlib.TokenSecrets["t2"]

// svcName has upper-case letters on purpose: subjects are matched case-insensitively and every path
// that builds a subject (snapshot, events, events routed under a proxy's destination) must fold alike.
const svcName = "Web"

// newExec: fresh=false forks the scenario's seed world copy-on-write (fast); fresh=true replays the
// seed on a brand-new store (used to confirm every alarm, like E1 does).
func newExec(sc *scenario, fresh bool) *exec {
	var w *world.World
	if fresh {
		w = world.New()
		w.ApplyAll(sc.seed)
	} else {
		sc.once.Do(func() {
			sc.base = world.New()
			sc.base.ApplyAll(sc.seed)
			b, err := sc.base.Persist()
			if err != nil {
				panic(err)
			}
			sc.oldSnap = b
		})
		w = sc.base.Fork()
	}
	e := &exec{sc: sc, w: w, pub: w.Rec.Real}
	// everything the seed published is dropped: no subscriber exists yet and the queue is not connected
	w.Rec.Forward = true
	for i, s := range sc.subj {
		e.subs = append(e.subs, &subscriber{subj: s, prog: append([]string{}, sc.programs[i]...), client: submatview.NewVerifClient(s.view())})
	}
	e.record("seed")
	return e
}

func (e *exec) record(kind string) {
	c := commitRec{idx: e.w.Next - 1}
	for i, s := range e.subs {
		qi, r := s.subj.query(e.w.Store())
		c.r = append(c.r, r)
		c.qidx = append(c.qidx, qi)
		// the store's own query index must advance whenever the result changes (property C06);
		// when it does not, what a subscriber sees is a consequence, classified separately
		if n := len(e.commits); n > 0 && kind != "restore" && e.commits[n-1].r[i] != r && qi <= e.commits[n-1].qidx[i] {
			if e.stuck == nil {
				e.stuck = map[int]string{}
			}
			if _, ok := e.stuck[i]; !ok {
				e.stuck[i] = kind
			}
		}
	}
	e.commits = append(e.commits, c)
}

// sigFor appends the query-index classification for subscriber i.
func (e *exec) sigFor(i int, sig string) string {
	if e.preRestorePending {
		sig += ":batches-unpublished-at-restore-of-an-older-snapshot"
	}
	if k, ok := e.stuck[i]; ok {
		return sig + ":store-query-index-did-not-advance-after=" + k
	}
	return sig
}

func (e *exec) violate(sig, msg string) {
	e.viol = append(e.viol, violation{sig, msg + "\nschedule: " + strings.Join(e.trace, " ; ")})
}

// expectedAt is the direct query result of the last commit whose index is <= d.
func (e *exec) expectedAt(d uint64, si int) (string, bool) {
	var best *commitRec
	for i := range e.commits {
		if e.commits[i].idx <= d {
			best = &e.commits[i]
		}
	}
	if best == nil {
		return "", false
	}
	return best.r[si], true
}

func (e *exec) enabled() []string {
	var out []string
	if e.wpc < len(e.sc.writes) {
		out = append(out, "W")
	}
	if e.pub.VerifQueued() > 0 {
		out = append(out, "D")
	}
	for i, s := range e.subs {
		if s.pc < len(s.prog) {
			if s.prog[s.pc] == aDisc && s.sub == nil {
				continue // nothing to disconnect (the server closed it first): skip handled in step
			}
			out = append(out, fmt.Sprintf("S%d", i))
		}
	}
	return out
}

func (e *exec) step(a string) {
	switch {
	case a == "W":
		wr := e.sc.writes[e.wpc]
		e.wpc++
		before := e.w.Rec.NumBatches()
		if wr.restore {
			e.trace = append(e.trace, "restore")
			b, err := e.w.Persist()
			if err != nil {
				panic(err)
			}
			if wr.old {
				e.trace[len(e.trace)-1] = "restore(snapshot of the seed state)"
				sc := e.sc
				sc.once.Do(func() {})
				if sc.oldSnap == nil {
					// fresh mode before any fork: take it from a replay of the seed
					w0 := world.New()
					w0.ApplyAll(sc.seed)
					if sc.oldSnap, err = w0.Persist(); err != nil {
						panic(err)
					}
				}
				b = sc.oldSnap
				if e.w.Rec.NumBatches() > e.drainsDone {
					e.preRestorePending = true
				}
			}
			if err := e.w.RestoreFrom(b); err != nil {
				panic(err)
			}
			e.epoch++
			e.record("restore")
			if e.lockLevel {
				return
			}
			e.pump()
			// every subscription that existed must now be closed
			for i, s := range e.subs {
				if s.sub != nil {
					e.violate("C11:subscription-survives-restore", fmt.Sprintf("subscriber %d (%s) is still open after the server restored a snapshot", i, s.subj.label))
				}
			}
		} else {
			e.trace = append(e.trace, "commit["+wr.op.Name+"]")
			if _, ok := e.w.Apply(wr.op); !ok {
				panic("write not enabled: " + wr.op.Name)
			}
			e.record(wr.op.Kind)
		}
		for k := before; k < e.w.Rec.NumBatches(); k++ {
			e.owners = append(e.owners, e.wpc-1)
		}
	case a == "D":
		k := e.drained
		e.drained++
		owner := -2
		if k < len(e.owners) {
			owner = e.owners[k]
		}
		e.trace = append(e.trace, fmt.Sprintf("publish[batch of write %d]", owner+1))
		var open []int
		for i, s := range e.subs {
			if s.sub != nil {
				open = append(open, i)
			}
		}
		if !e.pub.VerifDrainOne() {
			panic("drain with empty queue")
		}
		e.drainsDone++
		if e.lockLevel {
			return
		}
		e.pump()
		if owner >= 0 && e.sc.writes[owner].acl {
			for _, i := range open {
				if e.subs[i].sub != nil {
					e.violate("C11:subscription-survives-acl-change", fmt.Sprintf("subscriber %d (%s) is still open after its token changed", i, e.subs[i].subj.label))
				}
			}
		}
		return
	case strings.HasPrefix(a, "S"):
		var i int
		fmt.Sscanf(a, "S%d", &i)
		s := e.subs[i]
		act := s.prog[s.pc]
		s.pc++
		switch act {
		case aSub:
			if s.sub != nil {
				s.sub.Unsubscribe()
				s.sub = nil
			}
			idx := s.client.Begin()
			e.trace = append(e.trace, fmt.Sprintf("sub%d.subscribe(%s,index=%d)", i, s.subj.label, idx))
			sub, err := e.pub.Subscribe(s.subj.req(token, idx))
			if err != nil {
				e.violate("C11:subscribe-fails", err.Error())
				return
			}
			s.sub = sub
		case aDisc:
			e.trace = append(e.trace, fmt.Sprintf("sub%d.disconnect", i))
			if s.sub != nil {
				s.sub.Unsubscribe()
				s.sub = nil
			}
		}
		if e.lockLevel {
			e.pumpOne(i)
			return
		}
	}
	if e.lockLevel {
		return
	}
	e.pump()
}

// pump lets every connected subscriber consume whatever is available (consumption commutes with
// commits; its order relative to publications is what the exploration varies).
func (e *exec) pump() {
	for i := range e.subs {
		e.pumpOne(i)
	}
}

// pumpOne: subscriber i consumes whatever is deliverable to it now.
func (e *exec) pumpOne(i int) {
	s := e.subs[i]
	{
		for s.sub != nil {
			evt, err, ok := s.sub.VerifNextNoBlock()
			if !ok {
				break
			}
			if err != nil {
				switch {
				case errors.Is(err, stream.ErrSubForceClosed), errors.Is(err, stream.ErrACLChanged):
					// the server answers codes.Aborted: the client resets and resubscribes from scratch
					s.closedBy = append(s.closedBy, err.Error())
					s.client.Aborted()
				default:
					e.violate("C11:unexpected-stream-error", fmt.Sprintf("subscriber %d: %v", i, err))
				}
				s.sub.Unsubscribe()
				s.sub = nil
				s.lastIdx = 0
				s.prog = append(s.prog, aSub) // the client retries
				e.trace = append(e.trace, fmt.Sprintf("sub%d.closed-by-server", i))
				break
			}
			if evt.IsNewSnapshotToFollow() {
				// the server could not resume this subscriber and starts it over: its snapshot may be a cached one that is
				// older than what the client had (the spliced events catch it up), so monotonicity restarts here
				s.lastIdx = 0
			}
			az := s.subj.authz
			if az == nil {
				az = acl.ManageAll()
			}
			if !evt.Payload.HasReadPermission(az) {
				continue
			}
			pb := evt.Payload.ToSubscriptionEvent(evt.Index)
			before := s.client.Updates
			if err := s.client.Handle(pb); err != nil {
				e.violate("C11:client-handler-error", fmt.Sprintf("subscriber %d: %v", i, err))
				continue
			}
			if s.client.Updates == before {
				continue // accumulating a snapshot / framing
			}
			d := s.client.Index()
			s.deliv = append(s.deliv, d)
			e.trace = append(e.trace, fmt.Sprintf("sub%d.delivered(index=%d)", i, d))
			if d < s.lastIdx {
				e.violate(e.sigFor(i, "C11:delivered-index-decreased:"+s.subj.label[:strings.Index(s.subj.label, "(")]), fmt.Sprintf("subscriber %d (%s): index went from %d to %d", i, s.subj.label, s.lastIdx, d))
			}
			s.lastIdx = d
			got := s.subj.canon(s.client.Result())
			want, ok := e.expectedAt(d, i)
			if !ok {
				continue
			}
			if got != want {
				kind := "stale-or-wrong-view"
				if last := e.commits[len(e.commits)-1].r[i]; got == last {
					kind = "view-ahead-of-delivered-index"
				}
				e.violate(e.sigFor(i, "C11:view-differs-from-query-at-delivered-index:"+kind+":"+s.subj.label[:strings.Index(s.subj.label, "(")]),
					fmt.Sprintf("subscriber %d (%s) after delivery at index %d holds\n%s\nthe direct query at that index returned\n%s", i, s.subj.label, d, indent(got), indent(want)))
			}
		}
	}
}

func indent(s string) string {
	if s == "" {
		return "    <empty>"
	}
	return "    " + strings.ReplaceAll(s, "\n", "\n    ")
}

// finish: quiescence - everything published and consumed: every connected view equals the final query
func (e *exec) finish() {
	for e.pub.VerifQueued() > 0 {
		e.step("D")
	}
	// clients whose stream was closed resubscribe
	for {
		progress := false
		for i, s := range e.subs {
			if s.pc < len(s.prog) && s.prog[s.pc] == aSub && s.sub == nil {
				e.step(fmt.Sprintf("S%d", i))
				progress = true
			}
		}
		if !progress {
			break
		}
	}
	last := e.commits[len(e.commits)-1]
	for i, s := range e.subs {
		if s.sub == nil {
			continue
		}
		if s.client.Index() == 0 {
			e.violate("C11:no-snapshot-delivered", fmt.Sprintf("subscriber %d (%s) is connected but never received a complete snapshot", i, s.subj.label))
			continue
		}
		got := s.subj.canon(s.client.Result())
		if got != last.r[i] {
			e.violate(e.sigFor(i, "C11:view-differs-at-quiescence:"+s.subj.label[:strings.Index(s.subj.label, "(")]),
				fmt.Sprintf("subscriber %d (%s): everything is published and consumed; view\n%s\nfinal query\n%s", i, s.subj.label, indent(got), indent(last.r[i])))
		}
		s.sub.Unsubscribe()
		s.sub = nil
	}
}

// explore enumerates every interleaving of the scenario's threads (stateless DFS over choice sequences).
func explore(sc *scenario, onExec func(e *exec)) (execs int64) {
	var rec func(prefix []int)
	run := func(prefix []int, fresh bool) (*exec, []int, []int) {
		e := newExec(sc, fresh)
		var alts, choices []int // number of enabled actions / choice taken at each decision point
		for pos := 0; ; pos++ {
			en := e.enabled()
			if len(en) == 0 {
				break
			}
			c := 0
			if pos < len(prefix) {
				c = prefix[pos]
				if c >= len(en) {
					panic(fmt.Sprintf("replay divergence at %d: choice %d of %d (%v)", pos, c, len(en), e.trace))
				}
			}
			alts = append(alts, len(en))
			choices = append(choices, c)
			e.step(en[c])
		}
		e.finish()
		return e, alts, choices
	}
	rec = func(prefix []int) {
		e, alts, choices := run(prefix, false)
		if len(e.viol) > 0 {
			// confirm on a store that is not a copy-on-write clone
			f, _, _ := run(choices, true)
			if strings.Join(f.trace, ";") != strings.Join(e.trace, ";") || len(f.viol) != len(e.viol) {
				e.cloneOnly = true
			}
		}
		execs++
		onExec(e)
		for pos := len(prefix); pos < len(alts); pos++ {
			for c := 1; c < alts[pos]; c++ {
				np := make([]int, pos+1)
				copy(np, prefix)
				// positions between len(prefix) and pos took choice 0
				np[pos] = c
				rec(np)
			}
		}
	}
	rec(nil)
	return execs
}

// ---- scenarios ------------------------------------------------------------------------------------------------------

func newOnce() *sync.Once { return new(sync.Once) }

func Run(c *ev.Ctx) {
	quick := c.Quick()
	_ = debug.SetGCPercent
	// the publisher's only timer evicts a cached snapshot after 10 s, far beyond an execution
	vtime.ParkTimers(true)
	defer vtime.ParkTimers(false)
	n1 := cmdlib.NodeSpec{Node: "n1", ID: "id1", Addr: "10.0.0.1"}
	n1b := cmdlib.NodeSpec{Node: "n1", ID: "id1", Addr: "10.0.0.9"}
	n2 := cmdlib.NodeSpec{Node: "n2", Addr: "10.0.0.2"}
	a1 := cmdlib.SvcSpec{ID: "a1", Name: svcName, Port: 80}
	a1p := cmdlib.SvcSpec{ID: "a1", Name: svcName, Port: 81}
	a1b := cmdlib.SvcSpec{ID: "a1", Name: "b", Port: 80} // the instance changes its service name
	a2 := cmdlib.SvcSpec{ID: "a2", Name: svcName, Port: 80}
	a3 := cmdlib.SvcSpec{ID: "a3", Name: svcName, Port: 83}
	proxy := cmdlib.SvcSpec{ID: "a1-proxy", Name: "a-proxy", Kind: structs.ServiceKindConnectProxy, DestName: svcName, Port: 20000}
	native := cmdlib.SvcSpec{ID: "a4", Name: svcName, Port: 84, Native: true}
	catalog := []write{
		{op: cmdlib.RegService(n1, a1)}, {op: cmdlib.RegService(n1, a1p)}, {op: cmdlib.RegService(n2, a2)}, {op: cmdlib.RegService(n1, a3)}, {op: cmdlib.RegService(n1, a1b)},
		{op: cmdlib.DeregService("n1", "a1", "")}, {op: cmdlib.DeregNode("n1", "")}, {op: cmdlib.RegNode(n1b)},
		{op: cmdlib.RegCheck(n1, cmdlib.CheckSpec{ID: "c1", Status: "passing", ServiceID: "a1"})}, {op: cmdlib.RegCheck(n1, cmdlib.CheckSpec{ID: "c1", Status: "critical", ServiceID: "a1"})},
		{op: cmdlib.RegCheck(n1, cmdlib.CheckSpec{ID: "c1", Status: "passing", ServiceID: "a3"})}, // re-point the check to a sibling instance
		{op: cmdlib.RegCheck(n1, cmdlib.CheckSpec{ID: "nc", Status: "warning"})}, {op: cmdlib.DeregCheck("n1", "c1", "")},
		{op: cmdlib.RegService(n1, proxy)}, {op: cmdlib.RegService(n2, native)}, {op: cmdlib.DeregService("n1", "a1-proxy", "")},
	}
	resolver := []write{
		{op: cmdlib.Resolver(svcName, cmdlib.ResolverOpt{}).Upsert()}, {op: cmdlib.Resolver(svcName, cmdlib.ResolverOpt{Subsets: []string{"v1"}}).Upsert()}, {op: cmdlib.Resolver(svcName, cmdlib.ResolverOpt{}).Delete()},
		{op: cmdlib.Resolver("b", cmdlib.ResolverOpt{}).Upsert()}, {op: cmdlib.Resolver("b", cmdlib.ResolverOpt{}).Delete()},
	}
	tokenSeed := []world.Op{cmdlib.PolicySet("p1", "policy-one", `service_prefix "" { policy = "read" } node_prefix "" { policy = "read" }`), cmdlib.TokenSet(cmdlib.TokenSpec{ID: "t1", Policies: []string{"p1"}}, false, 0, false), cmdlib.TokenSet(cmdlib.TokenSpec{ID: "t2", Policies: []string{"p1"}}, false, 0, false)}
	aclWrite := write{op: cmdlib.TokenSet(cmdlib.TokenSpec{ID: "t2", Policies: []string{"p1"}, Desc: "changed"}, false, 0, false), acl: true}
	policyWrite := write{op: cmdlib.PolicySet("p1", "policy-one", `service_prefix "" { policy = "write" }`), acl: true}
	restore := write{restore: true}

	seedEmpty := append(append([]world.Op{}, tokenSeed...), cmdlib.RegNode(n1), cmdlib.RegNode(n2))
	seedA := append(append([]world.Op{}, seedEmpty...), cmdlib.RegService(n1, a1), cmdlib.RegService(n1, a3), cmdlib.RegCheck(n1, cmdlib.CheckSpec{ID: "c1", Status: "passing", ServiceID: "a1"}),
		cmdlib.RegService(n1, proxy), cmdlib.Resolver(svcName, cmdlib.ResolverOpt{}).Upsert())

	hA, hC := healthSubject(svcName, false, nil), healthSubject(svcName, true, nil)
	rA, rW := resolverSubject(svcName, nil), resolverSubject("*", nil)

	type progSet struct {
		label string
		subj  func(s subject) []subject
		progs [][]string
	}
	one := func(s subject) []subject { return []subject{s} }
	two := func(s subject) []subject { return []subject{s, s} }
	progSets := []progSet{
		{"one subscriber", one, [][]string{{aSub}}},
		{"one subscriber reconnecting", one, [][]string{{aSub, aDisc, aSub}}},
		{"two subscribers (cached snapshot)", two, [][]string{{aSub}, {aSub}}},
		{"two subscribers, one leaves", two, [][]string{{aSub, aDisc}, {aSub}}},
	}

	var scenarios []*scenario
	add := func(label string, seed []world.Op, ws []write, subj subject, ps progSet) {
		scenarios = append(scenarios, &scenario{label: label + " / " + ps.label + " / " + subj.label, seed: seed, writes: ws, subj: ps.subj(subj), programs: ps.progs, once: new(sync.Once)})
	}
	depth := 2
	if !quick {
		depth = 3
	}
	var seqs func(alpha []write, n int) [][]write
	seqs = func(alpha []write, n int) [][]write {
		if n == 0 {
			return [][]write{nil}
		}
		var out [][]write
		for _, rest := range seqs(alpha, n-1) {
			for _, a := range alpha {
				out = append(out, append([]write{a}, rest...))
			}
		}
		return out
	}
	label := func(ws []write) string {
		var l []string
		for _, w := range ws {
			if w.restore && w.old {
				l = append(l, "restore-old-snapshot")
			} else if w.restore {
				l = append(l, "restore")
			} else {
				l = append(l, w.op.Name)
			}
		}
		return strings.Join(l, ", ")
	}
	// quick tier: the programs with three subscriber steps run over the writes that change what
	// service "a" returns in more than one way; the thorough tier runs everything over everything
	core := map[string]bool{}
	for _, i := range []int{0, 2, 4, 5, 6, 9, 10, 13, 14, 15} {
		core[catalog[i].op.Name] = true
	}
	inCore := func(ws []write) bool {
		for _, w := range ws {
			if !core[w.op.Name] {
				return false
			}
		}
		return true
	}
	for si, seed := range [][]world.Op{seedEmpty, seedA} {
		for _, ws := range seqs(catalog, depth) {
			for pi, ps := range progSets {
				if depth == 3 && pi > 1 {
					continue // three writes x two subscribers: covered at depth 2
				}
				if quick && (pi == 1 || pi == 3) && (si == 0 || !inCore(ws)) {
					continue
				}
				for _, sj := range []subject{hA, hC} {
					add(fmt.Sprintf("seed%d: %s", si, label(ws)), seed, ws, sj, ps)
				}
			}
		}
		for _, ws := range seqs(resolver, depth) {
			for _, ps := range progSets {
				for _, sj := range []subject{rA, rW} {
					add(fmt.Sprintf("seed%d: %s", si, label(ws)), seed, ws, sj, ps)
				}
			}
		}
	}
	// a subscriber that comes back with the index it already has (the server resumes it without a snapshot) and leaves
	// again, next to one that stays: the topic buffer's user count must survive that
	resumeSet := progSet{"two subscribers, one resumes and leaves", two, [][]string{{aSub, aDisc, aSub, aDisc}, {aSub}}}
	// (two writes: the first one gives the topic buffer a head the returning subscriber can resume from, the second one is
	// the one the staying subscriber must still get)
	resumeWrites := []write{catalog[2], catalog[5], catalog[9], catalog[13]}
	if !quick {
		resumeWrites = catalog
	}
	for _, ws := range seqs(resumeWrites, 2) {
		add("seed1: "+label(ws), seedA, ws, hA, resumeSet)
	}
	for _, ws := range seqs(resolver[:3], 2) {
		add("seed1: "+label(ws), seedA, ws, rA, resumeSet)
	}
	// subscribers with different permissions on one subject: they share topic buffers and the cached
	// snapshot, and batches holding several events are filtered per subscriber
	mkAuthz := func(rules string) acl.Authorizer {
		pol, err := acl.NewPolicyFromSource(rules, nil, nil)
		if err != nil {
			panic(err)
		}
		a, err := acl.NewPolicyAuthorizerWithDefaults(acl.DenyAll(), []*acl.Policy{pol}, nil)
		if err != nil {
			panic(err)
		}
		return a
	}
	hAr := healthSubject(svcName, false, &restriction{authz: mkAuthz(`node "n1" { policy = "read" } service_prefix "" { policy = "read" }`), node: "n1"})
	rWr := resolverSubject("*", &restriction{authz: mkAuthz(`service "` + svcName + `" { policy = "read" }`), entry: svcName})
	twoNodes := write{op: cmdlib.Txn(cmdlib.TxnService(api.ServiceSet, "n1", a1p, 0), cmdlib.TxnService(api.ServiceSet, "n2", a2, 0))}
	twoNodesBack := write{op: cmdlib.Txn(cmdlib.TxnService(api.ServiceSet, "n1", a1, 0), cmdlib.TxnService(api.ServiceSet, "n2", cmdlib.SvcSpec{ID: "a2", Name: svcName, Port: 86}, 0))}
	mixedCatalog := []write{twoNodes, twoNodesBack, catalog[0], catalog[2], catalog[6], catalog[7]}
	mixedProgs := []progSet{
		{"restricted and unrestricted subscriber", nil, [][]string{{aSub}, {aSub}}},
		{"restricted and unrestricted subscriber, the restricted one leaves", nil, [][]string{{aSub, aDisc}, {aSub}}},
	}
	for si, seed := range [][]world.Op{seedEmpty, seedA} {
		for _, ws := range seqs(mixedCatalog, 2) {
			for _, ps := range mixedProgs {
				scenarios = append(scenarios, &scenario{label: fmt.Sprintf("seed%d: %s / %s / %s", si, label(ws), ps.label, hAr.label), seed: seed, writes: ws,
					subj: []subject{hAr, hA}, programs: ps.progs, once: new(sync.Once)})
			}
		}
		for _, ws := range seqs(resolver, 2) {
			for _, ps := range mixedProgs {
				scenarios = append(scenarios, &scenario{label: fmt.Sprintf("seed%d: %s / %s / %s", si, label(ws), ps.label, rWr.label), seed: append(append([]world.Op{}, seed...), cmdlib.Resolver("b", cmdlib.ResolverOpt{}).Upsert(), cmdlib.Resolver("c", cmdlib.ResolverOpt{}).Upsert()), writes: ws,
					subj: []subject{rWr, rW}, programs: ps.progs, once: new(sync.Once)})
			}
		}
	}

	// forced resubscription: a token/policy change or a restore between ordinary writes
	restoreOld := write{restore: true, old: true}
	for _, special := range []write{aclWrite, policyWrite, restore, restoreOld} {
		for _, w1 := range []write{catalog[0], catalog[5], catalog[9]} {
			for _, order := range [][]write{{special, w1}, {w1, special}, {w1, special, catalog[2]}} {
				for _, ps := range progSets {
					add("forced: "+label(order), seedA, order, hA, ps)
				}
			}
		}
		for _, ps := range progSets {
			add("forced: "+label([]write{resolver[1], special}), seedA, []write{resolver[1], special}, rW, ps)
		}
	}
	if !quick {
		// depth-2 scenarios are part of the thorough tier as well
		var extra []*scenario
		for si, seed := range [][]world.Op{seedEmpty, seedA} {
			for _, ws := range seqs(catalog, 2) {
				for _, ps := range progSets[2:] {
					for _, sj := range []subject{hA, hC} {
						extra = append(extra, &scenario{label: fmt.Sprintf("seed%d: %s / %s / %s", si, label(ws), ps.label, sj.label), seed: seed, writes: ws, subj: ps.subj(sj), programs: ps.progs, once: new(sync.Once)})
					}
				}
			}
		}
		scenarios = append(scenarios, extra...)
	}

	partLock(c)
	if os.Getenv("VERIF_C11_ONLY") == "lock" {
		return
	}

	var execs, deliveries, closes int64
	var next int64 = -1
	var wg sync.WaitGroup
	var mu sync.Mutex
	outcomes := map[string]bool{}
	capped := false
	for wk := 0; wk < runtime.NumCPU(); wk++ {
		wg.Add(1)
		go func() {
			defer wg.Done()
			for {
				i := int(atomic.AddInt64(&next, 1))
				if i >= len(scenarios) {
					return
				}
				if c.Expired() {
					capped = true
					return
				}
				sc := scenarios[i]
				n := explore(sc, func(e *exec) {
					var d, cl int64
					var oc []string
					for _, s := range e.subs {
						d += int64(len(s.deliv))
						cl += int64(len(s.closedBy))
						oc = append(oc, fmt.Sprint(s.deliv, len(s.closedBy)))
					}
					atomic.AddInt64(&deliveries, d)
					atomic.AddInt64(&closes, cl)
					mu.Lock()
					outcomes[strings.Join(oc, "|")] = true
					mu.Unlock()
					if e.cloneOnly {
						c.HarnessError("an alarm on a forked store was not reproduced by a fresh replay of the same schedule: " + strings.Join(e.trace, " ; "))
						return
					}
					for _, v := range e.viol {
						c.Violate(v.sig, v.msg+"\nscenario: "+sc.label, map[string]any{"scenario": sc.label, "schedule": e.trace})
					}
				})
				atomic.AddInt64(&execs, n)
			}
		}()
	}
	wg.Wait()
	if capped {
		c.Cap("time budget reached before all scenarios were explored")
	}
	fmt.Fprintf(os.Stderr, "c11: scenarios=%d schedules=%d deliveries=%d\n", len(scenarios), execs, deliveries)
	c.Set("scenarios", len(scenarios))
	c.Set("schedules", execs)
	c.Set("states", execs)
	c.Set("transitions", deliveries+execs)
	c.Set("traces_validated_against_impl", execs)
	c.Set("deliveries_checked", deliveries)
	c.Set("forced_closes_observed", closes)
	c.Set("distinct_delivery_outcomes", len(outcomes))
	c.Set("max_depth", depth)
	c.Set("rule", "for every write history (<= max_depth over 16 catalog writes / 5 resolver writes, from two seeds; plus token change, policy change and snapshot restore placed between writes) and every subscriber program (one subscriber; one reconnecting with its last index; two on the same subject sharing the cached snapshot; two of which one leaves): every interleaving of commit+hand-off, publication of one queued batch, subscribe and disconnect; consumption is eager (it commutes with commits). Runs on the real state store, FSM, stream.EventPublisher (publishEvent per step), submatview handler chain and health / config entry views")
	c.Sample(map[string]any{"example_scenario": scenarios[len(scenarios)/2].label})
	c.Assume("consumption (Subscription.Next) commutes with commits and is executed eagerly; a lazily consuming subscriber observes a prefix of the same deliveries")
	c.Assume("the gRPC transport between Subscription.Next and the client handler is replaced by a direct call of ToSubscriptionEvent (as LocalMaterializer does)")
}
