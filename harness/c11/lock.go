package c11

import (
	"fmt"
	"strings"
	"time"

	"github.com/hashicorp/consul/internal/verifmc/cmdlib"
	"github.com/hashicorp/consul/internal/verifmc/ev"
	"github.com/hashicorp/consul/internal/verifmc/sched"
	"github.com/hashicorp/consul/internal/verifmc/world"
)

// ---- lock / atomic level ------------------------------------------------------------------------------------------------
//
// The action-level exploration treats a commit, the publication of one batch, a Subscribe and a Next as atomic
// (each is covered by the publisher lock or by memdb's writer lock). Here the same programs run as goroutines
// under the cooperative scheduler of harness/sched: the applier (FSM commands, restore), the publisher loop
// (EventPublisher.Run's body, one batch per iteration) and one thread per subscriber. Every lock acquisition and
// every atomic operation of package stream (publisher lock, subscription table lock, buffer links, subscription
// state) is a scheduling point; waiting for a batch / for an event is modelled with sched.WaitUntil. Oracles are
// the action level's: view == direct query at every delivered index, indexes monotone, view == final query at
// quiescence.

// runLock executes one schedule. The publisher walks a Go map of (topic, subject) groups when it appends a batch,
// so which buffer gets its events first is not a function of the schedule; when a recorded prefix does not fit the
// order this execution happened to take, it is run again (a handful of orders exist).
func runLock(sc *scenario, prefix []int) (*sched.Run, *exec) {
	for try := 0; ; try++ {
		r, e := runLockOnce(sc, prefix)
		if !r.Diverged || try == 30 {
			return r, e
		}
	}
}

func runLockOnce(sc *scenario, prefix []int) (*sched.Run, *exec) {
	e := newExec(sc, false)
	e.lockLevel = true
	r := sched.New(prefix)
	r.Atomics = true
	r.TolerateDivergence = true
	writersDone, pubDone := false, false
	r.Go("W", func() {
		for range sc.writes {
			sched.Yield()
			e.step("W")
		}
		writersDone = true
	})
	r.Go("D", func() {
		for {
			sched.WaitUntil(func() bool { return e.pub.VerifQueued() > 0 || writersDone })
			if e.pub.VerifQueued() == 0 {
				break
			}
			e.step("D")
		}
		pubDone = true
	})
	for i := range e.subs {
		i := i
		s := e.subs[i]
		r.Go(fmt.Sprintf("S%d", i), func() {
			act := func() {
				for s.pc < len(s.prog) {
					sched.Yield()
					e.pumpOne(i)
					if s.pc >= len(s.prog) {
						break
					}
					if s.prog[s.pc] == aDisc && s.sub == nil {
						s.pc++
						continue
					}
					e.step(fmt.Sprintf("S%d", i))
				}
			}
			act()
			for s.sub != nil {
				sched.WaitUntil(func() bool { return s.sub.VerifHasNext() || pubDone })
				if !s.sub.VerifHasNext() {
					break
				}
				e.pumpOne(i)
				act() // a subscriber closed by the server subscribes again
			}
		})
	}
	r.Execute()
	if r.Hung == "" && !r.Deadlock && !r.Diverged {
		e.lockLevel = false
		e.finish()
	}
	return r, e
}

func lockScenarios(quick bool) []*scenario {
	n1 := cmdlib.NodeSpec{Node: "n1", ID: "id1", Addr: "10.0.0.1"}
	n2 := cmdlib.NodeSpec{Node: "n2", Addr: "10.0.0.2"}
	a1 := cmdlib.SvcSpec{ID: "a1", Name: svcName, Port: 80}
	a1p := cmdlib.SvcSpec{ID: "a1", Name: svcName, Port: 81}
	a2 := cmdlib.SvcSpec{ID: "a2", Name: svcName, Port: 80}
	tokenSeed := []world.Op{cmdlib.PolicySet("p1", "policy-one", `service_prefix "" { policy = "read" } node_prefix "" { policy = "read" }`), cmdlib.TokenSet(cmdlib.TokenSpec{ID: "t1", Policies: []string{"p1"}}, false, 0, false), cmdlib.TokenSet(cmdlib.TokenSpec{ID: "t2", Policies: []string{"p1"}}, false, 0, false)}
	seed := append(append([]world.Op{}, tokenSeed...), cmdlib.RegNode(n1), cmdlib.RegNode(n2), cmdlib.RegService(n1, a1), cmdlib.Resolver(svcName, cmdlib.ResolverOpt{}).Upsert())
	aclWrite := write{op: cmdlib.TokenSet(cmdlib.TokenSpec{ID: "t2", Policies: []string{"p1"}, Desc: "changed"}, false, 0, false), acl: true}
	hA, rA := healthSubject(svcName, false, nil), resolverSubject(svcName, nil)
	mk := func(label string, ws []write, subj []subject, progs [][]string) *scenario {
		return &scenario{label: "lock level: " + label, seed: seed, writes: ws, subj: subj, programs: progs, once: newOnce()}
	}
	out := []*scenario{
		mk("two writes, one subscriber", []write{{op: cmdlib.RegService(n1, a1p)}, {op: cmdlib.RegService(n2, a2)}}, []subject{hA}, [][]string{{aSub}}),
		mk("one write, two subscribers sharing the snapshot", []write{{op: cmdlib.RegService(n1, a1p)}}, []subject{hA, hA}, [][]string{{aSub}, {aSub}}),
		mk("write and deregistration, a subscriber that reconnects", []write{{op: cmdlib.RegService(n2, a2)}, {op: cmdlib.DeregService("n1", "a1", "")}}, []subject{hA}, [][]string{{aSub, aDisc, aSub}}),
		mk("token change between writes", []write{{op: cmdlib.RegService(n1, a1p)}, aclWrite, {op: cmdlib.RegService(n2, a2)}}, []subject{hA}, [][]string{{aSub}}),
		mk("restore after a write", []write{{op: cmdlib.RegService(n1, a1p)}, {restore: true}}, []subject{hA}, [][]string{{aSub}}),
		mk("restore of the seed state's snapshot after two writes", []write{{op: cmdlib.RegService(n1, a1p)}, {op: cmdlib.RegService(n2, a2)}, {restore: true, old: true}}, []subject{hA}, [][]string{{aSub}}),
		mk("resolver written and deleted", []write{{op: cmdlib.Resolver(svcName, cmdlib.ResolverOpt{Subsets: []string{"v1"}}).Upsert()}, {op: cmdlib.Resolver(svcName, cmdlib.ResolverOpt{}).Delete()}}, []subject{rA}, [][]string{{aSub}}),
	}
	if !quick {
		out = append(out,
			mk("two writes, two subscribers, one leaves", []write{{op: cmdlib.RegService(n1, a1p)}, {op: cmdlib.RegService(n2, a2)}}, []subject{hA, hA}, [][]string{{aSub, aDisc}, {aSub}}),
		)
	}
	return out
}

// partLock runs on one goroutine: the scheduler owns process-wide state.
func partLock(c *ev.Ctx) {
	bound := 1
	if !c.Quick() {
		bound = 2
	}
	scs := lockScenarios(c.Quick())
	// this part may use a quarter of the time budget
	limit := time.Now().Add(time.Until(c.Deadline) / 4)
	var total, deadlocks, unreplayable int64
	outcomes := map[string]bool{}
	maxPoints := 0
	capped, hung := false, false
	for _, sc := range scs {
		if hung {
			break
		}
		var rec func(prefix []int, used int)
		rec = func(prefix []int, used int) {
			r, e := runLock(sc, prefix)
			total++
			if len(r.Choices) > maxPoints {
				maxPoints = len(r.Choices)
			}
			if r.Hung != "" {
				c.HarnessError("lock-level exploration: " + r.Hung)
				hung = true
				return
			}
			if r.Diverged {
				unreplayable++
				return
			}
			rp := map[string]any{"scenario": sc.label, "schedule": e.trace, "threads": r.Trace, "choices": r.Choices}
			if r.Deadlock {
				deadlocks++
				c.Violate("C11:deadlock:applier-publisher-subscribers", fmt.Sprintf("scenario %q deadlocks under schedule %v (waiting: %v)", sc.label, r.Trace, r.Waiting()), rp)
				return
			}
			var oc []string
			for _, s := range e.subs {
				oc = append(oc, fmt.Sprint(s.deliv, len(s.closedBy)))
			}
			outcomes[sc.label+"|"+strings.Join(oc, "|")] = true
			for _, v := range e.viol {
				c.Violate(v.sig+":lock-level", v.msg+"\nscenario: "+sc.label+"\nthread schedule: "+strings.Join(r.Trace, " "), rp)
			}
			for i := len(prefix); i < len(r.Alts); i++ {
				cost := 0
				if r.Preempt[i] {
					cost = 1
				}
				if used+cost > bound {
					continue
				}
				for alt := 1; alt < r.Alts[i]; alt++ {
					if hung {
						return
					}
					if c.Expired() || time.Now().After(limit) {
						capped = true
						return
					}
					np := make([]int, i+1)
					copy(np, r.Choices[:i])
					np[i] = alt
					rec(np, used+cost)
				}
			}
		}
		rec(nil, 0)
	}
	c.Set("lock_level_scenarios", len(scs))
	c.Set("lock_level_schedules", total)
	c.Set("lock_level_preemption_bound", bound)
	c.Set("lock_level_max_scheduling_points", maxPoints)
	c.Set("lock_level_distinct_outcomes", len(outcomes))
	c.Set("lock_level_deadlocks", deadlocks)
	c.Set("lock_level_prefixes_not_replayable_in_30_tries", unreplayable)
	if unreplayable > 0 {
		c.Cap("some schedule prefixes could not be replayed (map iteration order inside the publisher)")
	}
	if capped {
		c.Cap("lock-level exploration stopped by the time budget")
	}
}
