// Package vtime is a drop-in replacement for package time in which Now/Since/Until are shifted
// by a process-wide offset (VERIF_CLOCK_OFFSET or SetOffset). The check driver compiles the
// replicated-state packages (state, fsm, structs, storage) against it by rewriting only their
// `"time"` import line, so a replica can be run "1000 hours later" without touching /repo.
// Every exported identifier of package time is re-exported so that any edit to those packages
// still compiles.
package vtime

import (
	"os"
	"sync/atomic"
	"time"
)

type (
	Duration   = time.Duration
	Location   = time.Location
	Month      = time.Month
	ParseError = time.ParseError
	Ticker     = time.Ticker
	Time       = time.Time
	Timer      = time.Timer
	Weekday    = time.Weekday
)

const (
	Layout      = time.Layout
	ANSIC       = time.ANSIC
	UnixDate    = time.UnixDate
	RubyDate    = time.RubyDate
	RFC822      = time.RFC822
	RFC822Z     = time.RFC822Z
	RFC850      = time.RFC850
	RFC1123     = time.RFC1123
	RFC1123Z    = time.RFC1123Z
	RFC3339     = time.RFC3339
	RFC3339Nano = time.RFC3339Nano
	Kitchen     = time.Kitchen
	Stamp       = time.Stamp
	StampMilli  = time.StampMilli
	StampMicro  = time.StampMicro
	StampNano   = time.StampNano
	DateTime    = time.DateTime
	DateOnly    = time.DateOnly
	TimeOnly    = time.TimeOnly

	Nanosecond  = time.Nanosecond
	Microsecond = time.Microsecond
	Millisecond = time.Millisecond
	Second      = time.Second
	Minute      = time.Minute
	Hour        = time.Hour

	January   = time.January
	February  = time.February
	March     = time.March
	April     = time.April
	May       = time.May
	June      = time.June
	July      = time.July
	August    = time.August
	September = time.September
	October   = time.October
	November  = time.November
	December  = time.December

	Sunday    = time.Sunday
	Monday    = time.Monday
	Tuesday   = time.Tuesday
	Wednesday = time.Wednesday
	Thursday  = time.Thursday
	Friday    = time.Friday
	Saturday  = time.Saturday
)

var (
	Local = time.Local
	UTC   = time.UTC
)

var (
	After                  = time.After
	Sleep                  = time.Sleep
	Tick                   = time.Tick
	ParseDuration          = time.ParseDuration
	FixedZone              = time.FixedZone
	LoadLocation           = time.LoadLocation
	LoadLocationFromTZData = time.LoadLocationFromTZData
	NewTicker              = time.NewTicker
	Date                   = time.Date
	Parse                  = time.Parse
	ParseInLocation        = time.ParseInLocation
	Unix                   = time.Unix
	UnixMicro              = time.UnixMicro
	UnixMilli              = time.UnixMilli
	NewTimer               = time.NewTimer
)

var offset atomic.Int64

func init() {
	if s := os.Getenv("VERIF_CLOCK_OFFSET"); s != "" {
		if d, err := time.ParseDuration(s); err == nil {
			offset.Store(int64(d))
		}
	}
}

// SetOffset shifts the clock seen by the rewritten packages.
func SetOffset(d time.Duration) { offset.Store(int64(d)) }
func Offset() time.Duration     { return time.Duration(offset.Load()) }

// Advance moves the process-wide clock forward (a replica that applies its log slowly).
func Advance(d time.Duration) { offset.Add(int64(d)) }

func Now() time.Time {
	if o := offset.Load(); o != 0 {
		return time.Now().Add(time.Duration(o))
	}
	return time.Now()
}
func Since(t time.Time) time.Duration { return Now().Sub(t) }
func Until(t time.Time) time.Duration { return t.Sub(Now()) }

// parkTimers: timers created through AfterFunc are created stopped. The code under test sees a
// timer that simply has not fired yet; the harness thereby owns the one timer-driven transition
// (cache eviction) instead of the wall clock, and finished executions are not kept alive by the
// runtime's timer heap.
var parkTimers atomic.Bool

func ParkTimers(on bool) { parkTimers.Store(on) }

func AfterFunc(d Duration, f func()) *Timer {
	t := time.AfterFunc(d, f)
	if parkTimers.Load() {
		t.Stop()
	}
	return t
}
