// mcxds: checks that need agent/xds.
package main

import (
	"flag"
	"fmt"
	"os"

	"github.com/hashicorp/consul/internal/verifmc/c14"
	"github.com/hashicorp/consul/internal/verifmc/ev"
)

func main() {
	id := flag.String("id", "", "property id")
	tier := flag.String("tier", "quick", "quick|thorough")
	flag.Parse()
	if *id != "C14" {
		fmt.Fprintf(os.Stderr, "unknown check %q\n", *id)
		os.Exit(3)
	}
	c := ev.New(*id, *tier, "translation_validation")
	c14.Run(c)
	os.Exit(c.Finish())
}
