// mcstate: checks that need fsm/state/stream/acl/structs but not package consul or xds.
package main

import (
	"flag"
	"fmt"
	"os"
	"runtime/pprof"

	"github.com/hashicorp/consul/internal/verifmc/c01"
	"github.com/hashicorp/consul/internal/verifmc/c02"
	"github.com/hashicorp/consul/internal/verifmc/c07"
	"github.com/hashicorp/consul/internal/verifmc/c08"
	"github.com/hashicorp/consul/internal/verifmc/c15"
	"github.com/hashicorp/consul/internal/verifmc/c18"
	"github.com/hashicorp/consul/internal/verifmc/c20"
	"github.com/hashicorp/consul/internal/verifmc/ev"
)

type checkDef struct {
	level string
	run   func(*ev.Ctx)
}

var checks = map[string]checkDef{
	"C01": {"model_checking", c01.Run},
	"C02": {"model_checking", c02.Run},
	"C07": {"model_checking", c07.Run},
	"C08": {"exploration", c08.Run},
	"C15": {"exploration", c15.Run},
	"C18": {"model_checking", c18.Run},
	"C20": {"fault_enumeration", c20.Run},
}

func main() {
	id := flag.String("id", "", "property id")
	tier := flag.String("tier", "quick", "quick|thorough")
	prof := flag.String("cpuprofile", "", "write cpu profile")
	flag.Parse()
	if *prof != "" {
		f, _ := os.Create(*prof)
		pprof.StartCPUProfile(f)
		defer pprof.StopCPUProfile()
	}
	cd, ok := checks[*id]
	if !ok {
		fmt.Fprintf(os.Stderr, "unknown check %q\n", *id)
		os.Exit(3)
	}
	c := ev.New(*id, *tier, cd.level)
	cd.run(c)
	if os.Getenv("VERIF_GUARD_WORKER") != "" {
		os.Exit(0)
	}
	code := c.Finish()
	if *prof != "" {
		pprof.StopCPUProfile()
	}
	os.Exit(code)
}
