// mcserver: checks that need package agent/consul (resolver, CA manager, replication) or agent/local.
package main

import (
	"runtime/pprof"
	"flag"
	"fmt"
	"os"

	"github.com/hashicorp/consul/internal/verifmc/c03"
	"github.com/hashicorp/consul/internal/verifmc/c04"
	"github.com/hashicorp/consul/internal/verifmc/c05"
	"github.com/hashicorp/consul/internal/verifmc/c06"
	"github.com/hashicorp/consul/internal/verifmc/c08"
	"github.com/hashicorp/consul/internal/verifmc/c08r"
	"github.com/hashicorp/consul/internal/verifmc/c08s"
	"github.com/hashicorp/consul/internal/verifmc/c09"
	"github.com/hashicorp/consul/internal/verifmc/c10"
	"github.com/hashicorp/consul/internal/verifmc/c11"
	"github.com/hashicorp/consul/internal/verifmc/c12"
	"github.com/hashicorp/consul/internal/verifmc/c13"
	"github.com/hashicorp/consul/internal/verifmc/c16"
	"github.com/hashicorp/consul/internal/verifmc/c17"
	"github.com/hashicorp/consul/internal/verifmc/c19"
	"github.com/hashicorp/consul/internal/verifmc/ev"
)

type checkDef struct {
	level string
	run   func(*ev.Ctx)
}

var checks = map[string]checkDef{
	"C03": {"model_checking", c03.Run},
	"C04": {"model_checking", c04.Run},
	"C05": {"model_checking", c05.Run},
	"C06": {"model_checking", c06.Run},
	"C08": {"exploration", func(c *ev.Ctx) { c08.Run(c); c08r.Run(c); c08s.Run(c) }},
	"C09": {"exploration", c09.Run},
	"C10": {"exploration", c10.Run},
	"C11": {"model_checking", c11.Run},
	"C12": {"exploration", c12.Run},
	"C13": {"exploration", c13.Run},
	"C16": {"fault_enumeration", c16.Run},
	"C17": {"model_checking", c17.Run},
	"C19": {"exploration", c19.Run},
}

func main() {
	id := flag.String("id", "", "property id")
	tier := flag.String("tier", "quick", "quick|thorough")
	flag.Parse()
	cd, ok := checks[*id]
	if !ok {
		fmt.Fprintf(os.Stderr, "unknown check %q\n", *id)
		os.Exit(3)
	}
	if pf := os.Getenv("VERIF_CPUPROFILE"); pf != "" {
		f, err := os.Create(pf)
		if err == nil {
			pprof.StartCPUProfile(f)
			defer pprof.StopCPUProfile()
		}
	}
	c := ev.New(*id, *tier, cd.level)
	cd.run(c)
	if os.Getenv("VERIF_GUARD_WORKER") != "" {
		os.Exit(0)
	}
	code := c.Finish()
	pprof.StopCPUProfile()
	os.Exit(code)
}
