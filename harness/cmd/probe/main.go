package main

import (
	"fmt"

	"github.com/hashicorp/consul/agent/structs"
	"github.com/hashicorp/consul/internal/verifmc/cmdlib"
	"github.com/hashicorp/consul/internal/verifmc/world"
)

func main() {
	w := world.New()
	n1 := cmdlib.NodeSpec{Node: "n1", ID: "id1"}
	ops := []world.Op{cmdlib.Ingress("igw", "http", "*").Upsert(), cmdlib.RegService(n1, cmdlib.SvcSpec{Name: "db", Native: true, Port: 5432})}
	for _, o := range ops {
		r, _ := w.Apply(o)
		fmt.Println(o.Name, "=>", r)
	}
	d := w.Dump(nil)
	for _, t := range []string{"gateway-services", "mesh-topology", "services", "config-entries"} {
		for _, r := range d[t] {
			fmt.Println(t, r)
		}
	}
	_ = structs.ServiceKindTypical
}
