// Package e1 is the explicit-state search over operation sequences (DESIGN §2.2): level-
// synchronous BFS; a state is the op history reaching it; dedup on the rank-compressed canonical
// dump.
//
// Successor computation. The parent state is always rebuilt by replaying its history on a fresh
// real object. Its children are then computed either
//   - Fresh mode: by a fresh replay per child (no sharing at all), or
//   - Clone mode (default): on a copy-on-write clone of the freshly replayed parent
//     (memdb.Snapshot; hooks VerifClone). Two guards keep this honest: (1) after all children of a
//     parent ran, the parent is dumped again and must be byte-identical to its dump before (an
//     in-place mutation of a shared row would show here; the parent is then re-expanded in Fresh
//     mode); (2) a violation raised on a clone is only reported after it has been reproduced by a
//     fresh replay of the whole history.
package e1

import (
	"fmt"
	"os"
	"runtime"
	"sort"
	"sync"
	"sync/atomic"

	"github.com/hashicorp/consul/internal/verifmc/ev"
	"github.com/hashicorp/consul/internal/verifmc/world"
)

type Node struct {
	Seed int
	Path []int // indexes into Alphabet
}

// Trans is handed to the transition oracle. Pre is whatever Config.Pre returned on the same
// object before the op was applied.
type Trans struct {
	W      *world.World
	Node   Node
	Op     world.Op
	OpIdx  int
	Pre    any
	Result string
	Hist   []string // op names incl. seed and this op
	Depth  int
	// Fresh: this transition runs on a freshly replayed instance (not a clone).
	Fresh bool

	viol []pendingViol
}

type pendingViol struct {
	sig, msg string
	replay   any
}

// Violate records a property violation on this transition. The search does not continue from a
// state in which oracle and implementation already disagree (no cascades).
func (t *Trans) Violate(sig, msg string) {
	t.viol = append(t.viol, pendingViol{sig, msg + "\nhistory: " + join(t.Hist), map[string]any{"ops": t.Hist}})
}

func join(h []string) string {
	s := ""
	for i, x := range h {
		if i > 0 {
			s += " ; "
		}
		s += x
	}
	return s
}

type Config struct {
	Ctx      *ev.Ctx
	Seeds    [][]world.Op
	Alphabet []world.Op
	MaxDepth int
	Workers  int
	New      func() *world.World
	// CloneAux clones the reference model carried in World.Aux (nil if no model).
	CloneAux func(any) any
	// Fresh forces a fresh replay per transition (needed when the oracle observes watch channels
	// or anything else a memdb clone does not reproduce).
	Fresh bool
	// Key overrides the dedup key (default: w.Key()).
	Key func(w *world.World) string
	// Pre observes the state before an op (runs on the object the op is then applied to).
	Pre func(w *world.World) any
	// Post is the transition oracle.
	Post func(t *Trans)
	// State is the state-invariant oracle, called once per distinct state (on a fresh replay).
	State func(w *world.World, hist []string, depth int, violate func(sig, msg string))
	MaxStates int
	// AuditMerges: number of merged states whose successors are compared with the representative's.
	AuditMerges int
	// ExpandFilter, if set, decides whether op i is tried from a node (to build focused sub-alphabets
	// per depth, e.g. "only ops touching what the seed created").
	ExpandFilter func(n Node, depth int, op int) bool
	// KeepNodes: return the list of distinct states in Stats.Nodes.
	KeepNodes bool
}

type Stats struct {
	States, Transitions, Disabled, Pruned int64
	MaxDepth                              int
	DistinctResults                       int
	AuditChecked, AuditMismatch           int
	Complete                              bool
	PerDepth                              []int
	Nodes                                 []Node // all distinct states (when Config.KeepNodes)
	CloneAliasParents                     int64 // parents whose dump changed under their clones (re-run fresh)
	CloneOnlyAlarms                       int64 // alarms on a clone not reproduced by fresh replay
	ConfirmedFresh                        int64 // violations confirmed by fresh replay
}

type cand struct {
	key  string
	node Node
}

func (c *Config) build(n Node) *world.World {
	w := c.New()
	w.ApplyAll(c.Seeds[n.Seed])
	for _, i := range n.Path {
		if _, ok := w.Apply(c.Alphabet[i]); !ok {
			panic(fmt.Sprintf("e1: replay diverged: op %s not enabled", c.Alphabet[i].Name))
		}
	}
	return w
}

func (c *Config) key(w *world.World) string {
	if c.Key != nil {
		return c.Key(w)
	}
	return w.Key()
}

// Ops returns the full op list (seed + path) reaching n.
func (c *Config) Ops(n Node) []world.Op {
	ops := append([]world.Op{}, c.Seeds[n.Seed]...)
	for _, i := range n.Path {
		ops = append(ops, c.Alphabet[i])
	}
	return ops
}

func (c *Config) HistNames(n Node, extra ...int) []string {
	var h []string
	for _, o := range c.Seeds[n.Seed] {
		h = append(h, o.Name)
	}
	if len(c.Seeds[n.Seed]) > 0 {
		h = append(h, "--")
	}
	for _, i := range n.Path {
		h = append(h, c.Alphabet[i].Name)
	}
	for _, i := range extra {
		h = append(h, c.Alphabet[i].Name)
	}
	return h
}

// step runs one transition on w (already in the parent state). Returns the transition (nil if the
// op is not enabled).
func (c *Config) step(w *world.World, n Node, oi int, depth int, fresh bool) *Trans {
	op := c.Alphabet[oi]
	var pre any
	if c.Pre != nil {
		pre = c.Pre(w)
	}
	res, ok := w.Apply(op)
	if !ok {
		return nil
	}
	t := &Trans{W: w, Node: n, Op: op, OpIdx: oi, Pre: pre, Result: res, Hist: c.HistNames(n, oi), Depth: depth, Fresh: fresh}
	if c.Post != nil {
		c.Post(t)
	}
	return t
}

func Run(c *Config) Stats {
	if c.New == nil {
		c.New = world.New
	}
	if c.Workers == 0 {
		c.Workers = runtime.NumCPU()
	}
	if len(c.Seeds) == 0 {
		c.Seeds = [][]world.Op{nil}
	}
	var st Stats
	seen := map[string]Node{}
	results := map[string]struct{}{}
	var resMu sync.Mutex
	type merge struct{ rep, dup Node }
	var merges []merge
	stateViolate := func(hist []string) func(sig, msg string) {
		return func(sig, msg string) {
			c.Ctx.Violate(sig, msg+"\nhistory: "+join(hist), map[string]any{"ops": hist})
		}
	}

	var frontier []Node
	for i := range c.Seeds {
		n := Node{Seed: i}
		w := c.build(n)
		k := c.key(w)
		if _, ok := seen[k]; ok {
			continue
		}
		seen[k] = n
		frontier = append(frontier, n)
		if c.State != nil {
			h := c.HistNames(n)
			c.State(w, h, 0, stateViolate(h))
		}
	}
	st.States = int64(len(frontier))
	st.PerDepth = append(st.PerDepth, len(frontier))
	st.Complete = true
	if c.KeepNodes {
		st.Nodes = append(st.Nodes, frontier...)
	}

	for depth := 1; depth <= c.MaxDepth && len(frontier) > 0; depth++ {
		if c.Ctx.Expired() {
			st.Complete = false
			break
		}
		out := make([][]cand, len(frontier))
		var next int64 = -1
		var trans, disabled, pruned int64
		var wg sync.WaitGroup
		var stop atomic.Bool
		for wk := 0; wk < c.Workers; wk++ {
			wg.Add(1)
			go func() {
				defer wg.Done()
				localRes := map[string]struct{}{}
				// handle finishes one executed transition: violations (confirmed fresh), candidates.
				handle := func(i int, n Node, oi int, t *Trans) {
					atomic.AddInt64(&trans, 1)
					localRes[t.Op.Kind+"=>"+t.Result] = struct{}{}
					if len(t.viol) > 0 {
						viol := t.viol
						allSeen := true
						for _, v := range viol {
							if !c.Ctx.HasSig(v.sig) {
								allSeen = false
							}
						}
						if !t.Fresh && !allSeen {
							ft := c.step(c.build(n), n, oi, depth, true)
							if ft == nil || len(ft.viol) == 0 {
								atomic.AddInt64(&st.CloneOnlyAlarms, 1)
								fmt.Fprintf(os.Stderr, "HARNESS-WARNING: alarm on clone not reproduced on fresh replay: %s\n  %v\n", viol[0].sig, t.Hist)
								viol = nil
							} else {
								viol = ft.viol
								atomic.AddInt64(&st.ConfirmedFresh, 1)
							}
						}
						for _, v := range viol {
							c.Ctx.Violate(v.sig, v.msg, v.replay)
						}
						if len(viol) > 0 {
							atomic.AddInt64(&pruned, 1)
							return
						}
					}
					np := make([]int, len(n.Path)+1)
					copy(np, n.Path)
					np[len(n.Path)] = oi
					out[i] = append(out[i], cand{c.key(t.W), Node{Seed: n.Seed, Path: np}})
				}
				for {
					i := int(atomic.AddInt64(&next, 1))
					if i >= len(frontier) || stop.Load() {
						break
					}
					if i%16 == 0 && c.Ctx.Expired() {
						stop.Store(true)
						break
					}
					n := frontier[i]
					expandFresh := func() {
						for oi := range c.Alphabet {
							if c.ExpandFilter != nil && !c.ExpandFilter(n, depth, oi) {
								continue
							}
							t := c.step(c.build(n), n, oi, depth, true)
							if t == nil {
								atomic.AddInt64(&disabled, 1)
								continue
							}
							handle(i, n, oi, t)
						}
					}
					if c.Fresh {
						expandFresh()
						continue
					}
					parent := c.build(n)
					before := c.key(parent)
					savedOut := len(out[i])
					for oi := range c.Alphabet {
						if c.ExpandFilter != nil && !c.ExpandFilter(n, depth, oi) {
							continue
						}
						var aux any
						if c.CloneAux != nil {
							aux = c.CloneAux(parent.Aux)
						}
						t := c.step(parent.Clone(aux), n, oi, depth, false)
						if t == nil {
							atomic.AddInt64(&disabled, 1)
							continue
						}
						handle(i, n, oi, t)
					}
					if c.key(parent) != before {
						// aliasing between parent and clones: discard and redo without sharing
						atomic.AddInt64(&st.CloneAliasParents, 1)
						out[i] = out[i][:savedOut]
						expandFresh()
					}
				}
				resMu.Lock()
				for k := range localRes {
					results[k] = struct{}{}
				}
				resMu.Unlock()
			}()
		}
		wg.Wait()
		st.Transitions += trans
		st.Disabled += disabled
		st.Pruned += pruned
		if stop.Load() {
			st.Complete = false
		}
		// deterministic merge
		var nf []Node
		for _, cs := range out {
			for _, cd := range cs {
				if rep, ok := seen[cd.key]; ok {
					if len(merges) < c.AuditMerges {
						merges = append(merges, merge{rep, cd.node})
					}
					continue
				}
				seen[cd.key] = cd.node
				nf = append(nf, cd.node)
			}
		}
		st.MaxDepth = depth
		st.States += int64(len(nf))
		st.PerDepth = append(st.PerDepth, len(nf))
		if c.KeepNodes {
			st.Nodes = append(st.Nodes, nf...)
		}
		// state invariants on new states (parallel, fresh replay)
		if c.State != nil {
			var nx int64 = -1
			var wg2 sync.WaitGroup
			for wk := 0; wk < c.Workers; wk++ {
				wg2.Add(1)
				go func() {
					defer wg2.Done()
					for {
						i := int(atomic.AddInt64(&nx, 1))
						if i >= len(nf) {
							return
						}
						if i%64 == 0 && c.Ctx.Expired() {
							return
						}
						w := c.build(nf[i])
						h := c.HistNames(nf[i])
						c.State(w, h, depth, stateViolate(h))
					}
				}()
			}
			wg2.Wait()
		}
		if c.MaxStates > 0 && int(st.States) > c.MaxStates && depth < c.MaxDepth {
			c.Ctx.Cap(fmt.Sprintf("state cap %d reached at depth %d", c.MaxStates, depth))
			st.Complete = false
			break
		}
		frontier = nf
	}
	st.DistinctResults = len(results)

	// abstraction audit: merged states must have the same successor keys as their representative
	{
		var nx int64 = -1
		var checked, mism int64
		var wg sync.WaitGroup
		for wk := 0; wk < c.Workers; wk++ {
			wg.Add(1)
			go func() {
				defer wg.Done()
				for {
					i := int(atomic.AddInt64(&nx, 1))
					if i >= len(merges) || c.Ctx.Expired() {
						return
					}
					m := merges[i]
					atomic.AddInt64(&checked, 1)
					pa, pb := c.build(m.rep), c.build(m.dup)
					for oi, op := range c.Alphabet {
						var xa, xb any
						if c.CloneAux != nil {
							xa, xb = c.CloneAux(pa.Aux), c.CloneAux(pb.Aux)
						}
						a, b := pa.Clone(xa), pb.Clone(xb)
						_, oka := a.Apply(op)
						_, okb := b.Apply(op)
						if oka != okb || (oka && c.key(a) != c.key(b)) {
							atomic.AddInt64(&mism, 1)
							fmt.Fprintf(os.Stderr, "HARNESS-ERROR: abstraction audit mismatch op=%s\n rep=%v\n dup=%v\n",
								op.Name, c.HistNames(m.rep), c.HistNames(m.dup, oi))
							break
						}
					}
				}
			}()
		}
		wg.Wait()
		st.AuditChecked, st.AuditMismatch = int(checked), int(mism)
	}
	return st
}

// Report copies the statistics into the evidence.
func (s Stats) Report(c *ev.Ctx, prefix string) {
	c.Add("states", s.States)
	c.Add("transitions", s.Transitions)
	c.Add("traces_validated_against_impl", s.Transitions)
	cur, _ := c.Cov["max_depth"].(int)
	if s.MaxDepth > cur {
		c.Set("max_depth", s.MaxDepth)
	}
	c.Set(prefix+"states_per_depth", s.PerDepth)
	c.Set(prefix+"distinct_results", s.DistinctResults)
	c.Set(prefix+"pruned_after_violation", s.Pruned)
	c.Set(prefix+"abstraction_audit", map[string]int{"merged_states_expanded": s.AuditChecked, "mismatches": s.AuditMismatch})
	c.Set(prefix+"clone_guard", map[string]int64{"parents_reexpanded_fresh": s.CloneAliasParents,
		"clone_only_alarms": s.CloneOnlyAlarms, "violations_confirmed_on_fresh_replay": s.ConfirmedFresh})
	if s.AuditMismatch > 0 {
		c.HarnessError(fmt.Sprintf("%sabstraction audit: %d mismatches", prefix, s.AuditMismatch))
	}
	if !s.Complete {
		c.Cap(prefix + "search stopped before the planned depth")
	}
}

func SortedKeys(m map[string]int) []string {
	var ks []string
	for k := range m {
		ks = append(ks, k)
	}
	sort.Strings(ks)
	return ks
}
