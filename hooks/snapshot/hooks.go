//go:build verif

package snapshot

import (
	"io"

	"github.com/hashicorp/raft"
)

// VerifWrite / VerifRead expose the archive writer and reader.
func VerifWrite(out io.Writer, metadata *raft.SnapshotMeta, snap io.Reader) error {
	return write(out, metadata, snap)
}

func VerifRead(in io.Reader, metadata *raft.SnapshotMeta, snap io.Writer) error {
	return read(in, metadata, snap)
}
