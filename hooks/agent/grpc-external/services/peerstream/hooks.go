//go:build verif

package peerstream

import (
	"context"
	"strings"
	"time"

	"github.com/hashicorp/go-hclog"

	"github.com/hashicorp/consul/agent/cache"
	"github.com/hashicorp/consul/agent/structs"
	"github.com/hashicorp/consul/proto/private/pbpeerstream"
	"github.com/hashicorp/consul/proto/private/pbservice"
)

// VerifServiceResponse builds the message the exporting side sends for one service (makeServiceResponse).
func VerifServiceResponse(service string, nodes structs.CheckServiceNodes) (*pbpeerstream.ReplicationMessage_Response, error) {
	pb := &pbservice.IndexedCheckServiceNodes{}
	for i := range nodes {
		pb.Nodes = append(pb.Nodes, pbservice.NewCheckServiceNodeFromStructs(&nodes[i]))
	}
	r, err := makeServiceResponse(cache.UpdateEvent{CorrelationID: subExportedService + service, Result: pb})
	if r != nil {
		r.Nonce = "verif"
	}
	return r, err
}

// VerifExportedListResponse builds the exported-service-list message (makeExportedServiceListResponse).
func VerifExportedListResponse(services []string) (*pbpeerstream.ReplicationMessage_Response, error) {
	mst := newMutableStatus(time.Now, true)
	r, err := makeExportedServiceListResponse(mst, cache.UpdateEvent{CorrelationID: subExportedServiceList, Result: &pbpeerstream.ExportedServiceList{Services: services}})
	if r != nil {
		r.Nonce = "verif"
	}
	return r, err
}

// VerifProcessResponse is the importing side's handling of one received response.
func (s *Server) VerifProcessResponse(peerName, partition string, resp *pbpeerstream.ReplicationMessage_Response) (*pbpeerstream.ReplicationMessage, []string, error) {
	mst := newMutableStatus(time.Now, true)
	reply, err := s.processResponse(peerName, partition, mst, resp)
	mst.mu.RLock()
	imported := append([]string{}, mst.ImportedServices...)
	mst.mu.RUnlock()
	return reply, imported, err
}

// VerifExporter runs the exporting side's real subscription manager for one peer: the returned channel carries
// what would be sent to that peer (exported-service-list, exported-service:<name>, ...).
func VerifExporter(ctx context.Context, backend SubscriptionBackend, getStore func() StateStore, datacenter, peerID, peerName string) <-chan cache.UpdateEvent {
	tracker := newResourceSubscriptionTracker()
	tracker.Subscribe(pbpeerstream.TypeURLExportedService)
	tracker.Subscribe(pbpeerstream.TypeURLExportedServiceList)
	mgr := newSubscriptionManager(ctx, hclog.NewNullLogger(), Config{Datacenter: datacenter, ConnectEnabled: false}, "11111111-2222-3333-4444-555555555555.consul", backend, getStore, tracker)
	return mgr.subscribe(ctx, peerID, peerName, "default")
}

// VerifExportedServiceName extracts <name> from the correlation id of an exported-service update ("" otherwise).
func VerifExportedServiceName(correlationID string) string {
	if strings.HasPrefix(correlationID, subExportedService) {
		return strings.TrimPrefix(correlationID, subExportedService)
	}
	return ""
}

// VerifIsExportedList reports whether the update is the exported-service-list, and returns the names.
func VerifIsExportedList(u cache.UpdateEvent) ([]string, bool) {
	if u.CorrelationID != subExportedServiceList {
		return nil, false
	}
	l, ok := u.Result.(*pbpeerstream.ExportedServiceList)
	if !ok {
		return nil, true
	}
	return l.Services, true
}
