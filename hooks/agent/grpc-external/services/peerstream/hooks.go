//go:build verif

package peerstream

import (
	"time"

	"github.com/hashicorp/consul/agent/cache"
	"github.com/hashicorp/consul/agent/structs"
	"github.com/hashicorp/consul/proto/private/pbpeerstream"
	"github.com/hashicorp/consul/proto/private/pbservice"
)

// VerifServiceResponse builds the message the exporting side sends for one service (makeServiceResponse).
func VerifServiceResponse(service string, nodes structs.CheckServiceNodes) (*pbpeerstream.ReplicationMessage_Response, error) {
	pb := &pbservice.IndexedCheckServiceNodes{}
	for i := range nodes {
		pb.Nodes = append(pb.Nodes, pbservice.NewCheckServiceNodeFromStructs(&nodes[i]))
	}
	r, err := makeServiceResponse(cache.UpdateEvent{CorrelationID: subExportedService + service, Result: pb})
	if r != nil {
		r.Nonce = "verif"
	}
	return r, err
}

// VerifExportedListResponse builds the exported-service-list message (makeExportedServiceListResponse).
func VerifExportedListResponse(services []string) (*pbpeerstream.ReplicationMessage_Response, error) {
	mst := newMutableStatus(time.Now, true)
	r, err := makeExportedServiceListResponse(mst, cache.UpdateEvent{CorrelationID: subExportedServiceList, Result: &pbpeerstream.ExportedServiceList{Services: services}})
	if r != nil {
		r.Nonce = "verif"
	}
	return r, err
}

// VerifProcessResponse is the importing side's handling of one received response.
func (s *Server) VerifProcessResponse(peerName, partition string, resp *pbpeerstream.ReplicationMessage_Response) (*pbpeerstream.ReplicationMessage, []string, error) {
	mst := newMutableStatus(time.Now, true)
	reply, err := s.processResponse(peerName, partition, mst, resp)
	mst.mu.RLock()
	imported := append([]string{}, mst.ImportedServices...)
	mst.mu.RUnlock()
	return reply, imported, err
}
