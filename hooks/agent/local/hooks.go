//go:build verif

package local

// VerifFlags returns the sync bookkeeping of every entry including deletion markers:
// id -> {InSync, Deleted}.
func (l *State) VerifFlags() (svcs, checks map[string][2]bool, nodeInSync bool) {
	l.RLock()
	defer l.RUnlock()
	svcs, checks = map[string][2]bool{}, map[string][2]bool{}
	for id, s := range l.services {
		svcs[id.ID] = [2]bool{s.InSync, s.Deleted}
	}
	for id, c := range l.checks {
		checks[string(id.ID)] = [2]bool{c.InSync, c.Deleted}
	}
	return svcs, checks, l.nodeInfoInSync
}
