//go:build verif

package state

import "time"

// VerifClone returns a writable copy-on-write clone of the store (memdb.Snapshot shares the
// immutable radix trees). Used by the E1 explorer to branch from a freshly replayed parent state;
// the explorer guards against aliasing by re-dumping the parent afterwards and confirms every
// violation on a freshly replayed instance.
func (s *Store) VerifClone(pub EventPublisher) *Store {
	d := NewDelay()
	s.lockDelay.lock.RLock()
	for k, v := range s.lockDelay.delay {
		d.delay[k] = v
	}
	s.lockDelay.lock.RUnlock()
	return &Store{
		schema:       s.schema,
		abandonCh:    make(chan struct{}),
		kvsGraveyard: s.kvsGraveyard,
		lockDelay:    d,
		db: &changeTrackerDB{
			db:             s.db.db.Snapshot(),
			publisher:      pub,
			processChanges: s.db.processChanges,
		},
	}
}

// VerifLockDelays exposes the (deliberately unreplicated) lock-delay map.
func (s *Store) VerifLockDelays() map[string]time.Time {
	out := map[string]time.Time{}
	s.lockDelay.lock.RLock()
	for k, v := range s.lockDelay.delay {
		out[k] = v
	}
	s.lockDelay.lock.RUnlock()
	return out
}

// VerifWalk visits every row of every table in a plain read transaction.
func (s *Store) VerifWalk(fn func(table string, item interface{})) {
	tx := s.db.ReadTxn()
	defer tx.Abort()
	for name := range s.schema.Tables {
		iter, err := tx.Get(name, indexID)
		if err != nil {
			panic(err)
		}
		for item := iter.Next(); item != nil; item = iter.Next() {
			fn(name, item)
		}
	}
}

// VerifSessionCheck is an exported view of a session_checks row.
type VerifSessionCheck struct{ Node, Session, CheckID string }

// VerifSessionChecks lists the session_checks table.
func (s *Store) VerifSessionChecks() []VerifSessionCheck {
	tx := s.db.ReadTxn()
	defer tx.Abort()
	iter, err := tx.Get(tableSessionChecks, indexID)
	if err != nil {
		panic(err)
	}
	var out []VerifSessionCheck
	for raw := iter.Next(); raw != nil; raw = iter.Next() {
		sc := raw.(*sessionCheck)
		out = append(out, VerifSessionCheck{Node: sc.Node, Session: sc.Session, CheckID: string(sc.CheckID.ID)})
	}
	return out
}

// VerifMaxHint returns the highest index hinted to the tombstone GC so far (0 if none).
func (t *TombstoneGC) VerifMaxHint() uint64 {
	t.Lock()
	defer t.Unlock()
	var m uint64
	for _, e := range t.expires {
		if e.maxIndex > m {
			m = e.maxIndex
		}
	}
	return m
}

// VerifUpDown is an exported view of a mesh-topology row.
type VerifUpDown struct {
	Upstream, Downstream string
	Refs                 []string
}

func (s *Store) VerifMeshTopology() []VerifUpDown {
	tx := s.db.ReadTxn()
	defer tx.Abort()
	iter, err := tx.Get(tableMeshTopology, indexID)
	if err != nil {
		panic(err)
	}
	var out []VerifUpDown
	for raw := iter.Next(); raw != nil; raw = iter.Next() {
		m := raw.(*upstreamDownstream)
		r := VerifUpDown{Upstream: m.Upstream.Name, Downstream: m.Downstream.Name}
		for k := range m.Refs {
			r.Refs = append(r.Refs, k)
		}
		out = append(out, r)
	}
	return out
}

// VerifFreeVIPs lists the free-virtual-ips table.
func (s *Store) VerifFreeVIPs() []FreeVirtualIP {
	tx := s.db.ReadTxn()
	defer tx.Abort()
	iter, err := tx.Get(tableFreeVirtualIPs, indexID)
	if err != nil {
		panic(err)
	}
	var out []FreeVirtualIP
	for raw := iter.Next(); raw != nil; raw = iter.Next() {
		out = append(out, raw.(FreeVirtualIP))
	}
	return out
}

// VerifTable returns the raw rows of one table.
func (s *Store) VerifTable(name string) []interface{} {
	tx := s.db.ReadTxn()
	defer tx.Abort()
	iter, err := tx.Get(name, indexID)
	if err != nil {
		panic(err)
	}
	var out []interface{}
	for raw := iter.Next(); raw != nil; raw = iter.Next() {
		out = append(out, raw)
	}
	return out
}
