//go:build verif

package state

import "time"

// VerifClone returns a writable copy-on-write clone of the store (memdb.Snapshot shares the
// immutable radix trees). Used by the E1 explorer to branch from a freshly replayed parent state;
// the explorer guards against aliasing by re-dumping the parent afterwards and confirms every
// violation on a freshly replayed instance.
func (s *Store) VerifClone(pub EventPublisher) *Store {
	d := NewDelay()
	s.lockDelay.lock.RLock()
	for k, v := range s.lockDelay.delay {
		d.delay[k] = v
	}
	s.lockDelay.lock.RUnlock()
	return &Store{
		schema:       s.schema,
		abandonCh:    make(chan struct{}),
		kvsGraveyard: s.kvsGraveyard,
		lockDelay:    d,
		db: &changeTrackerDB{
			db:             s.db.db.Snapshot(),
			publisher:      pub,
			processChanges: s.db.processChanges,
		},
	}
}

// VerifLockDelays exposes the (deliberately unreplicated) lock-delay map.
func (s *Store) VerifLockDelays() map[string]time.Time {
	out := map[string]time.Time{}
	s.lockDelay.lock.RLock()
	for k, v := range s.lockDelay.delay {
		out[k] = v
	}
	s.lockDelay.lock.RUnlock()
	return out
}

// VerifWalk visits every row of every table in a plain read transaction.
func (s *Store) VerifWalk(fn func(table string, item interface{})) {
	tx := s.db.ReadTxn()
	defer tx.Abort()
	for name := range s.schema.Tables {
		iter, err := tx.Get(name, indexID)
		if err != nil {
			panic(err)
		}
		for item := iter.Next(); item != nil; item = iter.Next() {
			fn(name, item)
		}
	}
}
