//go:build verif

package state

// VerifSetWatchLimit replaces the soft cap on fine-grained watch channels per blocking query and
// returns the previous value, so that the coarse fallback watches can be reached with a handful of
// instances instead of thousands.
func VerifSetWatchLimit(n int) int {
	old := watchLimit
	watchLimit = n
	return old
}
