//go:build verif

package consul

import (
	"fmt"

	"github.com/hashicorp/consul/agent/consul/state"
	"github.com/hashicorp/consul/agent/structs"
)

// VerifCatalogRegisterPreApply is Catalog.Register between token resolution and raftApply,
// without the ACL vetting (the harness injects ACL refusals as faults).
func VerifCatalogRegisterPreApply(st *state.Store, args *structs.RegisterRequest) error {
	if hasPeerNameInRequest(args) {
		return fmt.Errorf("cannot register requests with PeerName in them")
	}
	if _, err := st.ValidateRegisterRequest(args); err != nil {
		return err
	}
	if err := nodePreApply(args.Node, string(args.ID)); err != nil {
		return err
	}
	if args.Address == "" && !args.SkipNodeUpdate {
		return fmt.Errorf("Must provide address if SkipNodeUpdate is not set")
	}
	if args.Service != nil {
		if err := servicePreApplyValidate(args.Service); err != nil {
			return err
		}
	}
	if args.Check != nil {
		args.Checks = append(args.Checks, args.Check)
		args.Check = nil
	}
	for _, check := range args.Checks {
		if check.Node == "" {
			check.Node = args.Node
		}
		checkPreApply(check)
		if check.Type == "" {
			chkType := check.CheckType()
			check.Type = chkType.Type()
		}
	}
	return nil
}
