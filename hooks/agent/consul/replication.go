//go:build verif

package consul

import (
	"context"
	"fmt"

	"github.com/hashicorp/go-hclog"

	"github.com/hashicorp/consul/agent/consul/fsm"
	"github.com/hashicorp/consul/agent/structs"
)

// VerifApply applies one replicated write locally (the harness routes it into FSM.Apply).
type VerifApply func(t structs.MessageType, req interface{}) error

// VerifRemoteACL is the primary datacenter's content as the secondary sees it.
type VerifRemoteACL struct {
	Policies structs.ACLPolicies
	Roles    structs.ACLRoles
	Tokens   structs.ACLTokens
	Index    uint64
}

// wrappers: the real replicator types do the bookkeeping, sorting and metadata; only the four
// methods that talk to the network or to raft are replaced.

type verifPolicyRepl struct {
	aclPolicyReplicator
	remoteFull *VerifRemoteACL
	apply      VerifApply
}

func (r *verifPolicyRepl) FetchRemote(srv *Server, last uint64) (int, uint64, error) {
	r.remote = nil
	for _, p := range r.remoteFull.Policies {
		r.remote = append(r.remote, p.Stub())
	}
	return len(r.remote), r.remoteFull.Index, nil
}
func (r *verifPolicyRepl) FetchUpdated(srv *Server, updates []string) (int, error) {
	r.updated = nil
	for _, id := range updates {
		for _, p := range r.remoteFull.Policies {
			if p.ID == id {
				r.updated = append(r.updated, p.Clone())
			}
		}
	}
	return len(r.updated), nil
}
func (r *verifPolicyRepl) DeleteLocalBatch(srv *Server, batch []string) error {
	return r.apply(structs.ACLPolicyDeleteRequestType, &structs.ACLPolicyBatchDeleteRequest{PolicyIDs: batch})
}
func (r *verifPolicyRepl) UpdateLocalBatch(ctx context.Context, srv *Server, start, end int) error {
	return r.apply(structs.ACLPolicySetRequestType, &structs.ACLPolicyBatchSetRequest{Policies: r.updated[start:end]})
}

type verifRoleRepl struct {
	aclRoleReplicator
	remoteFull *VerifRemoteACL
	apply      VerifApply
}

func (r *verifRoleRepl) FetchRemote(srv *Server, last uint64) (int, uint64, error) {
	r.remote = nil
	for _, p := range r.remoteFull.Roles {
		r.remote = append(r.remote, p.Clone())
	}
	return len(r.remote), r.remoteFull.Index, nil
}
func (r *verifRoleRepl) FetchUpdated(srv *Server, updates []string) (int, error) {
	r.updated = nil
	for _, id := range updates {
		for _, p := range r.remoteFull.Roles {
			if p.ID == id {
				r.updated = append(r.updated, p.Clone())
			}
		}
	}
	return len(r.updated), nil
}
func (r *verifRoleRepl) DeleteLocalBatch(srv *Server, batch []string) error {
	return r.apply(structs.ACLRoleDeleteRequestType, &structs.ACLRoleBatchDeleteRequest{RoleIDs: batch})
}
func (r *verifRoleRepl) UpdateLocalBatch(ctx context.Context, srv *Server, start, end int) error {
	return r.apply(structs.ACLRoleSetRequestType, &structs.ACLRoleBatchSetRequest{Roles: r.updated[start:end], AllowMissingLinks: true})
}

type verifTokenRepl struct {
	aclTokenReplicator
	remoteFull *VerifRemoteACL
	apply      VerifApply
}

func (r *verifTokenRepl) FetchRemote(srv *Server, last uint64) (int, uint64, error) {
	r.remote = nil
	for _, t := range r.remoteFull.Tokens {
		if t.Local {
			continue // the primary never lists its local tokens to a secondary
		}
		r.remote = append(r.remote, t.Stub())
	}
	return len(r.remote), r.remoteFull.Index, nil
}
func (r *verifTokenRepl) FetchUpdated(srv *Server, updates []string) (int, error) {
	r.updated = nil
	for _, id := range updates {
		for _, t := range r.remoteFull.Tokens {
			if t.AccessorID == id {
				r.updated = append(r.updated, t.Clone())
			}
		}
	}
	return len(r.updated), nil
}
func (r *verifTokenRepl) DeleteLocalBatch(srv *Server, batch []string) error {
	return r.apply(structs.ACLTokenDeleteRequestType, &structs.ACLTokenBatchDeleteRequest{TokenIDs: batch})
}
func (r *verifTokenRepl) UpdateLocalBatch(ctx context.Context, srv *Server, start, end int) error {
	return r.apply(structs.ACLTokenSetRequestType, &structs.ACLTokenBatchSetRequest{Tokens: r.updated[start:end], CAS: false, AllowMissingLinks: true, FromReplication: true})
}

// VerifReplicateACLRound runs one real replication round (Server.replicateACLType: fetch, diff,
// delete, upsert) of the given kind against a canned primary, with local state in f.
func VerifReplicateACLRound(kind string, f *fsm.FSM, apply VerifApply, remote *VerifRemoteACL, lastRemoteIndex uint64) (uint64, error) {
	cfg := DefaultConfig()
	srv := &Server{config: cfg, fsm: f}
	var tr aclTypeReplicator
	switch kind {
	case "policy":
		tr = &verifPolicyRepl{remoteFull: remote, apply: apply}
	case "role":
		tr = &verifRoleRepl{remoteFull: remote, apply: apply}
	case "token":
		tr = &verifTokenRepl{remoteFull: remote, apply: apply}
	default:
		return 0, fmt.Errorf("unknown kind %q", kind)
	}
	idx, _, err := srv.replicateACLType(context.Background(), hclog.NewNullLogger(), tr, lastRemoteIndex)
	return idx, err
}

// VerifDiffConfigEntries exposes the config entry replication diff.
func VerifDiffConfigEntries(local, remote []structs.ConfigEntry, lastRemoteIndex uint64) (deletions, updates []structs.ConfigEntry) {
	return diffConfigEntries(local, remote, lastRemoteIndex)
}
