//go:build verif

package fsm

import (
	"sort"

	"github.com/hashicorp/consul/agent/consul/state"
	"github.com/hashicorp/consul/agent/structs"
)

// VerifSetState swaps the state store (and storage backend) the FSM dispatches to. The explorer
// uses one FSM as a pure dispatcher over copy-on-write clones of a replayed parent state.
func (c *FSM) VerifSetState(s *state.Store, be StorageBackend) {
	c.stateLock.Lock()
	c.state = s
	if be != nil {
		c.deps.StorageBackend = be
	}
	c.stateLock.Unlock()
}

// VerifSetNewStateStore replaces the constructor used by Restore.
func (c *FSM) VerifSetNewStateStore(f func() *state.Store) { c.deps.NewStateStore = f }

// VerifRegisteredCommands lists the message types with a registered apply handler.
func VerifRegisteredCommands() []structs.MessageType {
	var out []structs.MessageType
	for t := range commands {
		out = append(out, t)
	}
	sort.Slice(out, func(i, j int) bool { return out[i] < out[j] })
	return out
}

// VerifRegisteredRestorers lists the message types with a registered snapshot restorer.
func VerifRegisteredRestorers() []structs.MessageType {
	var out []structs.MessageType
	for t := range restorers {
		out = append(out, t)
	}
	sort.Slice(out, func(i, j int) bool { return out[i] < out[j] })
	return out
}
