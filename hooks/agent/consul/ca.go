//go:build verif

package consul

import (
	"context"
	"errors"
	"fmt"

	"github.com/hashicorp/go-hclog"

	"github.com/hashicorp/consul/agent/connect"
	"github.com/hashicorp/consul/agent/consul/state"
	"github.com/hashicorp/consul/agent/structs"
	"github.com/hashicorp/consul/lib/routine"
)

// VerifCADelegate is a caServerDelegate whose raft is the harness (it routes the two replicated
// CA commands into FSM.Apply, like caDelegateWithState does through raftApplyMsgpack).
type VerifCADelegate struct {
	StoreFn func() *state.Store
	ApplyFn func(t structs.MessageType, req interface{}) (interface{}, error)
	DC      string
	Primary string
	// ForwardFn answers RPCs to the primary datacenter (nil: there is none)
	ForwardFn func(method, dc string, args interface{}, reply interface{}) error
}

func (d *VerifCADelegate) State() *state.Store { return d.StoreFn() }
func (d *VerifCADelegate) IsLeader() bool      { return true }
func (d *VerifCADelegate) ProviderState(id string) (*structs.CAConsulProviderState, error) {
	_, s, err := d.StoreFn().CAProviderState(id)
	return s, err
}
func (d *VerifCADelegate) ApplyCARequest(req *structs.CARequest) (interface{}, error) {
	return d.ApplyFn(structs.ConnectCARequestType, req)
}
func (d *VerifCADelegate) ApplyCALeafRequest() (uint64, error) {
	req := structs.CALeafRequest{Op: structs.CALeafOpIncrementIndex, Datacenter: d.DC}
	resp, err := d.ApplyFn(structs.ConnectCALeafRequestType|structs.IgnoreUnknownTypeFlag, &req)
	if err != nil {
		return 0, err
	}
	modIdx, ok := resp.(uint64)
	if !ok {
		return 0, fmt.Errorf("Invalid response from updating the leaf cert index")
	}
	return modIdx, nil
}
func (d *VerifCADelegate) forwardDC(method, dc string, args interface{}, reply interface{}) error {
	if d.ForwardFn != nil {
		return d.ForwardFn(method, dc, args, reply)
	}
	return errors.New("verif: no other datacenter")
}
func (d *VerifCADelegate) generateCASignRequest(csr string) *structs.CASignRequest {
	return &structs.CASignRequest{Datacenter: d.Primary, CSR: csr}
}
func (d *VerifCADelegate) ServersSupportMultiDCConnectCA() error { return nil }

// VerifNewCAManager builds a real CAManager of a primary datacenter over the delegate.
func VerifNewCAManager(d *VerifCADelegate, caConfig *structs.CAConfiguration) *CAManager {
	conf := DefaultConfig()
	conf.Datacenter = d.DC
	conf.PrimaryDatacenter = d.Primary
	conf.ConnectEnabled = true
	conf.CAConfig = caConfig
	lg := hclog.NewNullLogger()
	return NewCAManager(d, routine.NewManager(lg), lg, conf)
}

// VerifProviderRoot is the root the manager currently signs under.
func (c *CAManager) VerifProviderRoot() *structs.CARoot {
	c.providerLock.RLock()
	defer c.providerLock.RUnlock()
	return c.providerRoot
}

// VerifSignIntermediate is what ConnectCA.SignIntermediate does in the primary after its ACL check.
func (c *CAManager) VerifSignIntermediate(csrPEM string) (string, error) {
	provider, _ := c.getCAProvider()
	if provider == nil {
		return "", fmt.Errorf("internal error: CA provider is nil")
	}
	csr, err := connect.ParseCSR(csrPEM)
	if err != nil {
		return "", err
	}
	return provider.SignIntermediate(csr)
}

// VerifRenewIntermediateNow forces an intermediate renewal (the periodic routine's body, without waiting for half the TTL).
func (c *CAManager) VerifRenewIntermediateNow() error {
	return c.renewIntermediateNow(context.Background())
}

// VerifSecondaryUpdateRoots is the body of the secondary's primary-roots watch.
func (c *CAManager) VerifSecondaryUpdateRoots(roots structs.IndexedCARoots) error {
	return c.secondaryUpdateRoots(roots)
}
