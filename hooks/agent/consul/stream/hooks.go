//go:build verif

package stream

import (
	"context"
	"errors"
	"sync/atomic"
	"time"
)

// VerifDrainOne performs one iteration of Run's loop without blocking: it takes one queued batch
// and publishes it. It returns false when nothing is queued.
func (e *EventPublisher) VerifDrainOne() bool {
	select {
	case update := <-e.publishCh:
		e.publishEvent(update)
		return true
	default:
		return false
	}
}

// VerifQueued is the number of batches handed off but not yet published.
func (e *EventPublisher) VerifQueued() int { return len(e.publishCh) }

// VerifReady reports whether Next would return without blocking: the subscription is closed,
// or an item carrying events or an error follows the current one.
func (s *Subscription) VerifReady() bool {
	if atomic.LoadUint32(&s.state) != subStateOpen {
		return true
	}
	item := s.currentItem
	for {
		next, ok := item.NextNoBlock()
		if !ok {
			return false
		}
		if next.Err != nil || len(next.Events) > 0 {
			return true
		}
		item = next
	}
}

// VerifTracked reports whether the publisher still tracks the subscription for forced closes.
func (e *EventPublisher) VerifTracked(s *Subscription) bool {
	e.subscriptions.lock.RLock()
	defer e.subscriptions.lock.RUnlock()
	for _, m := range e.subscriptions.byToken {
		for _, x := range m {
			if x == s {
				return true
			}
		}
	}
	return false
}

var (
	errVerifWouldBlock = errors.New("verif: Next would block")
	verifClosedCh      = func() chan struct{} { c := make(chan struct{}); close(c); return c }()
)

// verifCtx is done exactly when the subscription's current item has no published successor yet, i.e. when
// bufferItem.Next would have to wait. Next evaluates ctx.Done() once per item it visits, so a call
// with this context returns the next deliverable event if one exists (however many items Next
// decides to skip) and errVerifWouldBlock otherwise - without the harness re-implementing Next.
type verifCtx struct{ s *Subscription }

func (verifCtx) Deadline() (time.Time, bool) { return time.Time{}, false }
func (c verifCtx) Done() <-chan struct{} {
	// what bufferItem.Next waits for is the close of the link's channel (the next pointer is stored
	// a moment earlier, so it is not the criterion: a thread parked between the two would make Next wait)
	select {
	case <-c.s.currentItem.link.ch:
		return nil
	default:
		return verifClosedCh
	}
}
func (verifCtx) Err() error                        { return errVerifWouldBlock }
func (verifCtx) Value(key interface{}) interface{} { return nil }

var _ context.Context = verifCtx{}

// VerifNextNoBlock is Next that never waits: ok=false means nothing is deliverable right now.
func (s *Subscription) VerifNextNoBlock() (ev Event, err error, ok bool) {
	ev, err = s.Next(verifCtx{s})
	if errors.Is(err, errVerifWouldBlock) {
		return Event{}, nil, false
	}
	return ev, err, true
}

// VerifCtx returns the context VerifNextNoBlock uses, for wrappers that call Next themselves.
func (s *Subscription) VerifCtx() context.Context { return verifCtx{s} }

// VerifWouldBlock reports whether err is the "nothing deliverable right now" answer of VerifCtx.
func VerifWouldBlock(err error) bool { return errors.Is(err, errVerifWouldBlock) }

// VerifHasNext reports whether the subscription is closed or its current item has a successor, i.e.
// whether Next would do something other than wait.
func (s *Subscription) VerifHasNext() bool {
	if atomic.LoadUint32(&s.state) != subStateOpen {
		return true
	}
	select {
	case <-s.currentItem.link.ch:
		return true
	default:
		return false
	}
}
