//go:build verif

package consul

import (
	"fmt"
	"io"
	"sync"
	"time"

	"github.com/hashicorp/go-hclog"
	"github.com/hashicorp/raft"

	"github.com/hashicorp/consul/agent/consul/fsm"
	"github.com/hashicorp/consul/agent/rpc/middleware"
	"github.com/hashicorp/consul/agent/structs"
	"github.com/hashicorp/consul/agent/token"
)

// RPC endpoints are methods on types that hold a *Server. They are run here on a Server that has exactly
// what those methods touch: the config, an FSM supplied by the harness, an ACL resolver with ACLs
// disabled and a real single-voter in-memory raft that has elected itself (IsLeader / LastContact /
// Leader / Apply are methods of the concrete *raft.Raft).

// verifDispatchFSM hands every committed log to the harness, which applies it to the explored world at
// that world's own next index (raft's index counts across all worlds a process explores).
type verifDispatchFSM struct {
	mu    sync.Mutex
	apply func(buf []byte) interface{}
}

func (d *verifDispatchFSM) Apply(l *raft.Log) interface{} {
	d.mu.Lock()
	f := d.apply
	d.mu.Unlock()
	if f == nil || l.Type != raft.LogCommand {
		return nil
	}
	return f(l.Data)
}
func (*verifDispatchFSM) Snapshot() (raft.FSMSnapshot, error) { return nil, fmt.Errorf("no snapshots") }
func (*verifDispatchFSM) Restore(rc io.ReadCloser) error      { return rc.Close() }

type verifRaft struct {
	r *raft.Raft
	d *verifDispatchFSM
}

var (
	verifRaftMu   sync.Mutex
	verifRaftPool []*verifRaft
	verifRaftN    int
)

func verifNewLeaderRaft() (*verifRaft, error) {
	verifRaftMu.Lock()
	verifRaftN++
	id := verifRaftN
	verifRaftMu.Unlock()
	conf := raft.DefaultConfig()
	conf.LocalID = raft.ServerID(fmt.Sprintf("verif-%d", id))
	conf.HeartbeatTimeout = 50 * time.Millisecond
	conf.ElectionTimeout = 50 * time.Millisecond
	conf.LeaderLeaseTimeout = 50 * time.Millisecond
	conf.CommitTimeout = 5 * time.Millisecond
	conf.Logger = hclog.NewNullLogger()
	store := raft.NewInmemStore()
	addr, trans := raft.NewInmemTransport("")
	cfg := raft.Configuration{Servers: []raft.Server{{Suffrage: raft.Voter, ID: conf.LocalID, Address: addr}}}
	snaps := raft.NewInmemSnapshotStore()
	if err := raft.BootstrapCluster(conf, store, store, snaps, trans, cfg); err != nil {
		return nil, err
	}
	d := &verifDispatchFSM{}
	r, err := raft.NewRaft(conf, d, store, store, snaps, trans)
	if err != nil {
		return nil, err
	}
	// setup only: nothing that is judged depends on how long the election takes
	deadline := time.Now().Add(2 * time.Minute)
	for r.State() != raft.Leader {
		if time.Now().After(deadline) {
			return nil, fmt.Errorf("in-memory raft did not elect itself")
		}
		time.Sleep(5 * time.Millisecond)
	}
	if err := r.Barrier(time.Minute).Error(); err != nil {
		return nil, err
	}
	return &verifRaft{r: r, d: d}, nil
}

func verifAcquireRaft() (*verifRaft, error) {
	verifRaftMu.Lock()
	if n := len(verifRaftPool); n > 0 {
		vr := verifRaftPool[n-1]
		verifRaftPool = verifRaftPool[:n-1]
		verifRaftMu.Unlock()
		return vr, nil
	}
	verifRaftMu.Unlock()
	return verifNewLeaderRaft()
}

// VerifServer is a Server value with what the RPC endpoint methods of KVS, Txn, ConfigEntry, Operator,
// Session, Intention and Catalog touch: config, the harness's FSM, ACLs off, and a leader raft whose
// committed logs are handed to the harness.
type VerifServer struct {
	Srv *Server
	vr  *verifRaft
}

// VerifNewServer: apply receives the encoded command of every raftApply an endpoint makes and returns
// the FSM response; nil makes writes a harness error (read-only use).
func VerifNewServer(f *fsm.FSM, apply func(buf []byte) interface{}) (*VerifServer, error) {
	return verifNewServer(f, apply, false)
}

// VerifNewServerACL is VerifNewServer with ACLs enabled (default deny): tokens, roles and policies are
// resolved by the server's own resolver backend from the FSM's state, through the real caches.
func VerifNewServerACL(f *fsm.FSM, apply func(buf []byte) interface{}) (*VerifServer, error) {
	return verifNewServer(f, apply, true)
}

func (v *VerifServer) ACL() *ACL { return &ACL{srv: v.Srv, logger: v.Srv.logger} }

func verifNewServer(f *fsm.FSM, apply func(buf []byte) interface{}, acls bool) (*VerifServer, error) {
	vr, err := verifAcquireRaft()
	if err != nil {
		return nil, err
	}
	vr.d.mu.Lock()
	vr.d.apply = apply
	vr.d.mu.Unlock()
	cfg := DefaultConfig()
	cfg.Datacenter = "dc1"
	cfg.PrimaryDatacenter = "dc1"
	cfg.ConnectEnabled = true
	logger := hclog.NewInterceptLogger(&hclog.LoggerOptions{Output: io.Discard})
	srv := &Server{
		config:        cfg,
		fsm:           f,
		raft:          vr.r,
		logger:        logger,
		loggers:       newLoggerStore(logger),
		leaveCh:       make(chan struct{}),
		shutdownCh:    make(chan struct{}),
		sessionTimers: NewSessionTimers(),
	}
	srv.rpcRecorder = middleware.NewRequestRecorder(logger, srv.IsLeader, cfg.Datacenter)
	settings := ACLResolverSettings{ACLsEnabled: false, Datacenter: "dc1", NodeName: "node1", ACLDownPolicy: "extend-cache", ACLDefaultPolicy: "allow"}
	caches := &structs.ACLCachesConfig{}
	if acls {
		cfg.ACLsEnabled = true
		settings = ACLResolverSettings{ACLsEnabled: true, Datacenter: "dc1", NodeName: "node1", ACLDownPolicy: "extend-cache", ACLDefaultPolicy: "deny",
			ACLPolicyTTL: 30 * time.Second, ACLTokenTTL: 30 * time.Second, ACLRoleTTL: 30 * time.Second}
		cfg.ACLResolverSettings = settings
		caches = &structs.ACLCachesConfig{Identities: 64, Policies: 64, ParsedPolicies: 64, Authorizers: 64, Roles: 64}
	}
	res, err := NewACLResolver(&ACLResolverConfig{
		Config:      settings,
		Logger:      logger,
		CacheConfig: caches,
		Backend:     &serverACLResolverBackend{Server: srv},
		Tokens:      new(token.Store),
	})
	if err != nil {
		return nil, err
	}
	srv.ACLResolver = res
	return &VerifServer{Srv: srv, vr: vr}, nil
}

// VerifSetFSM points the server at another FSM object (worlds that are forks have their own).
func (s *Server) VerifSetFSM(f *fsm.FSM) { s.fsm = f }

// Session TTL timers (session_ttl.go): the timers are created parked (vtime.ParkTimers), the harness asks whether
// one is armed and runs what it would run.
func (s *Server) VerifSessionTimerArmed(id string) bool { return s.sessionTimers.Get(id) != nil }
func (s *Server) VerifSessionTimers() int               { return s.sessionTimers.Len() }
func (s *Server) VerifExpireSession(id string)          { s.invalidateSession(id, nil) }
func (s *Server) VerifInitializeSessionTimers() error   { return s.initializeSessionTimers() }

// VerifConfig gives the harness the server configuration (default intention policy, ...).
func (s *Server) VerifConfig() *Config { return s.config }

// Close returns the raft instance to the pool.
func (v *VerifServer) Close() {
	v.vr.d.mu.Lock()
	v.vr.d.apply = nil
	v.vr.d.mu.Unlock()
	verifRaftMu.Lock()
	verifRaftPool = append(verifRaftPool, v.vr)
	verifRaftMu.Unlock()
}

func (v *VerifServer) KVS() *KVS { return &KVS{srv: v.Srv, logger: v.Srv.logger} }
func (v *VerifServer) Txn() *Txn { return &Txn{srv: v.Srv, logger: v.Srv.logger} }
func (v *VerifServer) ConfigEntry() *ConfigEntry {
	return &ConfigEntry{srv: v.Srv, logger: v.Srv.logger}
}
func (v *VerifServer) Operator() *Operator   { return &Operator{srv: v.Srv, logger: v.Srv.logger} }
func (v *VerifServer) Session() *Session     { return &Session{srv: v.Srv, logger: v.Srv.logger} }
func (v *VerifServer) Intention() *Intention { return &Intention{srv: v.Srv, logger: v.Srv.logger} }
func (v *VerifServer) Catalog() *Catalog     { return &Catalog{srv: v.Srv, logger: v.Srv.logger} }
func (v *VerifServer) Health() *Health       { return &Health{srv: v.Srv, logger: v.Srv.logger} }
func (v *VerifServer) Internal() *Internal   { return &Internal{srv: v.Srv, logger: v.Srv.logger} }
func (v *VerifServer) Coordinate() *Coordinate {
	return &Coordinate{srv: v.Srv, logger: v.Srv.logger}
}
func (v *VerifServer) PreparedQuery() *PreparedQuery {
	return &PreparedQuery{srv: v.Srv, logger: v.Srv.logger}
}
func (v *VerifServer) DiscoveryChain() *DiscoveryChain { return &DiscoveryChain{srv: v.Srv} }
func (v *VerifServer) ConnectCA() *ConnectCA           { return &ConnectCA{srv: v.Srv, logger: v.Srv.logger} }

// VerifKVS runs the real KVS read endpoints against the state held by an FSM.
type VerifKVS struct {
	kvs *KVS
	vs  *VerifServer
}

func VerifNewKVS(f *fsm.FSM) (*VerifKVS, error) {
	vs, err := VerifNewServer(f, nil)
	if err != nil {
		return nil, err
	}
	return &VerifKVS{kvs: vs.KVS(), vs: vs}, nil
}

func (v *VerifKVS) Close() { v.vs.Close() }

func (v *VerifKVS) Get(key string) (structs.IndexedDirEntries, error) {
	var reply structs.IndexedDirEntries
	err := v.kvs.Get(&structs.KeyRequest{Datacenter: "dc1", Key: key}, &reply)
	return reply, err
}

func (v *VerifKVS) List(prefix string) (structs.IndexedDirEntries, error) {
	var reply structs.IndexedDirEntries
	err := v.kvs.List(&structs.KeyRequest{Datacenter: "dc1", Key: prefix}, &reply)
	return reply, err
}

func (v *VerifKVS) ListKeys(prefix, sep string) (structs.IndexedKeyList, error) {
	var reply structs.IndexedKeyList
	err := v.kvs.ListKeys(&structs.KeyListRequest{Datacenter: "dc1", Prefix: prefix, Seperator: sep}, &reply)
	return reply, err
}
