//go:build verif

package consul

import (
	"fmt"
	"io"
	"sync"
	"time"

	"github.com/hashicorp/go-hclog"
	"github.com/hashicorp/raft"

	"github.com/hashicorp/consul/agent/consul/fsm"
	"github.com/hashicorp/consul/agent/structs"
	"github.com/hashicorp/consul/agent/token"
)

// The KVS read endpoints (Get / List / ListKeys) are methods on a type that holds a *Server. They are
// run here on a Server that has exactly what those methods touch: the config, an FSM supplied by the
// harness, an ACL resolver with ACLs disabled and a real single-voter in-memory raft that has elected
// itself (IsLeader / LastContact / Leader are methods of the concrete *raft.Raft).

type verifNopFSM struct{}

func (verifNopFSM) Apply(*raft.Log) interface{}         { return nil }
func (verifNopFSM) Snapshot() (raft.FSMSnapshot, error) { return nil, fmt.Errorf("no snapshots") }
func (verifNopFSM) Restore(rc io.ReadCloser) error      { return rc.Close() }

var (
	verifRaftOnce sync.Once
	verifRaft     *raft.Raft
	verifRaftErr  error
)

func verifLeaderRaft() (*raft.Raft, error) {
	verifRaftOnce.Do(func() {
		conf := raft.DefaultConfig()
		conf.LocalID = "verif"
		conf.HeartbeatTimeout = 50 * time.Millisecond
		conf.ElectionTimeout = 50 * time.Millisecond
		conf.LeaderLeaseTimeout = 50 * time.Millisecond
		conf.CommitTimeout = 5 * time.Millisecond
		conf.Logger = hclog.NewNullLogger()
		store := raft.NewInmemStore()
		addr, trans := raft.NewInmemTransport("")
		cfg := raft.Configuration{Servers: []raft.Server{{Suffrage: raft.Voter, ID: conf.LocalID, Address: addr}}}
		snaps := raft.NewInmemSnapshotStore()
		if err := raft.BootstrapCluster(conf, store, store, snaps, trans, cfg); err != nil {
			verifRaftErr = err
			return
		}
		r, err := raft.NewRaft(conf, verifNopFSM{}, store, store, snaps, trans)
		if err != nil {
			verifRaftErr = err
			return
		}
		// setup only: nothing that is judged depends on how long the election takes
		deadline := time.Now().Add(2 * time.Minute)
		for r.State() != raft.Leader {
			if time.Now().After(deadline) {
				verifRaftErr = fmt.Errorf("in-memory raft did not elect itself")
				return
			}
			time.Sleep(5 * time.Millisecond)
		}
		verifRaft = r
	})
	return verifRaft, verifRaftErr
}

// VerifKVS runs the real KVS read endpoints against the state held by an FSM.
type VerifKVS struct {
	kvs *KVS
}

func VerifNewKVS(f *fsm.FSM) (*VerifKVS, error) {
	r, err := verifLeaderRaft()
	if err != nil {
		return nil, err
	}
	cfg := DefaultConfig()
	cfg.Datacenter = "dc1"
	cfg.PrimaryDatacenter = "dc1"
	logger := hclog.NewInterceptLogger(&hclog.LoggerOptions{Output: io.Discard})
	srv := &Server{
		config:     cfg,
		fsm:        f,
		raft:       r,
		logger:     logger,
		loggers:    newLoggerStore(logger),
		leaveCh:    make(chan struct{}),
		shutdownCh: make(chan struct{}),
	}
	res, err := NewACLResolver(&ACLResolverConfig{
		Config:      ACLResolverSettings{ACLsEnabled: false, Datacenter: "dc1", NodeName: "node1", ACLDownPolicy: "extend-cache", ACLDefaultPolicy: "allow"},
		Logger:      logger,
		CacheConfig: &structs.ACLCachesConfig{},
		Backend:     &serverACLResolverBackend{Server: srv},
		Tokens:      new(token.Store),
	})
	if err != nil {
		return nil, err
	}
	srv.ACLResolver = res
	return &VerifKVS{kvs: &KVS{srv: srv, logger: logger}}, nil
}

func (v *VerifKVS) Get(key string) (structs.IndexedDirEntries, error) {
	var reply structs.IndexedDirEntries
	err := v.kvs.Get(&structs.KeyRequest{Datacenter: "dc1", Key: key}, &reply)
	return reply, err
}

func (v *VerifKVS) List(prefix string) (structs.IndexedDirEntries, error) {
	var reply structs.IndexedDirEntries
	err := v.kvs.List(&structs.KeyRequest{Datacenter: "dc1", Key: prefix}, &reply)
	return reply, err
}

func (v *VerifKVS) ListKeys(prefix, sep string) (structs.IndexedKeyList, error) {
	var reply structs.IndexedKeyList
	err := v.kvs.ListKeys(&structs.KeyListRequest{Datacenter: "dc1", Prefix: prefix, Seperator: sep}, &reply)
	return reply, err
}
