//go:build verif

package submatview

import (
	"github.com/hashicorp/go-hclog"

	"github.com/hashicorp/consul/proto/private/pbsubscribe"
)

// VerifClient is the client side of a subscription as RPCMaterializer / LocalMaterializer run it:
// the real materializer state and the real event handler chain, driven one event at a time.
type VerifClient struct {
	mat     *materializer
	handler eventHandler
	Updates int // number of updateView calls
}

func NewVerifClient(v View) *VerifClient {
	return &VerifClient{mat: newMaterializer(hclog.NewNullLogger(), v, nil)}
}

// Begin starts a (re)subscription like subscribeOnce: the request carries the current index.
func (c *VerifClient) Begin() uint64 {
	idx := c.mat.currentIndex()
	c.handler = initialHandler(idx)
	return idx
}

// Handle processes one received event.
func (c *VerifClient) Handle(ev *pbsubscribe.Event) error {
	var err error
	c.handler, err = c.handler(c, ev)
	if err != nil {
		c.mat.reset()
	}
	return err
}

// Aborted is the reaction to the server closing the stream with codes.Aborted.
func (c *VerifClient) Aborted() { c.mat.reset() }

func (c *VerifClient) Index() uint64 { return c.mat.currentIndex() }
func (c *VerifClient) Result() any {
	c.mat.lock.Lock()
	defer c.mat.lock.Unlock()
	return c.mat.view.Result(c.mat.index)
}

func (c *VerifClient) updateView(events []*pbsubscribe.Event, index uint64) error {
	c.Updates++
	return c.mat.updateView(events, index)
}
func (c *VerifClient) reset() { c.mat.reset() }
