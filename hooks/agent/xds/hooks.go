//go:build verif

package xds

import (
	envoy_rbac_v3 "github.com/envoyproxy/go-control-plane/envoy/config/rbac/v3"

	"github.com/hashicorp/consul/agent/structs"
	"github.com/hashicorp/consul/proto/private/pbpeering"
)

// VerifMakeRBACRules exposes the intention -> Envoy RBAC translation.
func VerifMakeRBACRules(intentions structs.SimplifiedIntentions, defaultAllow bool, trustDomain, datacenter, partition string, isHTTP bool,
	bundles []*pbpeering.PeeringTrustBundle) (rbac *envoy_rbac_v3.RBAC, err error) {
	return makeRBACRules(intentions, defaultAllow, rbacLocalInfo{trustDomain: trustDomain, datacenter: datacenter, partition: partition}, isHTTP, bundles, nil)
}
