//go:build verif

package inmem

import (
	"time"

	"github.com/hashicorp/consul/agent/consul/stream"
)

// VerifClone returns a copy-on-write clone of the resource store with its own publisher.
func (s *Store) VerifClone() *Store {
	s.mu.RLock()
	db := s.db.Snapshot()
	s.mu.RUnlock()
	n := &Store{db: db, pub: stream.NewEventPublisher(10 * time.Second)}
	n.pub.RegisterHandler(eventTopic, n.watchSnapshot, false)
	return n
}

// VerifPublisher exposes the store's event publisher (never Run by the harness).
func (s *Store) VerifPublisher() *stream.EventPublisher { return s.pub }

// VerifAll lists every stored resource (all types and tenancies) in primary-index order.
func (s *Store) VerifAll() []interface{} {
	tx := s.txn(false)
	defer tx.Abort()
	iter, err := tx.Get(tableNameResources, indexNameID)
	if err != nil {
		panic(err)
	}
	var out []interface{}
	for raw := iter.Next(); raw != nil; raw = iter.Next() {
		out = append(out, raw)
	}
	return out
}
