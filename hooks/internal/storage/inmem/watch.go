//go:build verif

package inmem

import (
	"github.com/hashicorp/consul/agent/consul/stream"
	"github.com/hashicorp/consul/proto-public/pbresource"
)

// VerifStore exposes the backend's store.
func (b *Backend) VerifStore() *Store { return b.store }

// VerifNextNoBlock is Watch.Next that never waits: ok=false means no event is deliverable now.
func (w *Watch) VerifNextNoBlock() (ev *pbresource.WatchEvent, err error, ok bool) {
	ev, err = w.Next(w.sub.VerifCtx())
	if stream.VerifWouldBlock(err) {
		return nil, nil, false
	}
	return ev, err, true
}

// VerifCanProgress reports whether a Next call would consume at least one buffered item (or find the
// watch closed) instead of waiting right away. It takes no lock.
func (w *Watch) VerifCanProgress() bool { return len(w.events) != 0 || w.sub.VerifHasNext() }
