//go:build verif

package raft

import "github.com/hashicorp/consul/internal/storage/inmem"

// VerifClone returns a backend over a copy-on-write clone of the resource store.
func (b *Backend) VerifClone() *Backend {
	n := &Backend{handle: b.handle, store: b.store.VerifClone(), logger: b.logger}
	n.forwardingServer = newForwardingServer(n)
	n.forwardingClient = newForwardingClient(b.handle, b.logger)
	return n
}

// VerifStore exposes the underlying in-memory store.
func (b *Backend) VerifStore() *inmem.Store { return b.store }
